#!/bin/sh
# Runs every thorough tier once, sequentially, and prints one summary line per check (sizing aid; not a registered command).
# usage: tools/thorough_all.sh [ids...]
cd "$(dirname "$0")/.." || exit 9
[ -d .venv ] || ./setup.sh >/dev/null 2>&1
IDS=${*:-"C01 C02 C03 C04 C05 C06 C08 C10 C11 C12 C13 C14 C15 C16 C17 C18 C20"}
for id in $IDS; do
  S=$(date +%s)
  ./check $id --tier thorough > thorough_$id.log 2>&1; RC=$?
  E=$(date +%s)
  echo "$id exit=$RC wall=$((E-S))s $(grep -a "^$id \[" thorough_$id.log | tail -1)"
done
