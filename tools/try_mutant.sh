#!/bin/sh
# usage: try_mutant.sh <dir with patch.diff, demo.py> <check id> [tier]
# Confirms the demo (scratch worktree), then applies the patch to /repo, runs the check, reverts.
D=$1; C=$2; T=${3:-quick}
WT=/tmp/wt_try_$$
git -C /repo worktree add -q --detach $WT HEAD || exit 9
( cd $WT && PYTHONPATH=$WT timeout 300 /venv/bin/python $D/demo.py >/dev/null 2>&1 ); CLEAN=$?
( cd $WT && git apply $D/patch.diff ) || { echo "patch does not apply"; git -C /repo worktree remove --force $WT; exit 9; }
( cd $WT && PYTHONPATH=$WT timeout 300 /venv/bin/python $D/demo.py >/dev/null 2>&1 ); MUT=$?
git -C /repo worktree remove --force $WT
echo "demo: clean=$CLEAN mutated=$MUT"
git -C /repo apply $D/patch.diff || exit 9
cd /verif && timeout 1800 ./check $C --tier $T > /tmp/try_$$.log 2>&1; RC=$?
git -C /repo checkout -- .
echo "check $C [$T] exit=$RC violations=$(grep -c '^VIOLATION' /tmp/try_$$.log)"
grep -v '^VIOLATION' /tmp/try_$$.log | tail -3 | cut -c1-300
rm -f /tmp/try_$$.log
