#!/bin/sh
# usage: try_mutant.sh <dir with patch.diff, demo.py> <check id> [tier]
# Everything happens in a scratch worktree of /repo (removed afterwards): the demo is confirmed on the clean and on the
# patched worktree, then the check runs against the patched worktree (VERIF_REPO) with its evidence and replay files sent
# to a scratch directory (VERIF_OUT).  /repo and /verif/evidence are never touched, so several of these can run at once.
D=$1; C=$2; T=${3:-quick}
WT=/tmp/wt_try_$$; OUTD=/tmp/out_try_$$
git -C /repo worktree add -q --detach $WT HEAD || exit 9
( cd $WT && PYTHONPATH=$WT timeout 300 /venv/bin/python $D/demo.py >/dev/null 2>&1 ); CLEAN=$?
( cd $WT && git apply $D/patch.diff ) || { echo "patch does not apply"; git -C /repo worktree remove --force $WT; exit 9; }
( cd $WT && PYTHONPATH=$WT timeout 300 /venv/bin/python $D/demo.py >/dev/null 2>&1 ); MUT=$?
echo "demo: clean=$CLEAN mutated=$MUT"
mkdir -p $OUTD
cd /verif && VERIF_REPO=$WT VERIF_OUT=$OUTD timeout 1800 ./check $C --tier $T > $OUTD/log 2>&1; RC=$?
echo "check $C [$T] exit=$RC violations=$(grep -c '^VIOLATION' $OUTD/log)"
grep -v '^VIOLATION' $OUTD/log | tail -3 | cut -c1-300
git -C /repo worktree remove --force $WT
rm -rf $OUTD
