#!/usr/bin/env python3
"""Run the repository's pinned baseline (guard off) and compare the passing set with BASELINE.json."""
import json, os, subprocess, sys, tempfile, xml.etree.ElementTree as ET
base = json.load(open("/root/.vp/BASELINE.json"))
out = tempfile.mktemp(suffix=".xml", dir="/tmp")
env = dict(os.environ)
env.pop("AMARANTH_VERIF", None)
cmd = base["cmd"].replace("<file>", out)
subprocess.run(cmd, shell=True, env=env, stdout=subprocess.DEVNULL, stderr=subprocess.DEVNULL)
passed = set()
for tc in ET.parse(out).getroot().iter("testcase"):
    if not any(c.tag in ("failure", "error", "skipped") for c in tc):
        passed.add(f"{tc.get('classname')}::{tc.get('name')}")
os.unlink(out)
want = set(base["stable_pass"])
missing = sorted(want - passed)
print(f"baseline: {len(want & passed)}/{len(want)} stable tests pass; {len(passed - want)} extra passing")
for m in missing[:20]:
    print("  NOT PASSING:", m)
sys.exit(1 if missing else 0)
