#!/bin/sh
# Runs the quick check of its property against every seeded change in /verif/seeded (regression of the detection table in
# DESIGN.md).  Each run happens in its own scratch worktree (tools/try_mutant.sh), four at a time; /repo and /verif/evidence
# are not touched.
cd "$(dirname "$0")/.." || exit 9
ls seeded | xargs -P ${JOBS:-4} -I{} sh -c 'id={}; prop=${id%%-*}; out=$(tools/try_mutant.sh /verif/seeded/$id $prop quick 2>&1 | grep "^check\|^demo" | tr "\n" " "); echo "$id: $out"'
