#!/bin/sh
# Applies every seeded change in /verif/seeded to /repo in turn and runs the quick check of its property (regression of the
# detection table in DESIGN.md).  /repo must be clean; it is restored after every mutant.
cd "$(dirname "$0")/.." || exit 9
for d in seeded/*/; do
  id=$(basename $d); prop=${id%%-*}
  out=$(tools/try_mutant.sh /verif/seeded/$id $prop quick 2>&1 | grep "^check\|^demo" | tr '\n' ' ')
  echo "$id: $out"
done
