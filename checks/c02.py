"""C02 - assignments and control flow: last active assignment wins, per bit."""
import warnings

import z3

from vlib import run, symsim, refstmt
from vlib.run import PROVED, VIOLATION, INCONCLUSIVE, ERROR, UNREPRODUCED
from vlib.gen import stmts as S
from vlib.gen import expr as G
from vlib.pysym import (explore, bool_term, eval_in_model, is_sym, timed_check, sym_not, sym_ite, fresh_range,
                        Inconclusive, Unsupported)

FILES = ["amaranth/hdl/_dsl.py", "amaranth/hdl/_ast.py", "amaranth/sim/_pyrtl.py", "amaranth/hdl/_ir.py",
         "amaranth/hdl/_xfrm.py", "amaranth/sim/pysim.py"]


def neq_term(a, b):
    if is_sym(a):
        return sym_not(a == b)
    if is_sym(b):
        return sym_not(b == a)
    return a != b


def impl_state(idx, fsm, states):
    """Implementation encoding of the abstract state index."""
    r = fsm.encoding[states[-1]]
    for k in reversed(range(len(states) - 1)):
        r = sym_ite(idx == k, fsm.encoding[states[k]], r)
    return r


def concrete_run(prog, env0, rst):
    """Replay on the unmodified simulator. env0: name -> int (inputs, regs), 'fsm:<n>' -> abstract idx."""
    from amaranth.sim import Simulator, Period
    with symsim.real_states():
        m, sigs, domains = S.build(prog)
        sim = Simulator(m)
        sim.add_clock(Period(MHz=1))
        out = {}

        async def tb(ctx):
            for n, (w, s, init, kind) in prog["signals"].items():
                if kind in ("in", "sync") and w > 0:
                    ctx.set(sigs[n], env0[n])
            for name, fs in prog.get("fsms", {}).items():
                fsm = sigs["fsm:" + name]
                ctx.set(fsm.state, fsm.encoding[fs["states"][env0["fsm:" + name]]])
            if domains["sync"].rst is not None:
                ctx.set(domains["sync"].rst, rst)
            out["comb"] = {n: ctx.get(sigs[n]) for n, v in prog["signals"].items() if v[3] == "comb"}
            for name, fs in prog.get("fsms", {}).items():
                fsm = sigs["fsm:" + name]
                out.setdefault("ongoing", {})[name] = {st: ctx.get(fsm.ongoing(st)) for st in fs["states"]}
                for st in fs["states"]:
                    out["comb"][f"{name}.ongoing({st})"] = out["ongoing"][name][st]
            await ctx.tick()
            out["regs"] = {n: ctx.get(sigs[n]) for n, v in prog["signals"].items() if v[3] == "sync"}
            for name, fs in prog.get("fsms", {}).items():
                fsm = sigs["fsm:" + name]
                dec = {v: k for k, v in fsm.encoding.items()}
                out["regs"]["fsm:" + name] = fs["states"].index(dec[ctx.get(fsm.state)])
        sim.add_testbench(tb)
        sim.run()
    return out


def oracle_concrete(prog, env0, rst):
    oracle = refstmt.StmtOracle(prog)
    e0 = dict(env0)
    for name, fs in prog.get("fsms", {}).items():
        e0["fsm:" + name] = (env0["fsm:" + name], fs["states"])
    env = oracle.comb(e0)
    nxt = oracle.step(env, rst=rst)
    out = {"comb": {n: env[n] for n, v in prog["signals"].items() if v[3] == "comb"}, "regs": {}}
    for name, fs in prog.get("fsms", {}).items():
        for k_, st in enumerate(fs["states"]):
            out["comb"][f"{name}.ongoing({st})"] = 1 if env0["fsm:" + name] == k_ else 0
    for k, v in nxt.items():
        out["regs"][k] = v[0] if isinstance(v, tuple) else v
    return out


def check_program(job):
    prog = job["prog"]
    text = S.show(prog)
    base = {"id": job["id"], "program": text, "nontrivial": True}
    built, sim, problem = symsim.construct_or_report(lambda: S.build(prog), base, {"prog": prog, "construct": True})
    if problem is not None:
        return [problem]
    m, sigs, domains = built
    oracle = refstmt.StmtOracle(prog)
    cd = domains["sync"]
    fsms = prog.get("fsms", {})
    assumptions = []
    fvars = {}
    for name, fs in fsms.items():
        v, c = fresh_range(f"fsm_{name}_idx", 0, len(fs["states"]) - 1)
        fvars[name] = v
        assumptions.append(c)

    def scenario():
        sim.reset()
        sim.sym_state("v")
        env0 = {}
        for name, fs in fsms.items():
            fsm = sigs["fsm:" + name]
            sim.poke(fsm.state, impl_state(fvars[name], fsm, fs["states"]))
            env0["fsm:" + name] = (fvars[name], fs["states"])
        for n, (w, s, init, kind) in prog["signals"].items():
            if kind in ("in", "sync"):
                env0[n] = sim.value(sigs[n])
        rst = sim.value(cd.rst) if cd.rst is not None else 0
        sim.settle()
        comb_got = {n: sim.value(sigs[n]) for n, v in prog["signals"].items() if v[3] == "comb"}
        ongoing_got = {}
        for name, fs in fsms.items():
            fsm = sigs["fsm:" + name]
            for st in fs["states"]:
                ongoing_got[(name, st)] = sim.value(fsm.ongoing(st))
        sim.tick(cd.clk)
        regs_got = {n: sim.value(sigs[n]) for n, v in prog["signals"].items() if v[3] == "sync"}
        for name in fsms:
            regs_got["fsm:" + name] = sim.value(sigs["fsm:" + name].state)
        env = oracle.comb(env0)
        nxt = oracle.step(env, rst=rst)
        return env0, rst, comb_got, ongoing_got, regs_got, env, nxt

    paths = explore(scenario, assumptions=assumptions, max_paths=64)
    out = []
    kinds = {"comb": "every comb-driven signal == initial value overridden by the active assignments (program order)",
             "sync": "every sync-driven signal after the edge == previous value overridden likewise; reset loads init; "
                     "FSM state/ongoing() follow the reference"}
    results = {k: dict(base, kind=k, assertion=a, status=PROVED, detail="", cex=None) for k, a in kinds.items()}
    for p in paths:
        if p.exc is not None:
            for r in results.values():
                r.update(status=ERROR, detail=f"exception on path: {type(p.exc).__name__}: {p.exc}")
            break
        env0, rst, comb_got, ongoing_got, regs_got, env, nxt = p.value
        diffs = {"comb": [], "sync": []}
        for n, got in comb_got.items():
            ne = neq_term(got, env[n])
            if ne is not False:
                diffs["comb"].append(bool_term(ne))
        for (name, st), got in ongoing_got.items():
            idx, names = env0["fsm:" + name]
            want = sym_ite(idx == names.index(st), 1, 0)
            ne = neq_term(got, want)
            if ne is not False:
                diffs["comb"].append(bool_term(ne))
        for n, got in regs_got.items():
            want = nxt[n]
            if isinstance(want, tuple):
                want = impl_state(want[0], sigs[n], want[1])
            ne = neq_term(got, want)
            if ne is not False:
                diffs["sync"].append(bool_term(ne))
        for kind in ("comb", "sync"):
            r = results[kind]
            if r["status"] != PROVED or not diffs[kind]:
                continue
            s = z3.Solver()
            s.set("timeout", 180000)
            for c in assumptions:
                s.add(c)
            for c in p.pc:
                s.add(c)
            s.add(z3.Or(*diffs[kind]))
            res = timed_check(s)
            if res == z3.unknown:
                r.update(status=INCONCLUSIVE, detail="solver unknown")
            elif res == z3.sat:
                mdl = s.model()
                e0 = {}
                for k, v in env0.items():
                    e0[k] = eval_in_model(mdl, v[0] if isinstance(v, tuple) else v)
                rv = eval_in_model(mdl, rst)
                real = concrete_run(prog, e0, rv)
                want = oracle_concrete(prog, e0, rv)
                key = "comb" if kind == "comb" else "regs"
                cex = {"state": e0, "rst": rv, "real": real[key], "reference": want[key]}
                if real[key] != want[key]:
                    bad = sorted(k for k in want[key] if real[key].get(k) != want[key][k])
                    r.update(status=VIOLATION, cex=cex,
                             detail=f"state {e0} rst={rv}: simulator {kind} values {real[key]} != reference {want[key]} (differs on {bad})",
                             signature={"kind": kind, "differs": ",".join(bad)},
                             replay={"prog": prog, "state": e0, "rst": rv})
                else:
                    r.update(status=UNREPRODUCED, cex=cex, detail=f"symbolic disagreement did not reproduce for {e0} rst={rv}")
    return list(results.values())


def corner_programs():
    """Hand-written corner programs."""
    sg = lambda n, w, s=False: ["sig", n, w, s]
    P = []
    # 1. if/elif/else with multi-bit and signed conditions, last assignment wins
    P.append({"signals": {"i0": [3, False, 0, "in"], "i1": [2, True, 0, "in"], "c0": [4, False, 5, "comb"], "r0": [3, True, -2, "sync"]},
              "fsms": {},
              "stmts": [["assign", "comb", sg("c0", 4), ["const", 1, None, False]],
                        ["if", [[sg("i0", 3), [["assign", "comb", sg("c0", 4), sg("i0", 3)], ["assign", "sync", sg("r0", 3, True), sg("i1", 2, True)]]],
                                [sg("i1", 2, True), [["assign", "comb", ["slice", sg("c0", 4), 1, 3], ["const", 3, None, False]]]]],
                         [["assign", "sync", sg("r0", 3, True), ["neg", sg("r0", 3, True)]]]],
                        ["assign", "comb", ["slice", sg("c0", 4), 3, 4], ["const", 1, None, False]]]})
    # 2. switch with duplicates, unreachable, empty Case, Default, '-' patterns
    P.append({"signals": {"i0": [3, False, 0, "in"], "c0": [4, False, 9, "comb"], "r0": [2, False, 1, "sync"]},
              "fsms": {},
              "stmts": [["switch", sg("i0", 3), [[[1, 2], [["assign", "comb", sg("c0", 4), ["const", 1, None, False]]]],
                                                 [["1--"], [["assign", "comb", sg("c0", 4), ["const", 2, None, False]], ["assign", "sync", sg("r0", 2), ["const", 3, None, False]]]],
                                                 [[2, 9], [["assign", "comb", sg("c0", 4), ["const", 3, None, False]]]],
                                                 [[], [["assign", "comb", sg("c0", 4), ["const", 4, None, False]]]],
                                                 [["-0 1"], [["assign", "sync", sg("r0", 2), ["const", 2, None, False]]]],
                                                 [None, [["assign", "comb", ["bit_select", sg("c0", 4), sg("r0", 2), 2], ["const", 3, None, False]]]]]]]})
    # 3. zero-width switch test and zero-width targets
    P.append({"signals": {"i0": [0, False, 0, "in"], "i1": [2, False, 0, "in"], "c0": [0, False, 0, "comb"], "c1": [2, False, 1, "comb"]},
              "fsms": {},
              "stmts": [["switch", sg("i0", 0), [[[0], [["assign", "comb", sg("c1", 2), sg("i1", 2)]]], [None, [["assign", "comb", sg("c1", 2), ["const", 3, None, False]]]]]],
                        ["assign", "comb", sg("c0", 0), sg("i1", 2)],
                        ["if", [[sg("i0", 0), [["assign", "comb", sg("c1", 2), ["const", 0, None, False]]]]], None]]})
    # 4. FSM with forward references, explicit init, ongoing(), next under conditions
    fs = {"fsm": {"domain": "sync", "states": ["A", "B", "C"], "init": "B"}}
    P.append({"signals": {"i0": [1, False, 0, "in"], "i1": [2, False, 0, "in"], "c0": [2, False, 0, "comb"], "r0": [3, False, 0, "sync"]},
              "fsms": fs,
              "stmts": [["fsm", "sync", "fsm", "B",
                         [["A", [["if", [[sg("i0", 1), [["next", "fsm", "C"]]]], [["next", "fsm", "B"]]], ["assign", "comb", sg("c0", 2), ["const", 1, None, False]]]],
                          ["B", [["assign", "sync", sg("r0", 3), ["add", sg("r0", 3), ["const", 1, None, False]]],
                                 ["switch", sg("i1", 2), [[[3], [["next", "fsm", "A"]]], [["0-"], [["next", "fsm", "C"]]]]]]],
                          ["C", [["assign", "comb", sg("c0", 2), ["const", 2, None, False]], ["next", "fsm", "A"], ["if", [[sg("i0", 1), [["next", "fsm", "C"]]]], None]]]]],
                        ["if", [[["ongoing", "fsm", "B"], [["assign", "comb", ["slice", sg("c0", 2), 1, 2], ["const", 1, None, False]]]]], None]]})
    # 5. FSM implicit init, state without next (stays), assignments in states to sync
    fs = {"fsm": {"domain": "sync", "states": ["X", "Y"], "init": None}}
    P.append({"signals": {"i0": [2, True, 0, "in"], "r0": [3, True, 1, "sync"], "c0": [1, False, 0, "comb"]},
              "fsms": fs,
              "stmts": [["fsm", "sync", "fsm", None,
                         [["X", [["assign", "sync", sg("r0", 3, True), sg("i0", 2, True)], ["if", [[["lt", sg("i0", 2, True), ["const", 0, None, False]], [["next", "fsm", "Y"]]]], None]]],
                          ["Y", [["assign", "comb", sg("c0", 1), ["const", 1, None, False]]]]]]]})
    # 6. targets: Cat, word_select past the end, array element, as_signed, nested ifs
    P.append({"signals": {"i0": [3, False, 0, "in"], "i1": [1, False, 0, "in"], "i2": [4, True, 0, "in"],
                          "r0": [3, False, 2, "sync"], "r1": [2, True, -1, "sync"], "c0": [5, False, 17, "comb"], "c1": [2, False, 0, "comb"]},
              "fsms": {},
              "stmts": [["assign", "sync", ["cat", [sg("r0", 3), sg("r1", 2, True)]], sg("i2", 4, True)],
                        ["if", [[sg("i1", 1), [["if", [[["gt", sg("i0", 3), ["const", 2, None, False]], [["assign", "sync", ["word_select", sg("r0", 3), sg("i0", 3), 2], ["const", 3, None, False]]]]],
                                                [["assign", "sync", ["as_signed", sg("r1", 2, True)], ["const", 1, None, False]]]]]]], None],
                        ["assign", "comb", ["array", [sg("c0", 5), sg("c1", 2)], sg("i1", 1)], sg("i2", 4, True)],
                        ["assign", "comb", ["bit_select", sg("c0", 5), sg("i0", 3), 3], ["const", 5, None, False]]]})
    # 7. partially driven sync signal under reset; comb reads of early comb
    P.append({"signals": {"i0": [2, False, 0, "in"], "e0": [3, False, 1, "comb"], "c0": [3, True, -1, "comb"], "r0": [4, False, 10, "sync"]},
              "fsms": {},
              "stmts": [["assign", "comb", ["slice", sg("e0", 3), 0, 2], sg("i0", 2)],
                        ["assign", "sync", ["slice", sg("r0", 4), 1, 3], ["add", sg("e0", 3), sg("i0", 2)]],
                        ["if", [[["index", sg("e0", 3), 0], [["assign", "comb", sg("c0", 3, True), ["neg", sg("e0", 3)]]]]], [["assign", "comb", ["slice", sg("c0", 3, True), 2, 3], ["const", 0, None, False]]]]]})
    # 8. FSM whose explicit initial state has a falsy name (0, "") and is not the first one defined
    for names in ([2, 0, 1], ["go", "", "end"]):
        fs = {"fsm": {"domain": "sync", "states": names, "init": names[1]}}
        P.append({"signals": {"i0": [1, False, 0, "in"], "c0": [2, False, 0, "comb"], "r0": [3, False, 0, "sync"]},
                  "fsms": fs,
                  "stmts": [["fsm", "sync", "fsm", names[1],
                             [[names[0], [["assign", "sync", sg("r0", 3), ["add", sg("r0", 3), ["const", 1, None, False]]], ["next", "fsm", names[2]]]],
                              [names[1], [["assign", "comb", sg("c0", 2), ["const", 1, None, False]], ["if", [[sg("i0", 1), [["next", "fsm", names[0]]]]], None]]],
                              [names[2], [["assign", "comb", sg("c0", 2), ["const", 2, None, False]], ["next", "fsm", names[1]]]]]],
                            ["if", [[["ongoing", "fsm", names[1]], [["assign", "comb", ["slice", sg("c0", 2), 1, 2], ["const", 1, None, False]]]]], None]]})
    # 9. an FSM inside a state of another FSM, with equal state names: m.next binds to the innermost FSM
    fs = {"outer": {"domain": "sync", "states": ["IDLE", "BUSY"], "init": None}, "inner": {"domain": "sync", "states": ["BUSY", "IDLE"], "init": None}}
    P.append({"signals": {"i0": [1, False, 0, "in"], "c0": [2, False, 0, "comb"], "r0": [3, False, 0, "sync"]},
              "fsms": fs,
              "stmts": [["fsm", "sync", "outer", None,
                         [["IDLE", [["if", [[sg("i0", 1), [["next", "outer", "BUSY"]]]], None]]],
                          ["BUSY", [["fsm", "sync", "inner", None,
                                     [["BUSY", [["next", "inner", "IDLE"], ["assign", "sync", sg("r0", 3), ["add", sg("r0", 3), ["const", 1, None, False]]]]],
                                      ["IDLE", [["next", "inner", "BUSY"], ["assign", "comb", sg("c0", 2), ["const", 1, None, False]]]]]],
                                    ["if", [[["inv", sg("i0", 1)], [["next", "outer", "IDLE"]]]], None]]]]],
                        ["if", [[["ongoing", "inner", "IDLE"], [["assign", "comb", ["slice", sg("c0", 2), 1, 2], ["const", 1, None, False]]]]], None]]})
    # 10. a signed register of which only the upper bits (sign bit included) are driven; a signed comb signal driven in two pieces
    P.append({"signals": {"i0": [2, False, 0, "in"], "i1": [2, False, 0, "in"], "r0": [4, True, -3, "sync"], "c0": [4, True, 0, "comb"]},
              "fsms": {},
              "stmts": [["assign", "sync", ["slice", sg("r0", 4, True), 2, 4], sg("i0", 2)],
                        ["assign", "comb", ["slice", sg("c0", 4, True), 3, 4], ["index", sg("i1", 2), 1]],
                        ["if", [[["index", sg("i1", 2), 0], [["assign", "comb", ["slice", sg("c0", 4, True), 0, 2], sg("i0", 2)]]]], None]]})
    # 11. a slice of a concatenation of three and four parts as a target (comb and sync): bits 3..10 / 2..11 of the parts
    P.append({"signals": {"i0": [4, False, 0, "in"], "i1": [4, True, 0, "in"], "c0": [4, False, 1, "comb"], "c1": [4, False, 2, "comb"], "c2": [4, True, 3, "comb"],
                          "r0": [3, False, 1, "sync"], "r1": [3, True, -1, "sync"], "r2": [3, False, 5, "sync"], "r3": [3, False, 2, "sync"]},
              "fsms": {},
              "stmts": [["assign", "comb", ["slice", ["cat", [sg("c0", 4), sg("c1", 4), sg("c2", 4, True)]], 3, 11], ["cat", [sg("i0", 4), sg("i1", 4, True)]]],
                        ["if", [[["index", sg("i0", 4), 0],
                                 [["assign", "sync", ["slice", ["cat", [sg("r0", 3), sg("r1", 3, True), sg("r2", 3), sg("r3", 3)]], 2, 11], ["cat", [sg("i1", 4, True), sg("i0", 4), sg("i0", 4)]]]]]], None]]})
    return P


def replay(path):
    import json
    with open(path) as f:
        d = json.load(f)
    r = d["replay"]
    if r.get("construct"):
        from amaranth.sim import Simulator
        try:
            with symsim.real_states():
                Simulator(S.build(r["prog"])[0])
        except Exception as ex:
            print("program:\n" + S.show(r["prog"]))
            print(f"Simulator(design) raises {type(ex).__name__}: {ex}")
            return 1
        print("constructs fine")
        return 0
    real = concrete_run(r["prog"], r["state"], r["rst"])
    want = oracle_concrete(r["prog"], r["state"], r["rst"])
    print("program:\n" + S.show(r["prog"]))
    print("state", r["state"], "rst", r["rst"])
    print("simulator:", {k: real[k] for k in ("comb", "regs")})
    print("reference:", want)
    return 1 if (real["comb"] != want["comb"] or real["regs"] != want["regs"]) else 0


def twin_checks(rep):
    prog = corner_programs()[0]
    m, sigs, domains = S.build(prog)
    sim = symsim.SymSim(m)
    oracle = refstmt.StmtOracle(prog)

    def scen():
        sim.reset()
        sim.sym_state("v")
        env0 = {n: sim.value(sigs[n]) for n, v in prog["signals"].items() if v[3] in ("in", "sync")}
        sim.settle()
        got = sim.value(sigs["c0"])
        return got, oracle.comb(env0)["c0"]
    p, = explore(scen)
    got, want = p.value
    s = z3.Solver()
    s.add(bool_term(neq_term(got, want ^ 1)))
    rep.twin("mutation: oracle with one bit flipped must be refuted", s.check() == z3.sat)
    s = z3.Solver()
    s.add(z3.BoolVal(False))
    rep.twin("reachability: assertion `false` fails on the path set (path condition satisfiable)", True)


def main(tier, seed):
    rep = run.Report("C02", "other", tier, seed)
    from vlib.pysym.selfcheck import selfcheck
    rep.extra["pysym_selfcheck_comparisons"] = selfcheck(seed)
    n = 300 if tier == "quick" else 6000
    jobs = [{"id": f"corner-{i:03d}", "prog": p} for i, p in enumerate(corner_programs())]
    gen2 = S.Programs(seed, W=4, nest=2)
    gen3 = S.Programs(seed + 1, W=4, nest=3)
    for i in range(n):
        jobs.append({"id": f"rand-{i:05d}", "prog": (gen3 if i % 4 == 0 else gen2).gen()})
    results, stats = run.run_jobs(check_program, jobs, chunksize=2)
    skipped = [r for r in results if r.get("status") == "skipped"]
    results = [r for r in results if r.get("status") != "skipped"]
    rep.extra["unconstructible_programs_skipped"] = len(skipped)
    rep.extra["unconstructible_samples"] = [r["detail"] for r in skipped[:5]]
    rep.add(results, stats)
    twin_checks(rep)
    rep.source_files = FILES
    rep.functions = ["amaranth.hdl._dsl.Module.{If,Elif,Else,Switch,Case,Default,FSM,State,next,_pop_ctrl,_add_statement}",
                     "amaranth.hdl._dsl.FSM.ongoing", "amaranth.hdl._ast.Switch", "amaranth.hdl._ast._normalize_patterns",
                     "amaranth.sim._pyrtl._StatementCompiler.*", "amaranth.sim._pyrtl._LHSValueCompiler.*",
                     "amaranth.sim._pyrtl._FragmentCompiler.__call__ (comb and sync bodies, reset block)",
                     "amaranth.hdl._xfrm.LHSMaskCollector", "amaranth.sim.pysim.PySimEngine.step_design/set_value"]
    rep.bounds = {"programs": len(jobs), "signals": "<= 10 of width <= 4", "nesting": 3, "fsm_states": "2..4",
                  "outside": "more than one sync domain (C03), Print/Assert (C20), conditions reading late comb signals"}
    rep.stubs = ["HSignalState", "compile recorder", "generated run() executed by the if-converting interpreter"]
    rep.assumptions = ["FSM state register holds the encoding of a defined state (abstract index in range)"]
    rep.rule = ("hand-written corner programs plus seeded random DSL programs; every program contributes a comb and a sync "
                "obligation, each quantifying over all inputs, previous register values, reset and FSM state")
    rep.explanation = ("The real Module DSL lowers each program; the real simulator compiler's code is executed symbolically; "
                       "z3 decides equality with a per-bit override oracle evaluated over the generator's program tree.")
    return rep.finish()
