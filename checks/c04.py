"""C04 - emitted RTLIL is behaviourally equivalent to the simulated design (translation validation).

Per generated design: the real back end emits RTLIL text; vlib.rtlil_smt reads it under the published
cell/process/memory semantics as z3 terms; vlib.symsim yields the simulator's terms for the SAME
elaborated Design; z3 decides, for all matched states and all inputs: equal initial contents, equal
combinational outputs and named registers, and equal next state after every event kind (each clock
edge alone, pairs together, asynchronous reset rise).  One inductive step covers all sequences."""
import itertools
import random
import warnings

import z3

from vlib import run, symsim, rtlil_smt
from vlib.run import PROVED, VIOLATION, INCONCLUSIVE, ERROR, UNREPRODUCED
from vlib.gen import expr as G
from vlib.gen import stmts as S
from vlib.pysym import (explore, bool_term, eval_in_model, is_sym, term_of, bounds, Inconclusive, Unsupported, timed_check)

from amaranth.hdl import Module, Signal, ClockDomain, Fragment, Elaboratable, DomainRenamer, Cat
from amaranth.hdl._ir import PortDirection
from amaranth.back import rtlil

FILES = ["amaranth/back/rtlil.py", "amaranth/hdl/_ir.py", "amaranth/hdl/_nir.py", "amaranth/sim/_pyrtl.py", "amaranth/lib/memory.py"]


# ---------------------------------------------------------------------------------------- designs
def design_expr(spec):
    from checks import c01
    prog = spec["prog"]
    m, sigs, e, o = c01.build_design(prog)
    if spec.get("child"):
        # compute the expression in a child module, use it in the parent
        top = Module()
        top.submodules.child = m
        o2 = Signal(o.shape(), name="o2")
        top.d.comb += o2.eq(o + 1 if len(o) else 0)
        return top, [s for s in sigs.values()], [o, o2], G.show(prog) + "  (computed in a child module)"
    return m, list(sigs.values()), [o], G.show(prog)


def split_program(prog, seed):
    """Distribute the top-level statements over a small module tree; statements driving a common signal stay together."""
    from vlib.refstmt import StmtOracle
    r = random.Random(seed)
    stmts = prog["stmts"]
    drives = []
    for st in stmts:
        o = StmtOracle({"signals": prog["signals"], "stmts": [st], "fsms": prog.get("fsms", {})})
        d = set(o.driven)
        if st[0] == "fsm":
            d.add("fsm:" + st[2])
        drives.append(d)
    # ongoing() readers must live where the FSM is: keep statements mentioning an fsm with it
    for i, st in enumerate(stmts):
        if "ongoing" in repr(st):
            drives[i].add("fsm:fsm")
    comp = list(range(len(stmts)))

    def find(x):
        while comp[x] != x:
            x = comp[x]
        return x
    for i in range(len(stmts)):
        for j in range(i):
            if drives[i] & drives[j]:
                comp[find(i)] = find(j)
    places = ["top", "top.c1", "top.c1.g", "top.c2"]
    where = {}
    for i in range(len(stmts)):
        root = find(i)
        if root not in where:
            where[root] = r.choice(places)
    return {p: [st for i, st in enumerate(stmts) if where[find(i)] == p] for p in places}


def design_stmts(spec):
    prog = spec["prog"]
    sigs = {}
    with warnings.catch_warnings():
        warnings.simplefilter("ignore")
        if not spec.get("split"):
            m, sigs, _ = S.build(prog, define_domain=False, sigs=sigs)
            text = S.show(prog)
        else:
            parts = split_program(prog, spec["split"])
            mods = {}
            for place, sts in parts.items():
                sub = dict(prog, stmts=sts)
                mods[place], _, _ = S.build(sub, define_domain=False, sigs=sigs)
            mods["top"].submodules.c1 = mods["top.c1"]
            mods["top.c1"].submodules.g = mods["top.c1.g"]
            mods["top"].submodules.c2 = mods["top.c2"]
            m = mods["top"]
            text = S.show(prog) + "\n# split: " + "; ".join(f"{p}: {len(s)} stmts" for p, s in parts.items())
    top = Module()
    cd = ClockDomain("sync", async_reset=bool(spec.get("async_reset")), clk_edge=spec.get("clk_edge", "pos"))
    top.domains.sync = cd
    top.submodules.m = m
    ins = [cd.clk, cd.rst] + [sigs[n] for n, v in prog["signals"].items() if v[3] == "in"]
    outs = [sigs[n] for n, v in prog["signals"].items() if v[3] != "in"]
    for name in prog.get("fsms", {}):
        outs.append(sigs["fsm:" + name].state)
    return top, ins, outs, text + f"\n# domain: async_reset={bool(spec.get('async_reset'))} clk_edge={spec.get('clk_edge', 'pos')}"


def design_memory(spec):
    from checks import c11
    cfg = dict(spec["cfg"])
    from amaranth.hdl import Shape
    from amaranth.lib.memory import Memory
    from amaranth.lib import data
    m = Module()
    doms = {}
    for p in cfg["wports"] + cfg["rports"]:
        d = p["domain"]
        if d != "comb" and d not in doms:
            doms[d] = ClockDomain(d, clk_edge=(cfg.get("edge") or {}).get(d, "pos"), async_reset=(cfg.get("reset") or {}).get(d) == "async")
            m.domains += doms[d]
    shape = Shape(*cfg["shape"])
    ins, outs = [], []
    aux_dom = next((p["domain"] for p in cfg["wports"] if p["domain"] != "comb"), None)
    if cfg.get("aux") and aux_dom is not None:
        # a second memory in the SAME module, declared first, with a write port and a read port transparent for it
        aux = Memory(shape=3, depth=cfg["depth"] + 1, init=[5, 2])
        m.submodules.aux = aux
        awp = aux.write_port(domain=aux_dom)
        arp = aux.read_port(domain=aux_dom, transparent_for=(awp,))
        for nm, sg in (("aux_w_addr", awp.addr), ("aux_w_data", awp.data), ("aux_w_en", awp.en), ("aux_r_addr", arp.addr), ("aux_r_en", arp.en)):
            sg.name = nm
            ins.append(sg)
        arp.data.name = "aux_r_data"
        outs.append(arp.data)
    mem = Memory(shape=shape, depth=cfg["depth"], init=cfg["init"])
    m.submodules.mem = mem
    wps = [mem.write_port(domain=p["domain"], granularity=p["gran"]) for p in cfg["wports"]]
    rps = [mem.read_port(domain=p["domain"], transparent_for=tuple(wps[i] for i in p["transparent"])) for p in cfg["rports"]]
    for d in doms.values():
        ins += [d.clk, d.rst]
    for i, wp in enumerate(wps):
        for nm in ("addr", "data", "en"):
            s = getattr(wp, nm)
            s.name = f"w{i}_{nm}"
            ins.append(s)
    for i, rp in enumerate(rps):
        rp.addr.name = f"r{i}_addr"
        ins.append(rp.addr)
        if cfg["rports"][i]["domain"] != "comb":
            rp.en.name = f"r{i}_en"
            ins.append(rp.en)
        rp.data.name = f"r{i}_data"
        outs.append(rp.data)
    return m, ins, outs, c11.show(cfg) + "  (domains with reset)" + ("; a second memory (3 bits wide, one row more) with a write port and a transparent read port in the same module" if cfg.get("aux") and aux_dom is not None else "")


def design_multi(spec):
    from checks import c03
    cores = [c03.Core(s, with_mem=(i == 0)) for i, s in enumerate(spec["seeds"])]
    top = Module()
    ins, outs = [], []
    texts = []
    for i, (c, k) in enumerate(zip(cores, spec["kinds"])):
        for n, sg in list(c.sigs.items()):
            if not n.startswith("fsm:"):
                sg.name = f"d{i}_{sg.name}"
        for sg in (c.child_reg, c.child_rl, c.cin):
            sg.name = f"d{i}_{sg.name}"
        if c.with_mem:
            for sg in (c.mw_addr, c.mw_data, c.mw_en, c.mr_addr, c.mr_en, c.mr_data):
                sg.name = f"d{i}_{sg.name}"
        cd = ClockDomain(f"d{i}", **c03.DOMAIN_KINDS[k])
        top.domains += cd
        ins.append(cd.clk)
        if cd.rst is not None:
            ins.append(cd.rst)
        top.submodules[f"core{i}"] = DomainRenamer({"sync": f"d{i}"})(c.elaboratable())
        for n, v in c.prog["signals"].items():
            (ins if v[3] == "in" else outs).append(c.sigs[n])
        ins.append(c.cin)
        outs += [c.child_reg, c.child_rl]
        if c.with_mem:
            ins += [c.mw_addr, c.mw_data, c.mw_en, c.mr_addr, c.mr_en]
            outs.append(c.mr_data)
        texts.append(f"-- d{i} {c03.DOMAIN_KINDS[k]}:\n{c.text}")
    return top, ins, outs, "\n".join(texts)


def design_split(spec):
    """One signal whose bits are driven from different places: sync + comb, two domains, two modules."""
    r = random.Random(spec["seed"])
    w = r.randint(3, 8)
    k = r.randint(1, w - 1)
    init = r.randint(1, (1 << w) - 1)
    signed_ = r.random() < 0.3
    from amaranth.hdl import Shape
    if signed_ and init >= (1 << (w - 1)):
        init -= 1 << w
    o = Signal(Shape(w, signed_), name="o", init=init)
    i = Signal(w, name="i")
    top = Module()
    cd = ClockDomain("sync", async_reset=spec.get("async", False))
    top.domains += cd
    ins = [cd.clk, cd.rst, i]
    kind = spec["kind"]
    if kind == "sync+comb":
        top.d.sync += o[:k].eq(i[:k] + 1)
        top.d.comb += o[k:].eq(~i[k:])
    elif kind == "comb+sync":
        top.d.comb += o[:k].eq(i[:k] ^ 1)
        top.d.sync += o[k:].eq(o[k:] + i[k:])
    elif kind == "two-domains":
        other = ClockDomain("other", clk_edge=spec.get("edge", "pos"))
        top.domains += other
        ins += [other.clk, other.rst]
        top.d.sync += o[:k].eq(o[:k] + i[:k])
        top.d.other += o[k:].eq(i[k:])
    elif kind == "part+sync":
        # a part select with a narrow offset drives only the bits it can reach; the others belong to a clocked driver elsewhere
        sel = Signal(1, name="sel")
        ins.append(sel)
        pw = min(2, w - 2)
        child = Module()
        child.d.comb += o.bit_select(sel, pw).eq(i[:pw])
        top.submodules.child = child
        top.d.sync += o[pw + 1:].eq(o[pw + 1:] + i[pw + 1:])
        k = pw + 1
    else:
        child = Module()
        child.d.sync += o[:k].eq(i[:k])
        top.submodules.child = child
        top.d.sync += o[k:].eq(o[k:] ^ i[k:])
    return top, ins, [o], f"split register o: {'signed' if signed_ else 'unsigned'}({w}) init={init}, bits [:{k}] / [{k}:] driven as {kind}" + \
        (" (async reset)" if spec.get("async") else "")


def design_layout(spec):
    """lib.data views: reads of every leaf, a dynamically indexed element, assignments through a field (see checks/c15.py)."""
    from checks import c15
    lay = c15._tup(spec["layout"])
    D = c15.LayoutDesign(lay, spec.get("windex", 0), reset_less=False)
    return D.m, [D.cd.clk, D.cd.rst] + D.inputs(), D.outputs(), c15.show(lay) + f"  (view design, windex={spec.get('windex', 0)})"


BUILDERS = {"expr": design_expr, "stmts": design_stmts, "memory": design_memory, "multi": design_multi, "split": design_split,
            "layout": design_layout}


# ---------------------------------------------------------------------------------------- matching
class Matched:
    """The simulator and the RTLIL of one elaborated Design, with state/inputs put in correspondence."""
    def __init__(self, top, ins, outs):
        with warnings.catch_warnings():
            warnings.simplefilter("ignore")
            self.design = Fragment.get(top, None).prepare(ports=_ports(ins, outs))
            self.text, self.name_map = rtlil.convert_fragment(self.design, ports=_ports(ins, outs))
            self.sim = symsim.SymSim(self.design)
        self.R = rtlil_smt.Design(self.text)
        self.ins, self.outs = ins, outs
        # top-level wires by signal: ports are named after the signals
        self.by_name = {}
        for s in self.sim.signals():
            if s.name:
                self.by_name.setdefault(s.name, []).append(s)
        self.alias = self._alias_classes()
        # Which bits are registers is read off the netlist (the Q bits of its flip-flops), not off the masks the simulator
        # computes for its own processes: a bit the simulator wrongly treats as combinationally driven would otherwise be
        # pinned to its initial value and never explored.
        try:
            for ci in self.R.state_cells()["dff"]:
                name, kind, params, ports = self.R.cells[ci]
                for (w, bq) in self.R._lhs_bits(ports["\\Q"]):
                    sig, sb = self.signal_of_wire_bit(w, bq)
                    if sig is None:
                        continue
                    slot = self.sim.slot(sig)
                    self.sim.comb_mask[slot] = self.sim.comb_mask.get(slot, 0) & ~(1 << sb)
                    self.sim.sync_mask[slot] = self.sim.sync_mask.get(slot, 0) | (1 << sb)
        except (rtlil_smt.Unsupported, KeyError):
            pass

    def _alias_classes(self):
        """Union-find over wire bits joined by connects (hierarchy ports, aliases)."""
        R = self.R
        parent = {}

        def find(x):
            parent.setdefault(x, x)
            while parent[x] != x:
                parent[x] = parent[parent[x]]
                x = parent[x]
            return x
        for (name, kind, params, ports) in R.cells:
            if kind == "$connect":
                lb = R._lhs_bits(ports["L"])
                for j, b in enumerate(lb):
                    rs = rtlil_smt._spec_bit_spec(R, ports["R"], j)
                    if rs[0] == "wire":
                        parent[find(b)] = find((rs[1], rs[2]))
        classes = {}
        for x in list(parent):
            classes.setdefault(find(x), set()).add(x)
        self._find = find
        return classes

    def signal_of_wire_bit(self, wire, bit):
        """The simulator signal (and bit) a wire bit carries, found through its alias class and wire names."""
        cls = self.alias.get(self._find((wire, bit)), {(wire, bit)})
        # the wire's own name first; aliases (hierarchy ports, connects) only as a fallback
        for (w, b) in [(wire, bit)] + sorted(cls):
            nm = w.split(".")[-1]
            if nm.startswith("\\"):
                cands = self.by_name.get(nm[1:], [])
                cands = [s for s in cands if len(s) == self.R.wires[w]]
                if len(cands) == 1:
                    return cands[0], b
        return None, None

    def sim_bv(self, sig):
        """Simulator value of a signal as a bit-vector of its width."""
        v = self.sim.value(sig)
        w = len(sig)
        if w == 0:
            return None
        return z3.Extract(w - 1, 0, term_of(v, w + 1))

    def bits_from_sim(self, spec):
        """Term for an RTLIL spec built from the simulator's current values (state correspondence)."""
        R = self.R
        parts = []
        unmapped = []
        for (w, b) in R._lhs_bits(spec):
            sig, sb = self.signal_of_wire_bit(w, b)
            if sig is None:
                unmapped.append((w, b))
                parts.append((R.fresh(1, "unmapped"), 1))
            else:
                parts.append((z3.Extract(sb, sb, self.sim_bv(sig)), 1))
        t = rtlil_smt._merge_bits(parts) if parts else None
        return t, unmapped

    def rtlil_state_from_sim(self):
        R = self.R
        st = {"dff": {}, "mem": {}, "memrd": {}}
        unmapped = []
        sc = R.state_cells()
        for ci in sc["dff"]:
            name, kind, params, ports = R.cells[ci]
            t, um = self.bits_from_sim(ports["\\Q"])
            st["dff"][name] = t
            unmapped += um
        for ci in sc["memrd"]:
            name, kind, params, ports = R.cells[ci]
            t, um = self.bits_from_sim(ports["\\DATA"])
            st["memrd"][name] = t
            unmapped += um
        mems = self.sim.memories()
        for mname, (width, size) in R.memories.items():
            cands = [m for m in mems if m.depth == size]
            if len(R.memories) == 1 and len(mems) == 1:
                md = mems[0]
            else:
                nm = mname.split(".")[-1][1:]
                cands = [m for m in mems if getattr(m, "name", None) == nm] or cands
                if len(cands) != 1:
                    raise rtlil_smt.Unsupported(f"cannot match memory {mname}")
                md = cands[0]
            rows = self.sim.mem_slot(md).data
            st["mem"][mname] = [z3.Extract(width - 1, 0, term_of(v, width + 1)) if width else None for v in rows]
            self.mem_of = getattr(self, "mem_of", {})
            self.mem_of[mname] = md
        return st, unmapped

    def rtlil_inputs_from_sim(self):
        ins = {}
        for w in self.R.inputs:
            sig, _ = self.signal_of_wire_bit(w, 0) if self.R.wires[w] else (None, None)
            if self.R.wires[w] == 0:
                continue
            if sig is None:
                # an input port the design never reads has no slot in the simulator: any value
                ins[w] = z3.BitVec(f"rtlil_unused_{w}", self.R.wires[w])
                continue
            ins[w] = self.sim_bv(sig)
        return ins


def pin_undriven(M):
    """Bits that nothing drives and that are not top-level inputs hold their initial value for ever (no
    input or clock sequence can change them): they are not part of the symbolic state."""
    from vlib.pysym import sym_ite
    sim = M.sim
    for s in sim.state.slots:
        if not hasattr(s, "signal"):
            continue
        sig = s.signal
        if any(sig is x for x in M.ins) or sim.is_clock(sig) or any(sig is r for r in sim.reset_signals):
            continue
        w = len(sig)
        full = (1 << w) - 1
        driven = (sim.comb_mask.get(s, 0) | sim.sync_mask.get(s, 0)) & full
        driven &= ~_stuck_mask(M, s)
        if driven == full or w == 0:
            continue
        v = s.curr
        u = ((v & full) & driven) | (sig.init & full & ~driven)
        if sig.shape().signed:
            u = sym_ite((u & (1 << (w - 1))) != 0, u | (-1 << w), u)
        s.curr = s.next = u


def _stuck_mask(M, slot):
    for (s2, m2) in getattr(M, "stuck_list", []):
        if s2 is slot:
            return m2
    return 0


def inductive_init_bits(M):
    """Bits (of signals some clocked process writes) for which `bit == init` is an inductive invariant: no process, run
    from an arbitrary state in which the bit has its initial value, can change it.  Returns a truthy value if any."""
    from amaranth.sim._pyrtl import PyRTLProcess
    sim = M.sim
    procs = [p for p in sim.processes if isinstance(p, PyRTLProcess) and not p.is_comb]
    cand = []
    for s in sim.state.slots:
        if not hasattr(s, "signal"):
            continue
        sig = s.signal
        if any(sig is x for x in M.ins) or sim.is_clock(sig) or any(sig is r for r in sim.reset_signals) or len(sig) == 0:
            continue
        full = (1 << len(sig)) - 1
        m = sim.sync_mask.get(s, 0) & ~sim.comb_mask.get(s, 0) & full
        if m:
            cand.append([s, m])
    if not cand or not procs:
        M.stuck_list = []
        return {}
    sig_slots = [s for s in sim.state.slots if hasattr(s, "signal")]

    def scen():
        sim.reset()
        sim.sym_state("w")
        pre = [s.curr for s, _ in cand]
        res = []
        for p in procs:
            for s in sig_slots:
                s.next = s.curr
            p.run()
            res.append([s.next for s, _ in cand])
        for s in sig_slots:
            s.next = s.curr
        return pre, res
    paths = explore(scen, max_paths=64)
    for path in paths:
        if path.exc is not None:
            raise Unsupported(f"invariant run: {path.exc}")
        pre, res = path.value
        for k, (s, m) in enumerate(cand):
            w = len(s.signal)
            init = s.signal.init & ((1 << w) - 1)
            a = z3.Extract(w - 1, 0, term_of(pre[k], w + 1)) if is_sym(pre[k]) else z3.BitVecVal(pre[k] & ((1 << w) - 1), w)
            for nxts in res:
                n = nxts[k]
                b = z3.Extract(w - 1, 0, term_of(n, w + 1)) if is_sym(n) else z3.BitVecVal(n & ((1 << w) - 1), w)
                for bit in range(w):
                    if not (cand[k][1] >> bit) & 1:
                        continue
                    iv = z3.BitVecVal((init >> bit) & 1, 1)
                    so = z3.Solver()
                    for c in path.pc:
                        so.add(c)
                    so.add(z3.Extract(bit, bit, a) == iv, z3.Extract(bit, bit, b) != iv)
                    if timed_check(so) != z3.unsat:
                        cand[k][1] &= ~(1 << bit)
    M.stuck_list = [(s, m) for s, m in cand if m]
    return {i: m for i, (s, m) in enumerate(M.stuck_list)}


def _ports(ins, outs):
    p = {}
    for s in ins:
        p[s.name] = (s, PortDirection.Input)
    for s in outs:
        p[s.name] = (s, PortDirection.Output)
    return p


# ---------------------------------------------------------------------------------------- the check
def domain_events(M):
    """Event kinds: (description, [(signal, old, new)])."""
    sim = M.sim
    clks = list(sim.clock_signals)
    doms = []

    def walk(frag):
        for d in frag.domains.values():
            if d is not None and not any(d is x for x in doms):
                doms.append(d)
        for sub, *_ in frag.subfragments:
            walk(sub)
    walk(sim.design.fragment)
    evs = []
    for d in doms:
        pol = 1 if d.clk_edge == "pos" else 0
        evs.append((f"{d.name} active edge", [(d.clk, 1 - pol, pol)], d))
        evs.append((f"{d.name} inactive edge", [(d.clk, pol, 1 - pol)], d))
        if d.async_reset and d.rst is not None:
            evs.append((f"{d.name} async reset rise", [(d.rst, 0, 1)], d))
    for a, b in itertools.combinations(doms, 2):
        pa, pb = (1 if a.clk_edge == "pos" else 0), (1 if b.clk_edge == "pos" else 0)
        evs.append((f"{a.name}+{b.name} active edges together", [(a.clk, 1 - pa, pa), (b.clk, 1 - pb, pb)], None))
    return evs, doms


def check_design(job):
    spec = job["spec"]
    base = {"id": job["id"], "nontrivial": True, "program": ""}
    try:
        with warnings.catch_warnings():
            warnings.simplefilter("ignore")
            top, ins, outs, text = BUILDERS[spec["family"]](spec)
    except (SyntaxError, TypeError, ValueError, IndexError, NameError) as ex:
        return [dict(base, kind="unconstructible", status="skipped", detail=f"{type(ex).__name__}: {ex}")]
    base["program"] = f"[{spec['family']}] {text}"
    try:
        M = Matched(top, ins, outs)
    except rtlil_smt.RtlilError as ex:
        return [dict(base, kind="rtlil-interpretable", status=VIOLATION, detail=f"RTLIL not interpretable: {ex}",
                     signature={"kind": "not-interpretable", "what": str(ex).split(':')[0][:60]}, replay={"spec": spec})]
    except rtlil_smt.Unsupported as ex:
        return [dict(base, kind="unsupported", status="skipped", detail=f"Unsupported: {ex}")]
    except Exception as ex:
        if (type(ex).__module__ or "").startswith("amaranth"):
            return [dict(base, kind="unconstructible", status="skipped", detail=f"rejected by the language: {type(ex).__name__}: {ex}")]
        # a design the language accepts must convert and simulate: confirm the crash on the genuine code paths
        try:
            with warnings.catch_warnings():
                warnings.simplefilter("ignore")
                t2, i2, o2, _ = BUILDERS[spec["family"]](spec)
                d2 = Fragment.get(t2, None).prepare(ports=_ports(i2, o2))
                rtlil.convert_fragment(d2, ports=_ports(i2, o2))
                from amaranth.sim import Simulator
                with symsim.real_states():
                    t3, _, _, _ = BUILDERS[spec["family"]](spec)
                    Simulator(t3)
        except Exception as ex2:
            if (type(ex2).__module__ or "").startswith("amaranth"):
                return [dict(base, kind="unconstructible", status="skipped", detail=f"rejected by the language: {type(ex2).__name__}: {ex2}")]
            return [dict(base, kind="construction", status=VIOLATION, detail=f"{base['program'][:300]}: converting / simulating the design raises {type(ex2).__name__}: {str(ex2)[:200]}",
                         signature={"kind": "construction", "exception": type(ex2).__name__}, replay={"spec": spec})]
        return [dict(base, kind="construction", status=ERROR, detail=f"the harness raised {type(ex).__name__}: {ex}, the genuine conversion and Simulator() do not")]
    sim, R = M.sim, M.R
    out = []
    # --- initial contents (concrete)
    r0 = dict(base, kind="initial state", assertion="register init attributes and memory initial rows equal the simulator's initial values",
              status=PROVED, detail="", nontrivial=False)
    sim.reset()
    sim.settle()
    settled0 = {}
    bad = []
    for ci in R.state_cells()["dff"]:
        name, kind, params, ports = R.cells[ci]
        for j, (w, b) in enumerate(R._lhs_bits(ports["\\Q"])):
            sig, sb = M.signal_of_wire_bit(w, b)
            if sig is None:
                continue
            info = R.wire_info[w]
            ia = info.attrs.get("\\init")
            if ia is None or ia[0] != "const":
                # a flip-flop output without an init attribute powers up undefined; the simulator starts at init
                bad.append(f"{w}[{b}] (register bit of {sig.name}) has no \\init attribute")
                continue
            iv = (int(ia[2][::-1] or "0", 2) >> b) & 1
            # (the net of a register may be named after a combinational signal that merely aliases it: what counts is the
            # value the signal has in the simulator at time zero, which for a register is its init)
            v0 = settled0.get(id(sig))
            if v0 is None:
                v0 = sim.value(sig)
                v0 = sig.init if is_sym(v0) else v0
                settled0[id(sig)] = v0
            if ((v0 >> sb) & 1) != iv:
                bad.append(f"{w}[{b}] init {iv} vs signal {sig.name} initial value bit {(v0 >> sb) & 1}")
    try:
        st0, _ = M.rtlil_state_from_sim()
        for mname in R.memories:
            md = M.mem_of[mname]
            want = [v & ((1 << R.memories[mname][0]) - 1) for v in md._init._raw]
            if R.initial_memory(mname) != want:
                bad.append(f"memory {mname} initial rows {R.initial_memory(mname)} vs {want}")
    except rtlil_smt.Unsupported as ex:
        return [dict(base, kind="unsupported", status="skipped", detail=f"Unsupported: {ex}")]
    if bad:
        r0.update(status=VIOLATION, detail="; ".join(bad[:5]), signature={"kind": "initial"}, replay={"spec": spec})
    out.append(r0)
    # --- comb + step per event
    evs, doms = domain_events(M)
    rst_sigs = [d.rst for d in doms if d.rst is not None]
    def run_event(desc, changes, dom):
        res = dict(base, kind=desc, status=PROVED, detail="", cex=None,
                   assertion="every top-level output and every named register / memory row / read-port register agrees after the event",
                   symbolic="all registers, memory rows, inputs and synchronous resets")

        def scen():
            sim.reset()
            clocks = [(c, 0) for c in sim.clock_signals]
            for (sg, old, new) in changes:
                if sim.is_clock(sg):
                    clocks = [(c, (old if c is sg else lv)) for c, lv in clocks]
            # levels of clocks not taking part: 0
            sim.sym_state("v", clocks=clocks)
            pin_undriven(M)
            for (sg, old, new) in changes:
                if not sim.is_clock(sg):
                    sim.poke(sg, old)
            for d in doms:
                if d.async_reset and d.rst is not None and not any(sg is d.rst for sg, _, _ in changes):
                    sim.poke(d.rst, 0)
            sim.settle()
            pre_state, unmapped = M.rtlil_state_from_sim()
            rin = M.rtlil_inputs_from_sim()
            ev = R.evaluator(rin, pre_state)
            pairs = []
            # combinational agreement on outputs
            for w in R.outputs:
                if R.wires[w] == 0:
                    continue
                sig, _ = M.signal_of_wire_bit(w, 0)
                if sig is None:
                    raise rtlil_smt.RtlilError(f"top-level output {w} does not correspond to a signal")
                pairs.append((f"comb {w}", ev.wire(w), M.sim_bv(sig)))
            if changes:
                edges = {}
                for (sg, old, new) in changes:
                    wn = "\\" + sg.name
                    if wn not in R.wires:
                        raise rtlil_smt.RtlilError(f"clock/reset {sg.name} is not a wire of the top module")
                    edges[wn] = (old, new)
                nxt = ev.next_state(edges)
                sim.set(Cat(*[sg for sg, _, _ in changes]), sum(new << i for i, (_, _, new) in enumerate(changes)))
                sim.engine.step_design()
                post, _ = M.rtlil_state_from_sim()
                for k in ("dff", "memrd"):
                    for name, t in nxt[k].items():
                        if t is not None:
                            pairs.append((f"{k} {name}", t, post[k][name]))
                for mname, rows in nxt["mem"].items():
                    for i, t in enumerate(rows):
                        if t is not None:
                            pairs.append((f"mem {mname}[{i}]", t, post["mem"][mname][i]))
                # registers and memory rows are state: when only data inputs change afterwards (no clock or reset event), the
                # combinational logic is re-evaluated and every register must keep the value it just took
                from vlib.pysym import fresh as _fresh
                for sg_ in M.ins:
                    if sim.is_clock(sg_) or any(sg_ is r_ for r_ in sim.reset_signals) or len(sg_) == 0 or any(sg_ is c_[0] for c_ in changes):
                        continue
                    sim.set(sg_, _fresh(f"in2_{sg_.name}", len(sg_), sg_.shape().signed))
                sim.engine.step_design()
                post2, _ = M.rtlil_state_from_sim()
                for k in ("dff", "memrd"):
                    for name, t in post[k].items():
                        if t is not None and post2[k].get(name) is not None:
                            pairs.append((f"{k} {name} (must hold while only data inputs change)", t, post2[k][name]))
            excluded = list(R.excluded)
            R.excluded.clear()
            return pairs, unmapped, excluded
        try:
            paths = explore(scen, max_paths=32)
        except (Inconclusive, Unsupported) as e:
            return dict(res, status=INCONCLUSIVE, detail=f"{type(e).__name__}: {e}")
        except rtlil_smt.Unsupported as e:
            return dict(res, kind="unsupported", status="skipped", detail=str(e))
        for p in paths:
            if p.exc is not None:
                if isinstance(p.exc, rtlil_smt.RtlilError):
                    res.update(status=VIOLATION, detail=f"RTLIL not interpretable: {p.exc}", signature={"kind": "not-interpretable"},
                               replay={"spec": spec})
                elif isinstance(p.exc, rtlil_smt.Unsupported):
                    res.update(kind="unsupported", status="skipped", detail=str(p.exc))
                else:
                    res.update(status=ERROR, detail=f"exception: {type(p.exc).__name__}: {p.exc}")
                break
            pairs, unmapped, excluded = p.value
            if unmapped:
                res.update(status=INCONCLUSIVE, detail=f"state bits without a named counterpart: {unmapped[:4]}")
                break
            diffs, names = [], []
            for nm, a, b in pairs:
                if a is None or b is None:
                    continue
                if a.size() != b.size():
                    res.update(status=VIOLATION, detail=f"{nm}: RTLIL width {a.size()} vs simulator {b.size()}", signature={"kind": "width"},
                               replay={"spec": spec})
                    break
                if not a.eq(b):
                    diffs.append(a != b)
                    names.append(nm)
            if res["status"] != PROVED or not diffs:
                continue
            s = z3.Solver()
            s.set("timeout", 180000)
            for c in p.pc:
                s.add(c)
            for e in excluded:
                s.add(z3.Not(e))
            s.add(z3.Or(*diffs))
            r = timed_check(s)
            if r == z3.unknown:
                res.update(status=INCONCLUSIVE, detail="solver unknown")
                break
            if r == z3.sat:
                mdl = s.model()
                badn = [n for n, d in zip(names, diffs) if z3.is_true(mdl.eval(d, model_completion=True))]
                vals = {str(d): mdl[d].as_long() for d in mdl.decls() if not str(d).startswith("rtlil_")}
                rep = concrete_compare(spec, vals, desc, changes)
                if rep["differs"]:
                    what = sorted({n.split(" ")[0] for n in rep["differs"]})
                    res.update(status=VIOLATION, cex={"model": vals}, detail=f"event '{desc}': simulator and RTLIL differ on {rep['differs'][:6]} "
                               f"with {vals}", signature={"kind": "mismatch", "event": desc.split(' ', 1)[-1] if changes else "comb", "what": ",".join(what)},
                               replay={"spec": spec, "model": vals, "event": desc})
                else:
                    res.update(status=UNREPRODUCED, detail=f"event '{desc}': symbolic difference on {badn[:5]} did not reproduce concretely")
                break
        return res
    for (desc, changes, dom) in [("combinational", [], None)] + evs:
        res = run_event(desc, changes, dom)
        if res.get("status") in (VIOLATION, UNREPRODUCED) and (res.get("signature") or {"kind": "mismatch"}).get("kind") == "mismatch" and not getattr(M, "stuck_done", False):
            # the symbolic pre-state may be unreachable: strengthen it with the inductive invariant "bits no process can
            # move away from their initial value stay there", then decide the event again
            M.stuck_done = True
            try:
                M.stuck = inductive_init_bits(M)
            except (Inconclusive, Unsupported):
                M.stuck = {}
            if M.stuck:
                res = run_event(desc, changes, dom)
        out.append(res)
    return [x for x in out if x.get("status") != "skipped" or True]


def concrete_compare(spec, vals, desc, changes_desc):
    """Replay: the real simulator with plain ints, and the RTLIL evaluator on constants."""
    from amaranth.sim import Simulator
    with warnings.catch_warnings():
        warnings.simplefilter("ignore")
        top, ins, outs, text = BUILDERS[spec["family"]](spec)
        M = Matched(top, ins, outs)
    R = M.R
    evs, doms = domain_events(M)
    changes = []
    for d, ch, _ in [("combinational", [], None)] + evs:
        if d == desc:
            changes = ch
    sigs = {s.name: s for s in M.sim.signals() if s.name}
    real = {}
    with symsim.real_states():
        sim = Simulator(top)

        def val(s):
            for k, v in vals.items():
                if k.startswith("v") and k.split("_", 1)[-1] == s.name:
                    w = len(s)
                    v &= (1 << w) - 1
                    if s.shape().signed and v >> (w - 1):
                        v -= 1 << w
                    return v
            return None

        async def tb(ctx):
            state_sigs = [s.signal for s in sim._engine._state.slots if hasattr(s, "signal")]
            for s in state_sigs:
                if not len(s):
                    continue
                v = val(s)
                if v is None:
                    continue
                try:
                    ctx.set(s, v)
                except Exception:
                    pass
            for slot in sim._engine._state.slots:
                if hasattr(slot, "memory"):
                    for i in range(slot.memory.depth):
                        for k, v in vals.items():
                            if k.endswith(f"_mem{i}"):
                                ctx.set(slot.memory[i], v)
            for c in M.sim.clock_signals:
                ctx.set(c, 0)
            for (sg, old, new) in changes:
                ctx.set(sg, old)
            for d in doms:
                if d.async_reset and d.rst is not None and not any(sg is d.rst for sg, _, _ in changes):
                    ctx.set(d.rst, 0)
            real["pre"] = {s.name: ctx.get(s) for s in state_sigs if len(s)}
            real["pre_mem"] = {id(slot.memory): [ctx.get(slot.memory[i]) for i in range(slot.memory.depth)]
                               for slot in sim._engine._state.slots if hasattr(slot, "memory")}
            if changes:
                ctx.set(Cat(*[sg for sg, _, _ in changes]), sum(new << i for i, (_, _, new) in enumerate(changes)))
            real["post"] = {s.name: ctx.get(s) for s in state_sigs if len(s)}
            real["post_mem"] = {id(slot.memory): [ctx.get(slot.memory[i]) for i in range(slot.memory.depth)]
                                for slot in sim._engine._state.slots if hasattr(slot, "memory")}
            if changes:
                # second phase: only data inputs change (values "in2_<name>" of the model); registers must hold
                for sg_ in ins:
                    for k, v in vals.items():
                        if k == f"in2_{sg_.name}" and len(sg_):
                            w_ = len(sg_)
                            v &= (1 << w_) - 1
                            if sg_.shape().signed and v >> (w_ - 1):
                                v -= 1 << w_
                            ctx.set(sg_, v)
                real["post2"] = {s.name: ctx.get(s) for s in state_sigs if len(s)}
        sim.add_testbench(tb)
        sim.run()

    def bvc(name, which):
        s = sigs[name]
        return z3.BitVecVal(real[which][name] & ((1 << len(s)) - 1), len(s)) if len(s) else None

    def from_real(spec_, which):
        parts = []
        for (w, b) in R._lhs_bits(spec_):
            sig, sb = M.signal_of_wire_bit(w, b)
            parts.append((z3.BitVecVal((real[which][sig.name] >> sb) & 1, 1), 1))
        return z3.simplify(rtlil_smt._merge_bits(parts)) if parts else None

    def state(which):
        st = {"dff": {}, "mem": {}, "memrd": {}}
        sc = R.state_cells()
        for ci in sc["dff"]:
            name, kind, params, ports = R.cells[ci]
            st["dff"][name] = from_real(ports["\\Q"], which)
        for ci in sc["memrd"]:
            name, kind, params, ports = R.cells[ci]
            st["memrd"][name] = from_real(ports["\\DATA"], which)
        M.sim.reset()
        M.rtlil_state_from_sim() if not hasattr(M, "mem_of") else None
        for mname, (width, size) in R.memories.items():
            md = M.mem_of[mname]
            rows = real[which + "_mem"][id(md)]
            st["mem"][mname] = [z3.BitVecVal(v & ((1 << width) - 1), width) if width else None for v in rows]
        return st
    rin = {}
    for w in R.inputs:
        if R.wires[w] == 0:
            continue
        sig, _ = M.signal_of_wire_bit(w, 0)
        rin[w] = bvc(sig.name, "pre") if sig is not None and sig.name in real["pre"] else z3.BitVecVal(0, R.wires[w])
    ev = R.evaluator(rin, state("pre"))
    differs = []
    if not changes:
        for w in R.outputs:
            if R.wires[w] == 0:
                continue
            sig, _ = M.signal_of_wire_bit(w, 0)
            got = z3.simplify(ev.wire(w))
            want = bvc(sig.name, "pre")
            if not z3.is_bv_value(got) or got.as_long() != want.as_long():
                differs.append(f"comb {w}: rtlil {got} simulator {want}")
    else:
        edges = {"\\" + sg.name: (old, new) for (sg, old, new) in changes}
        nxt = ev.next_state(edges)
        post = state("post")
        for k in ("dff", "memrd"):
            for name, t in nxt[k].items():
                if t is None:
                    continue
                got = z3.simplify(t)
                want = post[k][name]
                if not z3.is_bv_value(got) or got.as_long() != want.as_long():
                    differs.append(f"{k} {name} ({_q_name(R, name)}): rtlil {got} simulator {want}")
        for mname, rows in nxt["mem"].items():
            for i, t in enumerate(rows):
                if t is None:
                    continue
                got = z3.simplify(t)
                want = post["mem"][mname][i]
                if not z3.is_bv_value(got) or got.as_long() != want.as_long():
                    differs.append(f"mem {mname}[{i}]: rtlil {got} simulator {want}")
        if "post2" in real:
            for k in ("dff", "memrd"):
                sc = R.state_cells()
                for ci in sc[k]:
                    name, kind, params, ports = R.cells[ci]
                    a_, b_ = from_real(ports["\\Q" if k == "dff" else "\\DATA"], "post"), from_real(ports["\\Q" if k == "dff" else "\\DATA"], "post2")
                    if a_ is not None and b_ is not None and z3.is_bv_value(a_) and z3.is_bv_value(b_) and a_.as_long() != b_.as_long():
                        differs.append(f"{k} {name} ({_q_name(R, name)}): simulator {a_} after the event, {b_} after data inputs changed (no clock event)")
    return {"differs": differs, "pre": real.get("pre"), "post": real.get("post")}


def _q_name(R, cellname):
    for (name, kind, params, ports) in R.cells:
        if name == cellname:
            spec = ports.get("\\Q") or ports.get("\\DATA")
            bits = R._lhs_bits(spec)
            return bits[0][0] if bits else "?"
    return "?"


def replay(path):
    import json
    with open(path) as f:
        d = json.load(f)
    r = d["replay"]
    spec = r["spec"]
    if "cfg" in spec:
        spec["cfg"]["shape"] = tuple(spec["cfg"]["shape"])
    if "model" not in r:
        res = check_design({"id": "replay", "spec": spec})
        for x in res:
            print(x["kind"], x["status"], x.get("detail", "")[:300])
        return 1 if any(x["status"] == VIOLATION for x in res) else 0
    rep = concrete_compare(spec, r["model"], r["event"], None)
    print(f"event {r['event']}: pre {rep['pre']} post {rep['post']}")
    print("differences:", rep["differs"])
    return 1 if rep["differs"] else 0


def families(tier, seed):
    r = random.Random(seed)
    jobs = []
    # expressions
    d1 = G.depth1(3, 2)
    d2 = G.depth2(full=False)
    nexpr = 300 if tier == "quick" else 4000
    pool = d1 + d2
    r.shuffle(pool)
    seen = set()
    for p in pool[:nexpr]:
        t = G.show(p)
        if t in seen or p[0] in ("sig", "const"):
            continue
        seen.add(t)
        jobs.append({"family": "expr", "prog": p, "child": r.random() < 0.3})
    for p in G.const_operand_programs(4):
        jobs.append({"family": "expr", "prog": p, "child": False})
    for p in G.extension_programs() + G.reflected_programs():
        jobs.append({"family": "expr", "prog": p, "child": False})
    # arrays indexed by a value wider than the table needs (simulator and netlist must agree on the indices beyond the table too)
    for n_el in (2, 3):
        for iw in (2, 3):
            elems = [G.sig("a", (3, False)), G.sig("b", (2, True)), ["const", 5, None, False]][:n_el]
            jobs.append({"family": "expr", "prog": ["array", elems, G.sig("c", (iw, False))], "child": False})
            jobs.append({"family": "expr", "prog": ["add", ["array", elems, G.sig("c", (iw, True))], G.sig("d", (2, False))], "child": iw == 3})
    for k in range(16 if tier == "quick" else 200):
        jobs.append({"family": "split", "seed": seed * 100 + k, "kind": ["sync+comb", "comb+sync", "two-domains", "two-modules", "part+sync"][k % 5],
                     "async": k % 8 >= 4, "edge": "neg" if k % 3 == 0 else "pos"})
    gen = G.RandomExprs(seed + 7, 4, 2)
    for i in range(100 if tier == "quick" else 3000):
        p = gen.gen(3 if i % 2 else 2)
        if p[0] not in ("sig", "const"):
            jobs.append({"family": "expr", "prog": p, "child": r.random() < 0.3})
    # statement programs, with hierarchy splits and domain styles
    g2, g3 = S.Programs(seed + 11, W=4, nest=2), S.Programs(seed + 12, W=4, nest=3)
    for i in range(120 if tier == "quick" else 2500):
        prog = (g3 if i % 5 == 0 else g2).gen()
        jobs.append({"family": "stmts", "prog": prog, "split": (seed * 7919 + i) if i % 2 else 0,
                     "async_reset": i % 3 == 1, "clk_edge": "neg" if i % 4 == 3 else "pos"})
    # memories
    from checks import c11
    for cfg in c11.configs(tier, seed)[: (60 if tier == "quick" else 1500)]:
        if cfg.get("array") is None:
            jobs.append({"family": "memory", "cfg": cfg})
            if len(jobs) % 4 == 0:
                jobs.append({"family": "memory", "cfg": dict(cfg, aux=True)})
    # multi-domain tops with wrappers inside
    from checks import c03
    for k in range(12 if tier == "quick" else 150):
        nd = r.choice([1, 2, 2])
        jobs.append({"family": "multi", "seeds": [seed * 1000 + 700 + 3 * k + j for j in range(nd)],
                     "kinds": [r.randrange(len(c03.DOMAIN_KINDS)) for _ in range(nd)]})
    return jobs


def main(tier, seed):
    rep = run.Report("C04", "translation_validation", tier, seed)
    from vlib.pysym.selfcheck import selfcheck
    rep.extra["pysym_selfcheck_comparisons"] = selfcheck(seed)
    specs = families(tier, seed)
    jobs = [{"id": f"{s['family']}-{i:05d}", "spec": s} for i, s in enumerate(specs)]
    results, stats = run.run_jobs(check_design, jobs, chunksize=2)
    skipped = [x for x in results if x.get("status") == "skipped"]
    results = [x for x in results if x.get("status") != "skipped"]
    rep.extra["skipped"] = len(skipped)
    rep.extra["skipped_samples"] = sorted({x["detail"][:100] for x in skipped})[:8]
    rep.add(results, stats)
    # mutation twin: the RTLIL reader must notice a doctored document
    try:
        top, ins, outs, _ = design_expr({"prog": ["add", ["sig", "a", 3, False], ["sig", "b", 2, True]]})
        M = Matched(top, ins, outs)
        doctored = M.text.replace("cell $add", "cell $sub", 1)
        R2 = rtlil_smt.Design(doctored)
        a, b = z3.BitVec("a", 3), z3.BitVec("b", 2)
        y1 = M.R.evaluator({"\\a": a, "\\b": b}, {"dff": {}, "mem": {}, "memrd": {}}).wire("\\o")
        y2 = R2.evaluator({"\\a": a, "\\b": b}, {"dff": {}, "mem": {}, "memrd": {}}).wire("\\o")
        s = z3.Solver()
        s.add(y1 != y2)
        rep.twin("mutation: RTLIL with $add replaced by $sub is distinguished", s.check() == z3.sat)
    except Exception as e:
        rep.twin("mutation: doctored RTLIL", False, f"{type(e).__name__}: {e}")
    rep.source_files = FILES
    rep.functions = ["amaranth.back.rtlil.convert_fragment / ModuleEmitter.* (emitted text is the artefact examined)", "amaranth.hdl._ir.build_netlist / NetlistEmitter.*",
                     "amaranth.hdl._ir._compute_net_flows / _compute_ports", "amaranth.hdl._nir.*", "amaranth.sim._pyrtl (reference side)"]
    rep.bounds = {"designs": len(jobs), "families": "expressions (depth <= 3, width <= 4, optionally computed in a child module); DSL statement programs "
                  "(optionally split over parent/child/grand-child/sibling; sync or async reset; pos/neg edge); memories (port configurations of C11, domains with reset); "
                  "multi-domain tops of generated cores with a memory", "events": "combinational; each domain's active and inactive clock edge; async reset rise; "
                  "pairs of active edges together", "outside": "foreign Instances and I/O buffers on real ports; $print format strings; bits a signed $shift selects above "
                  "max(A_WIDTH, Y_WIDTH); reads beyond a memory's size; two write ports on one row at one edge; clocks that are not top-level inputs"}
    rep.stubs = ["HSignalState", "HMemoryState", "compile recorder", "if-converting interpreter", "vlib.rtlil_smt cell semantics (transcribed from the Yosys manual / simlib)"]
    rep.assumptions = ["registers / read-port registers / memories are put in correspondence by wire names through connect aliases; state without a named counterpart makes the obligation inconclusive",
                       "undefined RTLIL values (x, division by zero, out-of-range reads) are unconstrained fresh variables"]
    rep.rule = "one design per program; obligations per design: initial state, combinational, and one per event kind; non-trivial when state or inputs are symbolic"
    rep.explanation = ("Translation validation per program: the emitted RTLIL is read as z3 terms under published cell semantics and compared with the "
                       "simulator's compiled code for the same elaborated Design, for all states and inputs (1-step induction over event kinds).")
    return rep.finish()
