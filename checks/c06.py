"""C06 - multiply-driven bits and combinational loops are rejected; legal designs are not."""
import random
import warnings

import z3

from vlib import run, symsim
from vlib.gen import expr as G
from vlib.gen import targets as T
from vlib.run import PROVED, VIOLATION, INCONCLUSIVE, ERROR, UNREPRODUCED
from vlib.pysym import explore, fresh, is_sym, timed_check, Inconclusive, Unsupported
from vlib.ts import as_bv as term_of

from amaranth.hdl import Module, Signal, Shape, ClockDomain, Fragment, Instance, Cat, Mux
from amaranth.hdl._ir import build_netlist, DriverConflict
from amaranth.hdl import _nir
from amaranth.hdl._ast import SyntaxError as AmaranthSyntaxError
from amaranth.sim._pyrtl import PyRTLProcess

FILES = ["amaranth/hdl/_ir.py", "amaranth/hdl/_nir.py", "amaranth/hdl/_dsl.py", "amaranth/hdl/_xfrm.py", "amaranth/sim/_pyrtl.py"]
PLACES = ["top", "c1", "c1.g", "c2"]
DOMAINS = ["comb", "sync", "d2"]


def convert_outcome(top, ports):
    """'ok' | 'conflict' | 'cycle' | 'other:<type>' from the real elaboration and netlist construction."""
    try:
        with warnings.catch_warnings():
            warnings.simplefilter("ignore")
            design = Fragment.get(top, None).prepare(ports=ports)
            from amaranth.back import rtlil
            rtlil.convert_fragment(design, ports=ports)
        return "ok", ""
    except DriverConflict as ex:
        return "conflict", str(ex)
    except _nir.CombinationalCycle as ex:
        return "cycle", str(ex)
    except AmaranthSyntaxError as ex:
        if "Driver-driver conflict" in str(ex) or "driven from" in str(ex):
            return "conflict", str(ex)
        return "other:SyntaxError", str(ex)
    except Exception as ex:
        return f"other:{type(ex).__name__}", str(ex)


# ---------------------------------------------------------------------------------------- part 1: drivers
def gen_target(r, sigs, idx_sigs):
    """A random assignable expression over the design signals."""
    n = r.choice(list(sigs))
    w = sigs[n]
    base = ["sig", n, w, False]
    c = r.random()
    if c < 0.25 or w == 0:
        return base
    if c < 0.6:
        a = r.randint(0, w)
        return ["slice", base, a, r.randint(a, w)]
    if c < 0.72:
        i = r.choice(list(idx_sigs))
        return [r.choice(["bit_select", "word_select"]), base, ["sig", i, idx_sigs[i], False], r.randint(1, 2)]
    if c < 0.82:
        n2 = r.choice(list(sigs))
        a = r.randint(0, w)
        b2 = r.randint(0, sigs[n2])
        return ["cat", [["slice", base, a, r.randint(a, w)], ["slice", ["sig", n2, sigs[n2], False], b2, r.randint(b2, sigs[n2])]]]
    if c < 0.9:
        n2 = r.choice(list(sigs))
        i = r.choice(list(idx_sigs))
        a = r.randint(0, w)
        return ["array", [["slice", base, a, r.randint(a, w)], ["sig", n2, sigs[n2], False]], ["sig", i, idx_sigs[i], False]]
    a = r.randint(0, w)
    inner = ["slice", base, a, w]
    iw = w - a
    b = r.randint(0, iw)
    return ["slice", inner, b, r.randint(b, iw)]


def gen_driver_design(r):
    sigs = {f"s{k}": r.randint(1, 4) for k in range(r.randint(2, 3))}
    idx = {"k0": 1, "k1": 2}
    groups = []
    used = set()
    for _ in range(r.randint(2, 4)):
        place, dom = r.choice(PLACES), r.choice(DOMAINS)
        if (place, dom) in used:
            continue
        used.add((place, dom))
        stmts = []
        for j in range(r.randint(1, 2)):
            t = gen_target(r, sigs, idx)
            cond = r.random() < 0.3
            stmts.append({"target": t, "cond": cond})
        groups.append({"place": place, "domain": dom, "stmts": stmts})
    return {"signals": sigs, "idx": idx, "groups": groups}


def near_miss(r, spec):
    """A variant in which one slice bound of one statement moves by one bit (legal <-> illegal neighbours)."""
    import copy
    s2 = copy.deepcopy(spec)
    cands = []

    def visit(t):
        if t[0] == "slice" and t[1][0] == "sig":
            cands.append(t)
        for x in t[1:]:
            if isinstance(x, list):
                if x and isinstance(x[0], str):
                    visit(x)
                else:
                    for y in x:
                        if isinstance(y, list) and y and isinstance(y[0], str):
                            visit(y)
    for g in s2["groups"]:
        for st in g["stmts"]:
            visit(st["target"])
    if not cands:
        return None
    t = r.choice(cands)
    w = t[1][2]
    if r.random() < 0.5 and t[3] < w:
        t[3] += 1
    elif t[2] > 0:
        t[2] -= 1
    elif t[3] < w:
        t[3] += 1
    else:
        return None
    return s2


def show_driver(spec):
    out = [", ".join(f"{n}:{w}" for n, w in spec["signals"].items())]
    for g in spec["groups"]:
        out.append(f"{g['place']}.d.{g['domain']}: " + "; ".join(("If(c): " if st["cond"] else "") + T.show(st["target"]) + ".eq(x)" for st in g["stmts"]))
    return "\n".join(out)


def build_group(m, g, sigs, fresh_inputs):
    for j, st in enumerate(g["stmts"]):
        t = T.build(st["target"], sigs)
        x = Signal(max(len(t), 1), name=f"x_{g['place'].replace('.', '_')}_{g['domain']}_{j}")
        fresh_inputs.append(x)
        if st["cond"]:
            c = Signal(name=f"c_{g['place'].replace('.', '_')}_{g['domain']}_{j}")
            fresh_inputs.append(c)
            with m.If(c):
                m.d[g["domain"]] += t.eq(x)
        else:
            m.d[g["domain"]] += t.eq(x)


def make_signals(spec):
    sigs = {n: Signal(w, name=n) for n, w in spec["signals"].items()}
    sigs.update({n: Signal(w, name=n) for n, w in spec["idx"].items()})
    return sigs


def driven_bits(spec, g):
    """Solver-derived: the bits a group can change, from the code the real simulator compiles for the group alone."""
    with warnings.catch_warnings():
        warnings.simplefilter("ignore")
        sigs = make_signals(spec)
        m = Module()
        m.domains.sync = ClockDomain("sync", reset_less=True)
        m.domains.d2 = ClockDomain("d2", reset_less=True)
        ins = []
        build_group(m, g, sigs, ins)
        sim = symsim.SymSim(m)
    procs = [p for p in sim.processes if isinstance(p, PyRTLProcess)]
    known = {id(s) for s in sim.signals()}
    targets = [sigs[n] for n in spec["signals"] if id(sigs[n]) in known]

    def scen():
        sim.reset()
        pre = {}
        for s in sim.signals():
            if sim.is_clock(s):
                continue
            v = fresh("pre_" + s.name, len(s), False) if len(s) else 0
            sim.poke(s, v)
            pre[s.name] = v
        for p in procs:
            p.run()
        return [(s.name, pre[s.name], sim.slot(s).next, len(s)) for s in targets]
    paths = explore(scen, max_paths=256)
    out = set()
    queries = 0
    for p in paths:
        if p.exc is not None:
            raise p.exc
        for name, pre, nxt, w in p.value:
            if not is_sym(nxt) and not is_sym(pre):
                continue
            a, b = term_of(pre, w), term_of(nxt, w)
            for bit in range(w):
                if (name, bit) in out:
                    continue
                s = z3.Solver()
                for c in p.pc:
                    s.add(c)
                s.add(z3.Extract(bit, bit, a) != z3.Extract(bit, bit, b))
                queries += 1
                r = timed_check(s)
                if r == z3.unknown:
                    raise Inconclusive("solver unknown in a sensitivity query")
                if r == z3.sat:
                    out.add((name, bit))
    return out, queries


def build_full(spec):
    sigs = make_signals(spec)
    mods = {p: Module() for p in PLACES}
    ins = []
    err = None
    for g in spec["groups"]:
        try:
            build_group(mods[g["place"]], g, sigs, ins)
        except AmaranthSyntaxError as ex:       # the early per-module check
            err = ex
            break
    top = mods["top"]
    top.domains.sync = ClockDomain("sync", reset_less=True)
    top.domains.d2 = ClockDomain("d2", reset_less=True)
    mods["c1"].submodules.g = mods["c1.g"]
    top.submodules.c1 = mods["c1"]
    top.submodules.c2 = mods["c2"]
    return top, sigs, ins, err


def driver_job(job):
    spec = job["spec"]
    text = show_driver(spec)
    base = {"id": job["id"], "program": text, "nontrivial": True, "kind": "driver conflicts",
            "assertion": "conversion raises a driver-conflict error iff two different (module, domain) groups can change a common signal bit",
            "symbolic": "signal state, right-hand sides, indices (per-bit sensitivity queries on the simulator code of each group)"}
    try:
        per_group = []
        nq = 0
        for g in spec["groups"]:
            bits, q = driven_bits(spec, g)
            nq += q
            per_group.append(bits)
    except (Inconclusive, Unsupported) as e:
        return [dict(base, status=INCONCLUSIVE, detail=f"{type(e).__name__}: {e}")]
    except (AmaranthSyntaxError, TypeError, ValueError, IndexError) as e:
        return [dict(base, kind="unconstructible", status="skipped", detail=f"{type(e).__name__}: {e}")]
    clash = []
    for i in range(len(per_group)):
        for j in range(i):
            common = per_group[i] & per_group[j]
            if common:
                clash.append((spec["groups"][j]["place"] + "." + spec["groups"][j]["domain"], spec["groups"][i]["place"] + "." + spec["groups"][i]["domain"], sorted(common)[:3]))
    with warnings.catch_warnings():
        warnings.simplefilter("ignore")
        top, sigs, ins, err = build_full(spec)
        if err is not None:
            outcome, msg = "conflict", str(err)
        else:
            outcome, msg = convert_outcome(top, [sigs[n] for n in spec["signals"]] + [sigs[n] for n in spec["idx"]] + ins)
    want = "conflict" if clash else "ok"
    if outcome == want:
        return [dict(base, status=PROVED, sensitivity_queries=nq, expected=want)]
    if clash:
        detail = f"groups {clash[0][0]} and {clash[0][1]} both drive bits {clash[0][2]}, yet conversion gives '{outcome}' {msg[:120]}"
    else:
        detail = f"no two groups can change a common bit, yet conversion gives '{outcome}': {msg[:200]}"
    return [dict(base, status=VIOLATION, detail=text.replace(chr(10), ' | ') + ": " + detail, signature={"kind": "drivers", "want": want, "got": outcome.split(':')[0]},
                 replay={"what": "driver", "spec": spec})]


# ---------------------------------------------------------------------------------------- part 2: cycles
def gen_cycle_design(r, wordlevel=False):
    """Comb assignments between bit ranges of a few signals, spread over the hierarchy; sources chosen freely, so
    cycles happen or not.  Every signal bit has at most one driver."""
    sigs = {f"a{k}": r.randint(1, 4) for k in range(r.randint(2, 3))}
    free = {"f0": 4, "f1": 4, "f2": 1}
    stmts = []
    taken = set()
    regs = {}
    for _ in range(r.randint(2, 5)):
        n = r.choice(list(sigs))
        w = sigs[n]
        lo = r.randint(0, w - 1)
        hi = r.randint(lo + 1, w)
        if any((n, b) in taken for b in range(lo, hi)):
            continue
        for b in range(lo, hi):
            taken.add((n, b))
        tw = hi - lo

        def src1(width):
            m_ = r.choice(list(sigs))
            mw = sigs[m_]
            if mw >= width:
                a = r.randint(0, mw - width)
                return ["slice", ["sig", m_, mw, False], a, a + width, None]
            return ["cat", [["sig", m_, mw, False], ["slice", ["sig", "f0", 4, False], 0, width - mw, None]]]

        def src(width):
            # bits of different signals side by side, so that single bits of an operator's output close a loop
            if width >= 2 and r.random() < 0.35:
                k_ = r.randint(1, width - 1)
                return ["cat", [src1(k_), src1(width - k_)]]
            return src1(width)
        fr = lambda width: ["slice", ["sig", r.choice(["f0", "f1"]), 4, False], 0, width, None]
        c = r.random()
        if wordlevel:
            op = r.choice(["add", "sub", "shl", "shr", "shr", "lt", "mul", "bit_select", "word_select", "bit_select"])
            if op in ("bit_select", "word_select"):
                # a part of a wider source chosen by a free offset: every value bit can reach the output
                sw_ = min(tw + r.randint(1, 2), 4)
                e = ["slice", [op, src(sw_), ["slice", ["sig", "f0", 4, False], 0, 2, None], max(tw, 2) if op == "bit_select" else tw], 0, tw, None]
            else:
                if op in ("shl", "shr"):
                    # operands of different widths; the amount may come from the design itself (a loop through the amount)
                    vw = min(tw + r.randint(0, 2), 4)
                    amt = fr(r.randint(1, 2)) if r.random() < 0.5 else src(r.randint(1, 2))
                    e = ["slice", [op, src(vw), amt], vw - tw if op == "shr" and r.random() < 0.5 else 0, None, None]
                    e = ["slice", e, 0, tw, None]
                else:
                    e = ["slice", [op, src(tw), src(tw)], 0, tw, None]
        elif c < 0.12:
            # a reduction: its single output bit is wired from every bit of the operand
            e = [r.choice(["bool", "any", "all", "xorr"]), src(r.randint(2, 3))]
            if r.random() < 0.3:
                e = ["inv", e]
        elif c < 0.25:
            e = src(tw)
        elif c < 0.4:
            e = ["inv", src(tw)]
        elif c < 0.6:
            e = [r.choice(["xor", "and", "or"]), src(tw), fr(tw)]
        elif c < 0.8:
            sel = r.choice([["sig", "f2", 1, False], ["slice", src(1), 0, 1, None]])
            e = ["mux", sel, src(tw), fr(tw)]
        else:
            e = ["xor", src(tw), fr(tw)]
        place = r.choice(PLACES)
        kind = "comb"
        cond = None
        if r.random() < 0.35:
            # one or two enclosing control blocks: If / Elif after an earlier If / Switch case, nested
            cond = []
            for _ in range(r.choice([1, 1, 2])):
                kind_ = r.choice(["if", "if", "elif", "case"])
                c1 = ["slice", src(1), 0, 1, None] if r.random() < 0.6 else src(r.randint(2, 3))     # several bits: every one of them is tested
                cond.append([kind_, c1, ["slice", src(1), 0, 1, None]] if kind_ == "elif" else [kind_, c1])
        if r.random() < 0.12:
            kind = "sync"        # a register in the loop breaks it
        stmts.append({"place": place, "domain": kind, "target": ["slice", ["sig", n, w, False], lo, hi], "rhs": e, "cond": cond})
        if kind == "comb" and r.random() < 0.3:
            # the same bits assigned again under a condition: the first assignment becomes the default of the second
            stmts.append({"place": place, "domain": kind, "target": ["slice", ["sig", n, w, False], lo, hi], "rhs": r.choice([src(tw), fr(tw), ["inv", src(tw)]]),
                          "cond": ["slice", r.choice([src(1), ["sig", "f2", 1, False]]), 0, 1, None]})
    return {"signals": sigs, "free": free, "stmts": stmts, "wordlevel": wordlevel}


def show_cycle(spec):
    out = [", ".join(f"{n}:{w}" for n, w in spec["signals"].items())]
    for st in spec["stmts"]:
        out.append(f"{st['place']}.d.{st['domain']}: " + _show_conds(st["cond"]) + f"{T.show(st['target'])}.eq({G.show(st['rhs'])})")
    return "\n".join(out)


def _norm_conds(cond):
    """Older specs carry a single expression: one If."""
    if cond is None:
        return []
    if cond and isinstance(cond[0], str):
        return [["if", cond]]
    return cond


def _show_conds(cond):
    out = ""
    for c in _norm_conds(cond):
        if c[0] == "if":
            out += f"If({G.show(c[1])}): "
        elif c[0] == "elif":
            out += f"If({G.show(c[1])}): pass; Elif({G.show(c[2])}): "
        else:
            out += f"Switch({G.show(c[1])}) Case(1): "
    return out


def _under(m, conds, sigs, body):
    """Run body() inside the nest of control blocks."""
    if not conds:
        body()
        return
    c, rest = conds[0], conds[1:]
    if c[0] == "if":
        with m.If(G.build(c[1], sigs)):
            _under(m, rest, sigs, body)
    elif c[0] == "elif":
        with m.If(G.build(c[1], sigs)):
            pass
        with m.Elif(G.build(c[2], sigs)):
            _under(m, rest, sigs, body)
    else:
        with m.Switch(G.build(c[1], sigs)):
            with m.Case(1):
                _under(m, rest, sigs, body)


def build_cycle(spec):
    sigs = {n: Signal(w, name=n) for n, w in spec["signals"].items()}
    sigs.update({n: Signal(w, name=n) for n, w in spec["free"].items()})
    mods = {p: Module() for p in PLACES}
    for st in spec["stmts"]:
        m = mods[st["place"]]
        a = T.build(st["target"], sigs).eq(G.build(st["rhs"], sigs))

        def body(m=m, st=st, a=a):
            m.d[st["domain"]] += a
        _under(m, _norm_conds(st["cond"]), sigs, body)
    top = mods["top"]
    top.domains.sync = ClockDomain("sync", reset_less=True)
    mods["c1"].submodules.g = mods["c1.g"]
    top.submodules.c1 = mods["c1"]
    top.submodules.c2 = mods["c2"]
    return top, sigs


def dependency_graph(spec):
    """Solver-derived functional dependencies between signal bits through ONE pass of every comb process."""
    with warnings.catch_warnings():
        warnings.simplefilter("ignore")
        top, sigs = build_cycle(spec)
        sim = symsim.SymSim(top)
    procs = [p for p in sim.processes if isinstance(p, PyRTLProcess) and p.is_comb]
    known = {id(s) for s in sim.signals()}
    names = [n for n in spec["signals"] if id(sigs[n]) in known]

    def scen():
        sim.reset()
        pre = {}
        for s in sim.signals():
            if sim.is_clock(s):
                continue
            v = fresh("cur_" + s.name, len(s), False) if len(s) else 0
            sim.poke(s, v)
            pre[s.name] = v
        for p in procs:
            p.run()
        return pre, {n: sim.slot(sigs[n]).next for n in names}
    paths = explore(scen, max_paths=256)
    # only bits a comb process writes are nodes with incoming edges (any other bit keeps its value: next == current)
    comb_bits = {n: sim.comb_mask.get(sim.slot(sigs[n]), 0) for n in names}
    edges = set()
    queries = 0
    for p in paths:
        if p.exc is not None:
            raise p.exc
        pre, nxt = p.value
        for dn in names:
            w = spec["signals"][dn]
            if not is_sym(nxt[dn]):
                continue
            f = term_of(nxt[dn], w)
            mentioned = {str(v) for v in _vars(f)}
            for sn in names:
                sw = spec["signals"][sn]
                var = term_of(pre[sn], sw)
                base_var = _base_var(var)
                if base_var is None or str(base_var) not in mentioned:
                    continue
                for sb in range(sw):
                    flipped = z3.substitute(f, (base_var, base_var ^ z3.BitVecVal(1 << sb, base_var.size())))
                    for db in range(w):
                        if ((sn, sb), (dn, db)) in edges or not (comb_bits[dn] >> db) & 1:
                            continue
                        s = z3.Solver()
                        for c in p.pc:
                            s.add(c)
                        s.add(z3.Extract(db, db, f) != z3.Extract(db, db, flipped))
                        queries += 1
                        r = timed_check(s)
                        if r == z3.unknown:
                            raise Inconclusive("solver unknown in a dependency query")
                        if r == z3.sat:
                            edges.add(((sn, sb), (dn, db)))
    return edges, queries


def _vars(t):
    seen, out, todo = set(), [], [t]
    while todo:
        x = todo.pop()
        if x.get_id() in seen:
            continue
        seen.add(x.get_id())
        if z3.is_const(x) and x.decl().kind() == z3.Z3_OP_UNINTERPRETED:
            out.append(x)
        todo.extend(x.children())
    return out


def _base_var(t):
    vs = _vars(t)
    return vs[0] if len(vs) == 1 else None


def has_cycle(edges):
    adj = {}
    for a, b in edges:
        adj.setdefault(a, []).append(b)
    state = {}

    def dfs(n, stack):
        state[n] = 1
        for m in adj.get(n, []):
            if state.get(m) == 1:
                return stack + [n, m]
            if state.get(m) is None:
                r = dfs(m, stack + [n])
                if r:
                    return r
        state[n] = 2
        return None
    for n in list(adj):
        if state.get(n) is None:
            r = dfs(n, [])
            if r:
                return r
    return None


def cycle_job(job):
    spec = job["spec"]
    text = show_cycle(spec)
    # Two oracles.  Functional (solver-derived): a bit that can influence itself must be rejected, whatever the constructs.
    # Structural (bit-precise reading of the program text, below): for designs without word-level operators the design is
    # rejected iff some bit structurally reaches itself (a structural path may be functionally dead, e.g. If(a): a.eq(~a)).
    wl = spec["wordlevel"]
    base = {"id": job["id"], "program": text, "nontrivial": True, "kind": "combinational cycles" + (" (word-level operators)" if wl else ""),
            "assertion": ("a bit that functionally depends on itself makes conversion raise CombinationalCycle" if wl else
                          "a functional self-dependency is rejected; conversion raises CombinationalCycle iff some bit structurally reaches itself (bit-precise constructs)"),
            "symbolic": "all signal values (per bit-pair sensitivity queries on one pass of the compiled comb processes)"}
    try:
        edges, nq = dependency_graph(spec)
    except (Inconclusive, Unsupported) as e:
        return [dict(base, status=INCONCLUSIVE, detail=f"{type(e).__name__}: {e}")]
    except (AmaranthSyntaxError, TypeError, ValueError, IndexError) as e:
        return [dict(base, kind="unconstructible", status="skipped", detail=f"{type(e).__name__}: {e}")]
    cyc = has_cycle(edges)
    with warnings.catch_warnings():
        warnings.simplefilter("ignore")
        top, sigs = build_cycle(spec)
        outcome, msg = convert_outcome(top, [sigs[n] for n in list(spec["signals"]) + list(spec["free"])])
    if outcome.startswith("other") or outcome == "conflict":
        return [dict(base, status=VIOLATION, detail=text.replace(chr(10), ' | ') + f": conversion gives '{outcome}': {msg[:200]}", signature={"kind": "cycle-other", "got": outcome},
                     replay={"what": "cycle", "spec": spec})]
    if cyc and outcome != "cycle":
        return [dict(base, status=VIOLATION, detail=text.replace(chr(10), ' | ') + f": bit {cyc[0]} depends on itself through {cyc}, yet the design is accepted",
                     signature={"kind": "cycle-missed"}, replay={"what": "cycle", "spec": spec})]
    scyc = None
    if not wl:
        sedges = structural_edges(spec)
        if not edges <= sedges:
            return [dict(base, status=ERROR, detail=f"functional dependencies {sorted(edges - sedges)[:3]} missing from the structural reading of the program")]
        scyc = has_cycle(sedges)
        if bool(scyc) != (outcome == "cycle"):
            what = (f"bit {scyc[0]} structurally reaches itself through {scyc}, yet the design is accepted" if scyc else
                    f"no bit reaches itself, yet conversion raises CombinationalCycle: {msg[:200]}")
            return [dict(base, status=VIOLATION, detail=text.replace(chr(10), ' | ') + ": " + what,
                         signature={"kind": "cycle-missed" if scyc else "cycle-spurious"}, replay={"what": "cycle", "spec": spec})]
    return [dict(base, status=PROVED, dependency_queries=nq, edges=len(edges), cyclic=bool(cyc), structurally_cyclic=(None if wl else bool(scyc)), outcome=outcome)]


def _expr_bits(e, sigs):
    """Per output bit (LSB first) the set of design-signal bits the expression's bit is wired from (bit-precise constructs)."""
    k = e[0]
    if k == "sig":
        return [({(e[1], b)} if e[1] in sigs else set()) for b in range(e[2])]
    if k == "const":
        from vlib import refsem
        _, (w, _s) = refsem.ref_eval(e, {})
        return [set() for _ in range(w)]
    if k == "slice":
        return _expr_bits(e[1], sigs)[slice(e[2], e[3], e[4] if len(e) > 4 else None)]
    if k == "cat":
        out = []
        for p_ in e[1]:
            out += _expr_bits(p_, sigs)
        return out
    if k == "inv":
        return _expr_bits(e[1], sigs)
    if k in ("bool", "any", "all", "xorr"):
        return [set().union(*_expr_bits(e[1], sigs))]
    if k in ("xor", "and", "or"):
        a, b = _expr_bits(e[1], sigs), _expr_bits(e[2], sigs)
        n = max(len(a), len(b))
        a += [set()] * (n - len(a))
        b += [set()] * (n - len(b))
        return [x | y for x, y in zip(a, b)]
    if k == "mux":
        sel = set().union(*_expr_bits(e[1], sigs)) if _expr_bits(e[1], sigs) else set()
        a, b = _expr_bits(e[2], sigs), _expr_bits(e[3], sigs)
        n = max(len(a), len(b))
        a += [set()] * (n - len(a))
        b += [set()] * (n - len(b))
        return [x | y | sel for x, y in zip(a, b)]
    raise Unsupported(f"structural reading of {k}")


def structural_edges(spec):
    sigs = spec["signals"]
    edges = set()
    for st in spec["stmts"]:
        if st["domain"] != "comb":
            continue
        cond_bits = set()
        for c in _norm_conds(st["cond"]):
            for ce in c[1:]:
                for bs in _expr_bits(ce, sigs):
                    cond_bits |= bs
        t = st["target"]
        n, lo, hi = t[1][1], t[2], t[3]
        rb = _expr_bits(st["rhs"], sigs)
        for k_ in range(hi - lo):
            srcs = (rb[k_] if k_ < len(rb) else set()) | cond_bits
            for sbit in srcs:
                edges.add((sbit, (n, lo + k_)))
    return edges


# ---------------------------------------------------------------------------------------- part 3: logic vs instance / memory / buffer outputs
def structural_job(job):
    """A signal driven by logic and by the output of an instance, a memory read port or an I/O buffer (concrete cases)."""
    from amaranth.hdl import IOPort, IOBufferInstance
    from amaranth.lib.memory import Memory as LibMemory
    out = []
    base = {"program": "", "nontrivial": False, "kind": "logic vs instance/memory/buffer output"}
    cases = []
    geoms = [((0, 2), (1, 3)), ((0, 2), (2, 4)), ((1, 2), (0, 2)), ((2, 4), (1, 4)), ((1, 3), (0, 2)), ((1, 3), (0, 1)), ((1, 3), (3, 4)), ((0, 4), (3, 4))]
    for (ir, lr) in geoms:
        for kind in ("instance", "memory", "iobuffer"):
            for dom in ("comb", "sync"):
                cases.append((kind, dom, ir, lr))
    for kind, dom, ir, lr in cases:
        overlap = max(ir[0], lr[0]) < min(ir[1], lr[1])
        iw = ir[1] - ir[0]
        s = Signal(4, name="s")
        x = Signal(2, name="x")
        m = Module()
        m.domains.sync = ClockDomain("sync", reset_less=True)
        ports = [x]
        if kind == "instance":
            m.submodules.inst = Instance("blackbox", o_q=s[ir[0]:ir[1]])
        elif kind == "iobuffer":
            pad = IOPort(iw, name="pad")
            m.submodules.buf = IOBufferInstance(pad, i=s[ir[0]:ir[1]])
            ports.append(pad)
        else:
            # a read port's data signal is the port's output: logic on some of its bits collides with the port
            mem = LibMemory(shape=4, depth=4, init=[])
            m.submodules.mem = mem
            rp = mem.read_port(domain="comb")
            a = Signal(2, name="a")
            ports.append(a)
            m.d.comb += rp.addr.eq(a)
            if not overlap:
                continue                         # every bit of rp.data is driven by the port: there is no disjoint case
            s = rp.data
        tgt = s[lr[0]:lr[1]]
        m.d[dom] += tgt.eq(x)
        outcome, msg = convert_outcome(m, ports + [s])
        want = "conflict" if overlap else "ok"
        r = dict(base, id=f"{job['id']}-{kind}-{dom}-{ir[0]}{ir[1]}-{lr[0]}{lr[1]}", program=f"{kind} output on s[{ir[0]}:{ir[1]}], {dom} logic on s[{lr[0]}:{lr[1]}] ({'overlapping' if overlap else 'disjoint'})",
                 assertion="overlap with an instance/memory/buffer output is a driver conflict; disjoint bits are accepted")
        if outcome == want:
            out.append(dict(r, status=PROVED))
        else:
            out.append(dict(r, status=VIOLATION, detail=f"{r['program']}: expected '{want}', conversion gives '{outcome}' {msg[:160]}", signature={"kind": "structural", "case": kind},
                            replay={"what": "structural"}))
    return out


def job_fn(job):
    if job["what"] == "driver":
        return driver_job(job)
    if job["what"] == "cycle":
        return cycle_job(job)
    return structural_job(job)


def replay(path):
    import json
    with open(path) as f:
        d = json.load(f)
    r = d["replay"]
    res = job_fn({"id": "replay", "what": r["what"], "spec": r.get("spec")})
    for x in res:
        if x["status"] != PROVED:
            print(x["kind"], x["status"], str(x.get("detail"))[:400])
    return 1 if any(x["status"] == VIOLATION for x in res) else 0


def interleaved_drivers():
    """Two domains of ONE module drive interleaved bits of one signal: the first statement's bits have a hole (Cat of two slices,
    Array of two slices, two statements) which the second domain drives (legal), or the second touches one of its bits (illegal)."""
    out = []
    S = lambda a, b: ["slice", ["sig", "s0", 4, False], a, b]
    holed = [("cat", ["cat", [S(0, 1), S(2, 3)]]), ("cat-far", ["cat", [S(0, 1), S(3, 4)]]), ("array", ["array", [S(0, 1), S(3, 4)], ["sig", "k0", 1, False]])]
    for place in ("top", "c1.g"):
        for d1, d2 in (("comb", "sync"), ("sync", "comb"), ("sync", "d2")):
            for nm, tgt in holed:
                for other in (S(1, 2), S(1, 3), S(2, 4), S(0, 1), S(3, 4)):
                    for first in (0, 1):
                        groups = [{"place": place, "domain": d1, "stmts": [{"target": tgt, "cond": False}]},
                                  {"place": place, "domain": d2, "stmts": [{"target": other, "cond": nm == "array"}]}]
                        out.append({"signals": {"s0": 4, "s1": 2}, "idx": {"k0": 1, "k1": 2}, "groups": groups if first == 0 else groups[::-1]})
    return out


def corner_cycles():
    A = lambda n, w: ["sig", n, w, False]
    sl = lambda n, w, a, b: ["slice", A(n, w), a, b, None]
    T_ = lambda n, w, a, b: ["slice", A(n, w), a, b]
    free = {"f0": 4, "f1": 4, "f2": 1}
    out = []
    # bits of one signal feed other bits of the same signal, no bit reaches itself: legal
    out.append({"signals": {"a0": 4, "a1": 2}, "free": free, "wordlevel": False,
                "stmts": [{"place": "top", "domain": "comb", "target": T_("a0", 4, 1, 4), "rhs": sl("a0", 4, 0, 3), "cond": None},
                          {"place": "c1", "domain": "comb", "target": T_("a0", 4, 0, 1), "rhs": sl("f0", 4, 0, 1), "cond": None}]})
    # the same ring closed: illegal
    out.append({"signals": {"a0": 4, "a1": 2}, "free": free, "wordlevel": False,
                "stmts": [{"place": "top", "domain": "comb", "target": T_("a0", 4, 1, 4), "rhs": sl("a0", 4, 0, 3), "cond": None},
                          {"place": "c1", "domain": "comb", "target": T_("a0", 4, 0, 1), "rhs": ["inv", sl("a0", 4, 3, 4)], "cond": None}]})
    # a loop through a condition only
    out.append({"signals": {"a0": 2, "a1": 2}, "free": free, "wordlevel": False,
                "stmts": [{"place": "c2", "domain": "comb", "target": T_("a0", 2, 0, 1), "rhs": sl("f0", 4, 0, 1), "cond": sl("a1", 2, 1, 2)},
                          {"place": "top", "domain": "comb", "target": T_("a1", 2, 1, 2), "rhs": sl("a0", 2, 0, 1), "cond": None}]})
    # a loop that closes only through the OUTER condition of two nested If blocks
    out.append({"signals": {"a0": 1, "a1": 1}, "free": free, "wordlevel": False,
                "stmts": [{"place": "top", "domain": "comb", "target": T_("a0", 1, 0, 1), "rhs": sl("f0", 4, 0, 1),
                           "cond": [["if", sl("a0", 1, 0, 1)], ["if", sl("f1", 4, 0, 1)]]}]})
    # ... and through the condition of an earlier If of an Elif chain
    out.append({"signals": {"a0": 1, "a1": 1}, "free": free, "wordlevel": False,
                "stmts": [{"place": "c1", "domain": "comb", "target": T_("a0", 1, 0, 1), "rhs": sl("f0", 4, 0, 1),
                           "cond": [["elif", sl("a0", 1, 0, 1), sl("f1", 4, 1, 2)]]}]})
    # a loop through the DEFAULT of a conditional override: a = b; If(c): a = 0;  b = ~a
    out.append({"signals": {"a0": 2, "a1": 2}, "free": free, "wordlevel": False,
                "stmts": [{"place": "top", "domain": "comb", "target": T_("a0", 2, 0, 2), "rhs": sl("a1", 2, 0, 2), "cond": None},
                          {"place": "top", "domain": "comb", "target": T_("a0", 2, 0, 2), "rhs": sl("f0", 4, 0, 2), "cond": sl("f1", 4, 0, 1)},
                          {"place": "c1", "domain": "comb", "target": T_("a1", 2, 0, 2), "rhs": ["inv", sl("a0", 2, 0, 2)], "cond": None}]})
    # a loop through a part-select with a free offset: a[1] = a.bit_select(off, 2)[0]
    out.append({"signals": {"a0": 4, "a1": 1}, "free": free, "wordlevel": True,
                "stmts": [{"place": "top", "domain": "comb", "target": T_("a0", 4, 1, 2),
                           "rhs": ["slice", ["bit_select", ["sig", "a0", 4, False], sl("f0", 4, 0, 2), 2], 0, 1, None], "cond": None}]})
    # a multiplexer is wired bit by bit: a0[1] reaches itself through the data input ...
    out.append({"signals": {"a0": 2, "a1": 2}, "free": free, "wordlevel": False,
                "stmts": [{"place": "top", "domain": "comb", "target": T_("a0", 2, 0, 2),
                           "rhs": ["mux", A("f2", 1), ["cat", [sl("a1", 2, 0, 1), sl("a0", 2, 1, 2)]], sl("f0", 4, 0, 2)], "cond": None}]})
    # ... while here only a0[0] depends on a0[1], and a0[1] on nothing: legal
    out.append({"signals": {"a0": 2, "a1": 2}, "free": free, "wordlevel": False,
                "stmts": [{"place": "c2", "domain": "comb", "target": T_("a0", 2, 0, 2),
                           "rhs": ["mux", A("f2", 1), ["cat", [sl("a0", 2, 1, 2), ["const", 0, 1, False]]], sl("f0", 4, 0, 2)], "cond": None}]})
    # a loop broken by a register
    out.append({"signals": {"a0": 2, "a1": 2}, "free": free, "wordlevel": False,
                "stmts": [{"place": "c2", "domain": "sync", "target": T_("a0", 2, 0, 2), "rhs": sl("a1", 2, 0, 2), "cond": None},
                          {"place": "top", "domain": "comb", "target": T_("a1", 2, 0, 2), "rhs": ["inv", sl("a0", 2, 0, 2)], "cond": None}]})
    # a loop through a Mux select, crossing the hierarchy twice
    out.append({"signals": {"a0": 3, "a1": 1}, "free": free, "wordlevel": False,
                "stmts": [{"place": "c1.g", "domain": "comb", "target": T_("a0", 3, 0, 2), "rhs": ["mux", sl("a1", 1, 0, 1), sl("f0", 4, 0, 2), sl("f1", 4, 0, 2)], "cond": None},
                          {"place": "c2", "domain": "comb", "target": T_("a1", 1, 0, 1), "rhs": sl("a0", 3, 1, 2), "cond": None}]})
    # a loop through a multi-bit condition: If(a0): a0[1] = 1   (the condition tests every bit of a0)
    out.append({"signals": {"a0": 2, "a1": 1}, "free": free, "wordlevel": False,
                "stmts": [{"place": "top", "domain": "comb", "target": T_("a0", 2, 1, 2), "rhs": sl("f0", 4, 0, 1), "cond": [["if", A("a0", 2)]]}]})
    # a loop through the high operand bit of a reduction: a0[2] = ~a0.xor();  a1[0] = a0[0:2].any() alone is legal
    out.append({"signals": {"a0": 3, "a1": 1}, "free": free, "wordlevel": False,
                "stmts": [{"place": "c1", "domain": "comb", "target": T_("a0", 3, 2, 3), "rhs": ["inv", ["xorr", A("a0", 3)]], "cond": None}]})
    out.append({"signals": {"a0": 3, "a1": 1}, "free": free, "wordlevel": False,
                "stmts": [{"place": "c1", "domain": "comb", "target": T_("a0", 3, 2, 3), "rhs": ["any", sl("a0", 3, 0, 2)], "cond": None},
                          {"place": "top", "domain": "comb", "target": T_("a1", 1, 0, 1), "rhs": ["all", A("a0", 3)], "cond": None}]})
    # loops through the HIGH bits of a shifted value and through a shift amount wider than ... the other operand
    out.append({"signals": {"a0": 4, "a1": 1}, "free": free, "wordlevel": True,
                "stmts": [{"place": "top", "domain": "comb", "target": T_("a0", 4, 3, 4), "rhs": ["slice", ["shr", A("a0", 4), sl("f0", 4, 0, 1)], 3, 4, None], "cond": None}]})
    out.append({"signals": {"a0": 3, "a1": 2}, "free": free, "wordlevel": True,
                "stmts": [{"place": "c1", "domain": "comb", "target": T_("a0", 3, 2, 3), "rhs": ["slice", ["shr", sl("f0", 4, 0, 2), A("a0", 3)], 0, 1, None], "cond": None}]})
    out.append({"signals": {"a0": 3, "a1": 2}, "free": free, "wordlevel": True,
                "stmts": [{"place": "c2", "domain": "comb", "target": T_("a0", 3, 2, 3), "rhs": ["slice", ["shl", A("a0", 3), sl("f0", 4, 0, 1)], 2, 3, None], "cond": None}]})
    # carry chain: bit 0 of a sum does not depend on bit 1 of the operands, but word-level analysis may say so (accepted either way)
    out.append({"signals": {"a0": 2, "a1": 2}, "free": free, "wordlevel": True,
                "stmts": [{"place": "top", "domain": "comb", "target": T_("a0", 2, 1, 2), "rhs": ["slice", ["add", sl("a0", 2, 0, 1), sl("f0", 4, 0, 1)], 0, 1, None], "cond": None}]})
    return out


def main(tier, seed):
    rep = run.Report("C06", "other", tier, seed)
    from vlib.pysym.selfcheck import selfcheck
    rep.extra["pysym_selfcheck_comparisons"] = selfcheck(seed)
    r = random.Random(seed)
    jobs = []
    n = 150 if tier == "quick" else 4000
    for k in range(n):
        spec = gen_driver_design(r)
        jobs.append({"id": f"drv-{k:05d}", "what": "driver", "spec": spec})
        nm = near_miss(r, spec)
        if nm is not None:
            jobs.append({"id": f"drv-{k:05d}n", "what": "driver", "spec": nm})
    for i, spec in enumerate(interleaved_drivers()):
        jobs.append({"id": f"drv-interleaved-{i:03d}", "what": "driver", "spec": spec})
    for i, spec in enumerate(corner_cycles()):
        jobs.append({"id": f"cyc-corner-{i}", "what": "cycle", "spec": spec})
    for k in range(120 if tier == "quick" else 3000):
        jobs.append({"id": f"cyc-{k:05d}", "what": "cycle", "spec": gen_cycle_design(r, wordlevel=(k % 4 == 3))})
    jobs.append({"id": "structural", "what": "structural"})
    results, stats = run.run_jobs(job_fn, jobs, chunksize=2)
    skipped = [x for x in results if x.get("status") == "skipped"]
    results = [x for x in results if x.get("status") != "skipped"]
    rep.extra["skipped"] = len(skipped)
    rep.extra["skipped_samples"] = sorted({x["detail"][:120] for x in skipped})[:6]
    rep.extra["expected_conflicts"] = sum(1 for x in results if x.get("expected") == "conflict")
    rep.extra["expected_accepts"] = sum(1 for x in results if x.get("expected") == "ok")
    rep.extra["cyclic_designs"] = sum(1 for x in results if x.get("cyclic") is True)
    rep.extra["acyclic_designs"] = sum(1 for x in results if x.get("cyclic") is False)
    rep.add(results, stats)
    # twins: the oracle itself distinguishes the closed ring from the open one
    cc = corner_cycles()
    e0, _ = dependency_graph(cc[0])
    e1, _ = dependency_graph(cc[1])
    rep.twin("oracle: open shift ring has no functional cycle, closed ring has one", has_cycle(e0) is None and has_cycle(e1) is not None)
    rep.source_files = FILES
    rep.functions = ["amaranth.hdl._dsl.Module._add_statement (early per-module check)", "amaranth.hdl._ir.NetlistEmitter.connect / emit_drivers (whole-design driver table)",
                     "amaranth.hdl._nir.Netlist.check_comb_cycles, Cell.comb_edges_to / comb_edges_is_per_bit", "amaranth.hdl._xfrm.LHSMaskCollector",
                     "amaranth.sim._pyrtl compiled code of each statement group (source of the solver-derived oracle)"]
    rep.bounds = {"driver_designs": sum(1 for j in jobs if j["what"] == "driver"), "cycle_designs": sum(1 for j in jobs if j["what"] == "cycle"),
                  "signals": "2..3 of width 1..4", "modules": "top, c1, c1.g, c2", "domains": "comb, sync, d2",
                  "targets": "signal, slice, nested slice, Cat of slices, bit_select/word_select by a 1..2-bit index, Array element",
                  "outside": "for word-level operators only 'functional cycle => rejected' is asserted (structural analysis may be coarser); instance/memory/buffer outputs "
                             "are concrete cases (no simulator semantics to derive an oracle from)"}
    rep.stubs = ["HSignalState", "if-converting interpreter", "one pass of each compiled process from an arbitrary symbolic state (no fixpoint)"]
    rep.assumptions = ["right-hand sides and indices of driver statements are free inputs, so 'can change the bit' coincides with 'drives the bit'"]
    rep.rule = "seeded random assignments of signal bit ranges to (module, domain) groups with one-bit near-miss variants; seeded random comb networks between bit ranges; hand-written corner rings"
    rep.explanation = ("The accept/reject decision of the real elaboration + netlist construction is compared with an oracle derived by the solver from the code the real simulator "
                       "compiles: a group drives a bit iff some state and inputs make it change the bit; bit y depends on bit x iff flipping x can change y in one pass of the comb "
                       "processes. Conflicts are intersections of driven sets; cycles are cycles of the dependency graph.")
    return rep.finish()
