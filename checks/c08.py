"""C08 - simulation results do not depend on process scheduling order; settle/sample semantics; integer time."""
import itertools
import random
import warnings

import z3

from vlib import run, symsim
from vlib.ts import as_bv
from vlib.run import PROVED, VIOLATION, INCONCLUSIVE, ERROR, UNREPRODUCED
from vlib.pysym import (explore, fresh, fresh_range, bool_term, is_sym, timed_check, sym_ite, same, eval_in_model, Inconclusive, Unsupported)

from amaranth.hdl import Module, Signal, ClockDomain, Shape, Const
from amaranth.hdl._time import Period
from amaranth.lib.memory import Memory
from amaranth.sim import _async, pysim as _pysim
from amaranth.sim._pyrtl import PyRTLProcess
from amaranth.sim._pyclock import PyClockProcess

FILES = ["amaranth/sim/pysim.py", "amaranth/sim/_async.py", "amaranth/sim/_pyclock.py", "amaranth/sim/_pyrtl.py", "amaranth/sim/_pyeval.py", "amaranth/sim/core.py", "amaranth/hdl/_time.py"]


# ---------------------------------------------------------------------------------------- infrastructure
class OrderedSet:
    """A set with a chosen iteration order (the engine's containers are Python sets: any order is possible)."""
    def __init__(self, items=(), key=None, reverse=False):
        self.items = list(items)
        self.key, self.reverse = key, reverse

    def _ordered(self):
        xs = list(self.items)
        if self.key is not None:
            xs.sort(key=self.key)
        if self.reverse:
            xs.reverse()
        return xs

    def __iter__(self):
        return iter(self._ordered())

    def add(self, x):
        if not any(x is y for y in self.items):
            self.items.append(x)

    def update(self, xs):
        for x in xs:
            self.add(x)

    def discard(self, x):
        self.items = [y for y in self.items if y is not x]

    def clear(self):
        self.items = []

    def __len__(self):
        return len(self.items)

    def __contains__(self, x):
        return any(x is y for y in self.items)

    def __bool__(self):
        return bool(self.items)


class _ConstShimType:
    """amaranth.sim._async.Const during symbolic runs: Const.cast(v).value is v for every int v (checked by C10)."""
    class _Box:
        def __init__(self, v):
            self.value = v

    def cast(self, v):
        if is_sym(v):
            return self._Box(v)
        return Const.cast(v)

    def __call__(self, *a, **k):
        return Const(*a, **k)


_ConstShim = _ConstShimType()


def period_fs(fs):
    """A Period holding an (optionally symbolic) integer number of femtoseconds (the float arithmetic of Period(...) is outside the claim)."""
    p = object.__new__(Period)
    p._femtoseconds = fs
    return p


class Harness:
    """The real PySimEngine (H state classes, interpreted RTL processes) with real clock processes, real AsyncProcess
    testbenches / processes, and injectable iteration orders."""
    def __init__(self, m):
        with warnings.catch_warnings():
            warnings.simplefilter("ignore")
            self.sim = symsim.SymSim(m)
        self.engine = self.sim.engine
        self.extra = []
        # the public front end (amaranth.sim.core.Simulator) over this engine: add_clock / add_process / add_testbench /
        # advance below are the genuine methods
        from amaranth.sim.core import Simulator
        self.front = object.__new__(Simulator)
        self.front._design = self.sim.design
        self.front._engine = self.engine
        self.front._clocked = set()
        self.front._running = False

    def reset(self):
        """Simulator.reset(), plus removal of the trigger wakers earlier runs left on the signal slots (the engine drops
        them lazily, the next time they fire; a re-execution must start from the same waker lists as the first run)."""
        self.front.reset()
        self.sim.interp.effects.clear()
        self.sim.interp.raised.clear()
        for s in self.engine._state.slots:
            s.wakers[:] = [w for w in s.wakers if "_PyTriggerState" not in getattr(w, "__qualname__", "")]

    def declare(self, *signals):
        """Give signals that only processes / testbenches use a slot now, so that every run names and orders them alike."""
        for sg in signals:
            self.engine._state.get_signal(sg)

    def add_clock(self, domain, phase, period):
        """phase / period: femtoseconds (ints or proxies), or None for the default phase."""
        before = list(self.engine._processes)
        with warnings.catch_warnings():
            warnings.simplefilter("ignore")
            self.front.add_clock(period_fs(period), phase=None if phase is None else period_fs(phase), domain=domain)
        self.extra += [p for p in self.engine._processes if not any(p is q for q in before)]

    def add_process(self, fn):
        before = list(self.engine._processes)
        with warnings.catch_warnings():
            warnings.simplefilter("ignore")
            self.front.add_process(fn)
        self.extra += [p for p in self.engine._processes if not any(p is q for q in before)]

    def add_testbench(self, fn, background=False):
        with warnings.catch_warnings():
            warnings.simplefilter("ignore")
            self.front.add_testbench(fn, background=background)

    def all_processes(self):
        return list(self.sim.processes) + list(self.extra)

    def install_order(self, perm, reverse_sets=False):
        procs = self.all_processes()
        assert sorted(perm) == list(range(len(procs)))
        self.engine._processes = OrderedSet([procs[i] for i in perm])
        pend = OrderedSet(key=lambda s: next(i for i, t in enumerate(self.engine._state.slots) if t is s), reverse=reverse_sets)
        self.engine._state.pending = pend
        for s in self.engine._state.slots:
            s.pending = pend
        self.engine._active_triggers = OrderedSet(reverse=reverse_sets)

    def run(self, limit=200):
        n = 0
        with warnings.catch_warnings():
            warnings.simplefilter("ignore")
            while self.front.advance() and n < limit:
                n += 1
        return n


def mem_after(slot):
    """Rows of an HMemoryState after its queued writes (same fold as its commit)."""
    rows = []
    for i in range(slot.memory.depth):
        new = slot.data[i]
        for (addr, value, mask) in slot.write_queue:
            hit = (addr == i)
            if hit is False:
                continue
            v = value if mask is None else ((value & mask) | (new & ~mask))
            new = sym_ite(hit, slot._norm(v), new)
        rows.append(new)
    return rows


def neq_terms(a, b, w=64):
    """z3 term 'a != b' for int-likes, or True/False."""
    ne = (a != b)
    if ne is True or ne is False:
        return ne
    return bool_term(ne)


# ---------------------------------------------------------------------------------------- part A: pairwise commutativity
def pair_designs(tier, seed):
    from checks import c04
    r = random.Random(seed)
    out = []
    for k in range(8 if tier == "quick" else 80):
        out.append({"family": "split", "seed": seed * 100 + k, "kind": ["sync+comb", "comb+sync", "two-domains", "two-modules"][k % 4], "async": k % 8 >= 4, "edge": "neg" if k % 3 == 0 else "pos"})
    from checks import c03
    for k in range(4 if tier == "quick" else 40):
        nd = 2
        out.append({"family": "multi", "seeds": [seed * 1000 + 700 + 3 * k + j for j in range(nd)], "kinds": [r.randrange(len(c03.DOMAIN_KINDS)) for _ in range(nd)]})
    from vlib.gen import stmts as S
    g = S.Programs(seed + 5, W=3, nest=2)
    for k in range(6 if tier == "quick" else 60):
        out.append({"family": "stmts", "prog": g.gen(), "split": seed * 31 + k + 1, "async_reset": k % 2 == 1, "clk_edge": "pos"})
    out.append({"family": "c08-memory", "shared_clock": False})
    out.append({"family": "c08-memory", "shared_clock": True})
    return out


def design_two_domain_memory(spec):
    """A memory written from two clock domains and read transparently: processes of different domains share state."""
    m = Module()
    a, b = ClockDomain("a"), ClockDomain("b")
    m.domains += [a, b]
    m.submodules.mem = mem = Memory(shape=4, depth=4, init=[1, 2, 3, 4])
    wa = mem.write_port(domain="a")
    wb = mem.write_port(domain="a" if spec["shared_clock"] else "b")
    rp = mem.read_port(domain="comb")
    ins = []
    for nm, port in (("wa", wa), ("wb", wb)):
        ad, da, en = Signal(2, name=nm + "_addr"), Signal(4, name=nm + "_data"), Signal(name=nm + "_en")
        m.d.comb += [port.addr.eq(ad), port.data.eq(da), port.en.eq(en)]
        ins += [ad, da, en]
    ra, rd = Signal(2, name="ra"), Signal(4, name="rd")
    m.d.comb += [rp.addr.eq(ra), rd.eq(rp.data)]
    return m, [a.clk, a.rst, b.clk, b.rst] + ins + [ra], [rd], "memory(4x4) with write ports in domains a and " + ("a" if spec["shared_clock"] else "b") + ", comb read port"


def pair_job(job):
    from checks import c04
    spec = job["spec"]
    base = {"id": job["id"], "nontrivial": True, "kind": "pairwise commutativity", "symbolic": "every signal and memory row (arbitrary state)",
            "assertion": "running two processes of the design in either order leaves the same queued next values and memory writes"}
    try:
        with warnings.catch_warnings():
            warnings.simplefilter("ignore")
            if spec["family"] == "c08-memory":
                top, ins, outs, text = design_two_domain_memory(spec)
            else:
                top, ins, outs, text = c04.BUILDERS[spec["family"]](spec)
            sim = symsim.SymSim(top)
    except Exception as ex:
        return [dict(base, program="", kind="unconstructible", status="skipped", detail=f"{type(ex).__name__}: {ex}")]
    base["program"] = f"[{spec['family']}] {text}"
    procs = [p for p in sim.processes if isinstance(p, PyRTLProcess)]
    if len(procs) < 2:
        return [dict(base, kind="unconstructible", status="skipped", detail="fewer than two processes")]
    slots = list(sim.state.slots)
    enabling = enabling_levels(sim, procs)

    def run_pair(order):
        def scen():
            sim.reset()
            for i, s in enumerate(slots):
                if isinstance(s, symsim._RealSignalState):
                    sg = s.signal
                    v = fresh(f"s{i}_{sg.name}", len(sg), sg.shape().signed) if len(sg) else 0
                    s.curr = s.next = v
                else:
                    w, sgn = s.shape.width, s.shape.signed
                    s.data = [fresh(f"m{i}_{k}", w, sgn) if w else 0 for k in range(s.memory.depth)]
                    s.write_queue = []
            # a clocked process is only runnable in the delta after its edge was committed: its clock (or asynchronous
            # reset) then stands at the active level
            for p in order:
                for (slot, level) in enabling.get(id(p), []):
                    slot.curr = slot.next = level
            for p in order:
                p.run()
            res = []
            for i, s in enumerate(slots):
                if isinstance(s, symsim._RealSignalState):
                    res.append((f"signal {s.signal.name}", s.next))
                else:
                    for k, row in enumerate(mem_after(s)):
                        res.append((f"memory row {k}", row))
            return res
        return explore(scen, max_paths=64)
    out = []
    pairs = list(itertools.combinations(range(len(procs)), 2))
    bad = None
    nq = 0
    for (i, j) in pairs:
        try:
            pa, pb = run_pair([procs[i], procs[j]]), run_pair([procs[j], procs[i]])
        except (Inconclusive, Unsupported) as e:
            return [dict(base, status=INCONCLUSIVE, detail=f"{type(e).__name__}: {e}")]
        for p in pa:
            for q in pb:
                if p.exc is not None or q.exc is not None:
                    return [dict(base, status=ERROR, detail=f"exception: {p.exc or q.exc}")]
                diffs = []
                for (n1, a), (n2, b) in zip(p.value, q.value):
                    ne = neq_terms(a, b)
                    if ne is True:
                        diffs.append(z3.BoolVal(True))
                    elif ne is not False:
                        diffs.append(ne)
                if not diffs:
                    continue
                s = z3.Solver()
                for c in list(p.pc) + list(q.pc):
                    s.add(c)
                s.add(z3.Or(*diffs))
                nq += 1
                r = timed_check(s)
                if r == z3.unknown:
                    return [dict(base, status=INCONCLUSIVE, detail="solver unknown")]
                if r == z3.sat:
                    mdl = s.model()
                    which = [n1 for (n1, a), (n2, b) in zip(p.value, q.value) if neq_terms(a, b) is not False and
                             (neq_terms(a, b) is True or z3.is_true(mdl.eval(neq_terms(a, b), model_completion=True)))]
                    vals = {str(d): mdl[d].as_long() for d in mdl.decls()}
                    bad = (i, j, which, vals)
                    break
            if bad:
                break
        if bad:
            break
    if bad:
        i, j, which, vals = bad
        rep = replay_pair(spec, i, j, vals)
        if rep:
            fam = spec["family"]
            if fam == "c08-memory" and not spec["shared_clock"] and all(w.startswith("memory row") for w in which):
                fam = "memory-write-collision-across-domains"
            return [dict(base, status=VIOLATION, detail=f"{base['program'][:300]}: processes #{i} and #{j} do not commute: {rep}",
                         signature={"kind": "pair", "family": fam}, replay={"what": "pair", "spec": spec, "i": i, "j": j, "model": vals})]
        return [dict(base, status=UNREPRODUCED, detail=f"processes #{i}/#{j} differ on {which[:3]} symbolically; not reproduced on the real state classes with {vals}")]
    return [dict(base, status=PROVED, pairs=len(pairs), queries=nq)]


def enabling_levels(sim, procs):
    """{id(process): [(signal slot, level)]} from the edge wakers the compiler registered for the process."""
    out = {}
    for s in sim.state.slots:
        if not isinstance(s, symsim._RealSignalState):
            continue
        for w in s.wakers:
            if getattr(w, "__qualname__", "") == "edge_waker.<locals>.waker":
                cells = dict(zip(w.__code__.co_freevars, [c.cell_contents for c in w.__closure__]))
                out.setdefault(id(cells["process"]), []).append((s, cells["polarity"]))
    return out


def replay_pair(spec, i, j, vals):
    """Real state classes, native compiled processes, plain ints: run the two processes in both orders, commit, compare."""
    from checks import c04
    results = []
    for order in ((i, j), (j, i)):
        with symsim.real_states(), warnings.catch_warnings():
            warnings.simplefilter("ignore")
            if spec["family"] == "c08-memory":
                top, ins, outs, text = design_two_domain_memory(spec)
            else:
                top, ins, outs, text = c04.BUILDERS[spec["family"]](spec)
            sim = symsim.SymSim(top, merge=False, hstate=False)
            procs = [p for p in sim.processes if isinstance(p, PyRTLProcess)]
            slots = list(sim.state.slots)
            for k, s in enumerate(slots):
                if isinstance(s, symsim._RealSignalState):
                    sg = s.signal
                    v = vals.get(f"s{k}_{sg.name}", 0)
                    if sg.shape().signed and v >= 1 << (len(sg) - 1):
                        v -= 1 << len(sg)
                    s.curr = s.next = v
                else:
                    rows = []
                    for a in range(s.memory.depth):
                        v = vals.get(f"m{k}_{a}", 0)
                        if s.shape.signed and v >= 1 << (s.shape.width - 1):
                            v -= 1 << s.shape.width
                        rows.append(v)
                    s.data = rows
                    s.write_queue = {}
            for k in order:
                for (slot, level) in enabling_levels(sim, procs).get(id(procs[k]), []):
                    slot.curr = slot.next = level
            for k in order:
                procs[k].run()
            sim.state.commit()
            snap = {}
            for k, s in enumerate(slots):
                if isinstance(s, symsim._RealSignalState):
                    snap[f"signal {s.signal.name}"] = s.curr
                else:
                    for a, row in enumerate(s.data):
                        snap[f"memory row {a}"] = row
            results.append(snap)
    diff = {k: (results[0][k], results[1][k]) for k in results[0] if results[0][k] != results[1][k]}
    return (f"after commit {diff} (first order, second order) from state {vals}") if diff else ""


# ---------------------------------------------------------------------------------------- part B/C: whole-engine runs under injected orders
def gen_script(r, tb, n_ops, allow_changed):
    """A testbench script: list of operations over the signals of the generated scenario."""
    ops = []
    for k in range(n_ops):
        c = r.random()
        if c < 0.08:
            ops.append(["setslice", r.choice(["a", "p"]), r.choice([[0, 1], [1, 3], [0, 2]]), f"s{tb}_{k}"])
        elif c < 0.25:
            nm = r.choice(["a", "b"])
            ops.append(["set", nm, f"s{tb}_{k}"])
        elif c < 0.45:
            ops.append(["get", r.choice(["y", "z", "o", "r1", "r2", "q", "w", "p", "p"])])
        elif c < 0.7:
            ops.append(["tick", r.choice(["sync", "d2"]), r.sample(["r1", "r2", "y", "q", "a"], r.randint(0, 2))])
        elif c < 0.82:
            ops.append(["delay", r.choice([125, 250, 500, 1000])])
        elif c < 0.92 or not allow_changed:
            ops.append(["edge", r.choice(["sync", "d2"]), r.choice([0, 1])])
        else:
            ops.append(["changed", r.choice(["y", "r2", "z"])])
    return ops


def show_script(ops):
    out = []
    for op in ops:
        if op[0] == "set":
            out.append(f"set({op[1]}, {op[2]})")
        elif op[0] == "setslice":
            out.append(f"set({op[1]}[{op[2][0]}:{op[2][1]}], {op[3]})")
        elif op[0] == "get":
            out.append(f"get({op[1]})")
        elif op[0] == "tick":
            out.append(f"await tick({op[1]!r}).sample({', '.join(op[2])})")
        elif op[0] == "delay":
            out.append(f"await delay({op[1]} fs)")
        elif op[0] == "edge":
            out.append(f"await edge({op[1]}.clk, {op[2]})")
        else:
            out.append(f"await changed({op[1]})")
    return "; ".join(out)


def build_generated(spec):
    """A seeded scenario: two clock domains with their own phases/periods, a child fragment, optional processes, two
    testbench scripts of set / get / tick+sample / delay / edge / changed operations."""
    r = random.Random(spec["gen"])
    obs = []
    m = Module()
    d2_edge, d2_async = r.choice(["pos", "pos", "neg"]), r.random() < 0.4
    cd, d2 = ClockDomain("sync"), ClockDomain("d2", clk_edge=d2_edge, async_reset=d2_async)
    m.domains += [cd, d2]
    S_ = {n: Signal(w, name=n) for n, w in (("a", 3), ("b", 2), ("r1", 3), ("r2", 3), ("y", 3), ("z", 4), ("o", 4), ("q", 2), ("w", 4), ("p", 4))}
    a, b, r1, r2, y, z, o, q, w = (S_[n] for n in ("a", "b", "r1", "r2", "y", "z", "o", "q", "w"))
    m.d.sync += r1.eq(r1 + a)
    with m.If(b[0]):
        m.d.sync += q.eq(q + 1)
    m.d.d2 += r2.eq(r1 ^ b)
    m.d.comb += y.eq(r1 ^ a)
    child = Module()
    child.d.comb += z.eq(r2 + y)
    m.submodules.child = child
    h = Harness(m)
    h.declare(*S_.values())
    (p1, per1), (p2, per2) = r.choice([(500, 1000), (250, 1000)]), r.choice([(500, 1000), (300, 600), (750, 1000), (250, 1000)])
    h.add_clock(cd, p1, per1)
    h.add_clock(d2, p2, per2)
    text = [f"clocks sync {p1}+k*{per1 // 2} fs, d2 {p2}+k*{per2 // 2} fs ({d2_edge} edge{', asynchronous reset' if d2_async else ''})"]
    if r.random() < 0.7:
        async def adder(ctx):
            async for av, r2v in ctx.changed(a, r2):
                ctx.set(o, av + r2v)
        h.add_process(adder)
        text.append("process o := a + r2 on changed(a, r2)")
    if r.random() < 0.6:
        async def follower(ctx):
            async for clk_edge, rst_value, r1v in ctx.tick("d2").sample(r1):
                if clk_edge:
                    ctx.set(w, r1v + 1)
        h.add_process(follower)
        text.append("process w := r1 + 1 at d2 edges")
    p = S_["p"]
    if r.random() < 0.5:
        # two processes write the two halves of one signal at the same edges
        async def p_low(ctx):
            async for clk_edge, rst_value, r1v in ctx.tick().sample(r1):
                if clk_edge:
                    ctx.set(p[0:2], r1v)

        async def p_high(ctx):
            async for clk_edge, rst_value, qv in ctx.tick().sample(q):
                if clk_edge:
                    ctx.set(p[2:4], qv + 1)
        h.add_process(p_low)
        h.add_process(p_high)
        text.append("processes p[0:2] := r1, p[2:4] := q + 1 at sync edges")
    scripts = [gen_script(r, 0, r.randint(3, 6), False), gen_script(r, 1, r.randint(2, 4), True)]
    if r.random() < 0.5:
        scripts.append([["changed", r.choice(["y", "z"])], ["get", r.choice(["a", "p", "o", "z"])], ["set", "b", "s2_2"], ["changed", "y"], ["get", "a"]])
    values = {}
    for t_, ops in enumerate(scripts):
        for op in ops:
            if op[0] == "set":
                values[op[2]] = fresh(op[2], len(S_[op[1]]), False)
            elif op[0] == "setslice":
                values[op[3]] = fresh(op[3], op[2][1] - op[2][0], False)
    doms = {"sync": cd, "d2": d2}

    clock_of = {"sync": (p1, per1, "pos"), "d2": (p2, per2, d2_edge), None: (p1, per1, "pos")}

    def make(tb, ops):
        async def script(ctx):
            for k, op in enumerate(ops):
                tag = f"tb{tb}.{k} {op[0]}"
                if op[0] == "set":
                    ctx.set(S_[op[1]], values[op[2]])
                elif op[0] == "setslice":
                    ctx.set(S_[op[1]][op[2][0]:op[2][1]], values[op[3]])
                elif op[0] == "get":
                    obs.append((f"{tag}({op[1]})", ctx.get(S_[op[1]])))
                elif op[0] == "tick":
                    res = await ctx.tick(op[1]).sample(*[S_[n] for n in op[2]])
                    for n, v in zip(op[2], res[2:]):
                        obs.append((f"{tag} sample {n}", v))
                    t_now = ctx.elapsed_time().femtoseconds
                    obs.append((f"{tag} time", t_now))
                    ph, per, edge = clock_of[op[1]]
                    obs.append((f"{tag} resumes at an active edge of {op[1]}", (t_now - ph - (0 if edge == "pos" else per // 2)) % per, 0))
                elif op[0] == "delay":
                    await ctx.delay(period_fs(op[1]))
                    obs.append((f"{tag} time", ctx.elapsed_time().femtoseconds))
                elif op[0] == "edge":
                    await ctx.edge(doms[op[1]].clk, op[2])
                    obs.append((f"{tag} time", ctx.elapsed_time().femtoseconds))
                else:
                    before = ctx.get(S_[op[1]])
                    v = await ctx.changed(S_[op[1]])
                    obs.append((f"{tag} value", v[0]))
                    obs.append((f"{tag} resumes only after a change", v[0] != before, True))
                    obs.append((f"{tag} time", ctx.elapsed_time().femtoseconds))
        return script
    order = list(range(len(scripts)))
    r.shuffle(order)                      # the order of adding is the order of running
    for t_ in order:
        h.add_testbench(make(t_, scripts[t_]), background=(t_ != 0))
    text += [f"testbenches added in the order {order}"] + [f"tb{t_}{'' if t_ == 0 else ' (background)'}: " + show_script(sc) for t_, sc in enumerate(scripts)]
    return h, obs, [cd.rst, d2.rst], " | ".join(text)


def build_engine_scenario(name):
    """Returns (harness, obs list, variables dict, description).  The testbench appends ('label', value) or ('label', got, want)."""
    if isinstance(name, dict):
        return build_generated(name)
    obs = []
    if name == "two-domains":
        m = Module()
        cd, d2 = ClockDomain("sync"), ClockDomain("d2")
        m.domains += [cd, d2]
        a = Signal(3, name="a")
        r1, r2, y, z, o = Signal(3, name="r1"), Signal(3, name="r2"), Signal(3, name="y"), Signal(4, name="z"), Signal(4, name="o")
        m.d.sync += r1.eq(r1 + a)
        m.d.d2 += r2.eq(r1)                      # crosses domains: must see the value from before the common edge
        m.d.comb += y.eq(r1 ^ a)
        child = Module()
        child.d.comb += z.eq(r2 + y)
        m.submodules.child = child
        h = Harness(m)
        h.add_clock(cd, 500, 1000)
        h.add_clock(d2, 500, 1000)              # same instants as sync
        x0, x1 = fresh("x0", 3, False), fresh("x1", 3, False)

        async def adder(ctx):                    # replaces a circuit o = a + r2 (simulator guide, "replacing combinational circuits")
            async for av, r2v in ctx.changed(a, r2):
                ctx.set(o, av + r2v)

        async def tb(ctx):
            ctx.set(a, x0)
            r1_0, r2_0 = ctx.get(r1), ctx.get(r2)
            obs.append(("y after set", ctx.get(y), r1_0 ^ x0))
            obs.append(("z after set", ctx.get(z), (r2_0 + (r1_0 ^ x0)) & 15))
            obs.append(("o after set (process)", ctx.get(o), x0 + r2_0))
            _, _, s1, s2 = await ctx.tick().sample(r1, r2)
            obs.append(("tick samples r1 from before the edge", s1, r1_0))
            obs.append(("tick samples r2 from before the edge", s2, r2_0))
            obs.append(("r1 after the edge", ctx.get(r1), (r1_0 + x0) & 7))
            obs.append(("r2 after the common edge is the old r1", ctx.get(r2), r1_0))
            obs.append(("time of the first edge", ctx.elapsed_time().femtoseconds, 500))
            ctx.set(a, x1)
            obs.append(("o follows a and r2", ctx.get(o), x1 + r1_0))
            await ctx.tick("d2")
            obs.append(("r2 after the second edge", ctx.get(r2), (r1_0 + x0) & 7))
            obs.append(("r1 after the second edge", ctx.get(r1), (r1_0 + x0 + x1) & 7))
            obs.append(("time of the second edge", ctx.elapsed_time().femtoseconds, 1500))
        h.add_process(adder)
        h.add_testbench(tb)
        concrete = [cd.rst, d2.rst]
        return h, obs, concrete, "two domains ticking together, child fragment, adder process, testbench set/get/tick/sample"
    if name == "counter-process":
        # simulator guide, "replacing synchronous circuits": a counter as a process, next to the same counter as a circuit
        m = Module()
        cd = ClockDomain("sync")
        m.domains += cd
        en = Signal(name="en")
        count_c = Signal(4, name="count_c")
        count_p = Signal(4, name="count_p")
        with m.If(en):
            m.d.sync += count_c.eq(count_c + 1)
        h = Harness(m)
        h.add_clock(cd, 500, 1000)
        e0, e1, e2 = fresh("e0", 1, False), fresh("e1", 1, False), fresh("e2", 1, False)

        async def counter(ctx):
            value = 0
            async for clk_edge, rst_value, en_value in ctx.tick().sample(en):
                if rst_value:
                    value = 0
                elif clk_edge and en_value:
                    value = (value + 1) & 15
                    ctx.set(count_p, value)

        async def tb(ctx):
            for k, e in enumerate((e0, e1, e2)):
                ctx.set(en, e)
                await ctx.tick()
                obs.append((f"process counter equals circuit counter after edge {k}", ctx.get(count_p), ctx.get(count_c)))
            obs.append(("elapsed", ctx.elapsed_time().femtoseconds, 2500))
        h.add_process(counter)
        h.add_testbench(tb)
        return h, obs, [cd.rst, count_c, count_p], "counter circuit next to the equivalent counter process"
    if name == "two-testbenches":
        m = Module()
        cd = ClockDomain("sync")
        m.domains += cd
        a, r, y = Signal(3, name="a"), Signal(3, name="r"), Signal(3, name="y")
        m.d.sync += r.eq(a)
        m.d.comb += y.eq(r + 1)
        h = Harness(m)
        h.add_clock(cd, 500, 1000)
        x0, x1 = fresh("x0", 3, False), fresh("x1", 3, False)

        async def tb1(ctx):
            ctx.set(a, x0)
            obs.append(("tb1 runs first", len(obs), 0))
            await ctx.tick()
            obs.append(("tb1 sees r", ctx.get(r), x0))
            ctx.set(a, x1)
            await ctx.delay(period_fs(250))
            obs.append(("tb1 after the delay", ctx.elapsed_time().femtoseconds, 750))

        async def tb2(ctx):
            obs.append(("tb2 runs second and sees tb1's write", ctx.get(a), x0))
            await ctx.tick()
            # tb1 (added first) has already written x1 at this instant
            obs.append(("tb2 sees tb1's write made at the same instant", ctx.get(a), x1))
            obs.append(("tb2 sees y settled", ctx.get(y), (x0 + 1) & 7))
            await ctx.negedge(cd.clk)
            obs.append(("negative edge time", ctx.elapsed_time().femtoseconds, 1000))
            obs.append(("r unchanged at the inactive edge", ctx.get(r), x0))
        h.add_testbench(tb1)
        h.add_testbench(tb2)
        return h, obs, [cd.rst], "two testbenches in list order, delay, negedge"
    if name == "partial-sets":
        # two processes write different bit ranges of one signal in the same delta; one process writes two ranges in a row
        m = Module()
        cd = ClockDomain("sync")
        m.domains += cd
        c = Signal(4, name="c")
        shared, twice = Signal(8, name="shared"), Signal(4, name="twice")
        m.d.sync += c.eq(c + 1)
        h = Harness(m)
        h.add_clock(cd, 500, 1000)
        x, y = fresh("x", 2, False), fresh("y", 2, False)

        async def low(ctx):
            async for clk_edge, rst_value, cv in ctx.tick().sample(c):
                if clk_edge:
                    ctx.set(shared[0:4], cv + 1)

        async def high(ctx):
            async for clk_edge, rst_value, cv in ctx.tick().sample(c):
                if clk_edge:
                    ctx.set(shared[4:8], 15 - cv)

        async def both(ctx):
            async for clk_edge, rst_value in ctx.tick():
                if clk_edge:
                    ctx.set(twice[0:2], x)
                    ctx.set(twice[2:4], y)

        async def tb(ctx):
            c0 = ctx.get(c)
            await ctx.tick()
            obs.append(("both halves written in one delta are kept", ctx.get(shared), (((15 - c0) & 15) << 4) | ((c0 + 1) & 15)))
            obs.append(("two partial writes by one process are kept", ctx.get(twice), (y << 2) | x))
        for pr in (low, high, both):
            h.add_process(pr)
        h.add_testbench(tb)
        return h, obs, [cd.rst], "partial ctx.set() of one signal from several processes in one delta"
    if name == "falling-edge-domains":
        # registers clocked on the falling edge, one domain with an asynchronous reset and one with a synchronous reset:
        # tick() resumes after the registers of THAT domain have updated, i.e. at its falling edges
        m = Module()
        da, ds = ClockDomain("da", clk_edge="neg", async_reset=True), ClockDomain("ds", clk_edge="neg")
        m.domains += [da, ds]
        inc = Signal(3, name="inc")
        ca, cs, cp = Signal(3, name="ca"), Signal(3, name="cs"), Signal(3, name="cp")
        m.d.da += ca.eq(ca + inc)
        m.d.ds += cs.eq(cs + inc)
        h = Harness(m)
        h.declare(cp)
        h.add_clock(da, 500, 1000)               # rises at 500, falls at 1000, 2000, ...
        h.add_clock(ds, 500, 1000)
        x0, x1 = fresh("x0", 3, False), fresh("x1", 3, False)

        async def counter(ctx):                  # the da counter as a process (simulator guide, "replacing synchronous circuits")
            async for clk_edge, rst_value, inc_v, cur in ctx.tick("da").sample(inc, cp):
                if rst_value:
                    ctx.set(cp, 0)
                elif clk_edge:
                    ctx.set(cp, cur + inc_v)

        async def tb(ctx):
            ca0, cs0, cp0 = ctx.get(ca), ctx.get(cs), ctx.get(cp)
            ctx.set(inc, x0)
            _, _, s_a = await ctx.tick("da").sample(ca)
            obs.append(("time of the first falling edge (async-reset domain)", ctx.elapsed_time().femtoseconds, 1000))
            obs.append(("tick samples ca from before the edge", s_a, ca0))
            obs.append(("ca after the edge", ctx.get(ca), (ca0 + x0) & 7))
            obs.append(("cs after the common edge", ctx.get(cs), (cs0 + x0) & 7))
            obs.append(("process counter after the edge", ctx.get(cp), (cp0 + x0) & 7))
            ctx.set(inc, x1)
            _, _, s_s = await ctx.tick("ds").sample(cs)
            obs.append(("time of the second falling edge (sync-reset domain)", ctx.elapsed_time().femtoseconds, 2000))
            obs.append(("tick samples cs from before the edge", s_s, (cs0 + x0) & 7))
            obs.append(("cs after the second edge", ctx.get(cs), (cs0 + x0 + x1) & 7))
            obs.append(("ca after the second edge", ctx.get(ca), (ca0 + x0 + x1) & 7))
            obs.append(("process counter after the second edge", ctx.get(cp), (cp0 + x0 + x1) & 7))
            await ctx.posedge(da.clk)
            obs.append(("rising edge time", ctx.elapsed_time().femtoseconds, 2500))
            obs.append(("ca unchanged at the inactive edge", ctx.get(ca), (ca0 + x0 + x1) & 7))
        h.add_process(counter)
        h.add_testbench(tb)
        return h, obs, [da.rst, ds.rst], "falling-edge domains (asynchronous and synchronous reset), counter process, tick/sample"
    if name == "one-shot-changed":
        # `await ctx.changed(x)` as the FIRST thing a testbench / process awaits: it resumes at the first change, not at time zero
        m = Module()
        sig, data, count, echo = Signal(3, name="sig", init=5), Signal(3, name="data"), Signal(3, name="count"), Signal(3, name="echo")
        m.d.comb += echo.eq(sig)
        h = Harness(m)
        h.declare(count, data)
        v = fresh("v", 3, False)

        async def waiter(ctx):
            got, = await ctx.changed(sig)
            obs.append(("waiter resumes at the change", ctx.elapsed_time().femtoseconds, 1000))
            obs.append(("waiter sees the new value", got, v))
            obs.append(("echo has settled", ctx.get(echo), v))

        async def writer(ctx):
            await ctx.delay(period_fs(1000))
            ctx.set(sig, v)
            obs.append(("writer wrote", ctx.get(sig), v))
            await ctx.delay(period_fs(1000))
            ctx.set(data, 1)
            await ctx.delay(period_fs(1000))
            ctx.set(data, 3)
            await ctx.delay(period_fs(500))
            obs.append(("process counted the two changes of data", ctx.get(count), 2))

        async def counter(ctx):
            total = 0
            while True:
                await ctx.changed(data)
                total += 1
                ctx.set(count, total)
        h.add_process(counter)
        h.add_testbench(waiter)
        h.add_testbench(writer)
        return h, obs, [sig, data, count], "one-shot changed() as the first wait of a testbench and of a process"
    if name == "three-testbenches":
        # a testbench woken by an earlier testbench's write runs before the testbenches added after it
        m = Module()
        req, ack, flag = Signal(name="req"), Signal(name="ack"), Signal(3, name="flag")
        m.d.comb += ack.eq(req)
        h = Harness(m)
        v = fresh("v", 3, False)

        async def first(ctx):
            await ctx.delay(period_fs(1000))
            obs.append(("order", "first"))
            ctx.set(req, 1)

        async def second(ctx):
            await ctx.changed(ack)
            obs.append(("order", "second"))
            obs.append(("second runs before third has written", ctx.get(flag), 0))

        async def third(ctx):
            await ctx.delay(period_fs(1000))
            obs.append(("order", "third"))
            ctx.set(flag, v)
        for t_ in (first, second, third):
            h.add_testbench(t_)
        return h, obs, [req, flag], "three testbenches: the second is woken by the first one's write in the same time step"
    raise ValueError(name)


def engine_job(job):
    name = job["scenario"]
    base = {"id": job["id"], "nontrivial": True, "kind": "scheduling orders", "symbolic": "register contents and every value a testbench writes",
            "assertion": "observation traces are equal for every injected iteration order of the process set, the pending set and the trigger set; "
                         "set() settles, tick() samples pre-edge values, later reads see post-edge registers"}
    old_const = _async.Const
    _async.Const = _ConstShim
    try:
        h, obs, concrete, text = build_engine_scenario(name)
        base["program"] = f"{name if isinstance(name, str) else 'generated #' + str(name['gen'])}: {text}"
        n = len(h.all_processes())
        r = random.Random(job.get("seed", 0))
        perms = list(itertools.permutations(range(n))) if n <= 4 else None
        if perms is None:
            perms = [tuple(range(n)), tuple(reversed(range(n)))]
            while len(perms) < job.get("orders", 12):
                p = list(range(n))
                r.shuffle(p)
                if tuple(p) not in perms:
                    perms.append(tuple(p))
        runs = []
        for k, perm in enumerate(perms):
            rev = (k % 2 == 1)

            def scen():
                obs.clear()
                h.reset()
                h.install_order(perm, reverse_sets=rev)
                h.sim.sym_state("v", concrete=concrete)
                h.run()
                return list(obs)
            try:
                paths = explore(scen, max_paths=256)
            except (Inconclusive, Unsupported) as e:
                return [dict(base, status=INCONCLUSIVE, detail=f"{type(e).__name__}: {e}")]
            for p in paths:
                if p.exc is not None:
                    return [dict(base, status=ERROR, detail=f"order {perm}: exception {type(p.exc).__name__}: {p.exc}")]
            runs.append((perm, rev, paths))
    finally:
        _async.Const = old_const
    # (C) the reference order meets the documented values; (B) every other order gives the same trace
    perm0, rev0, paths0 = runs[0]
    nq = 0
    for (perm, rev, paths) in runs:
        for q in paths:
            for p in paths0:
                s = z3.Solver()
                for c in list(p.pc) + list(q.pc):
                    s.add(c)
                if p.pc or q.pc:
                    nq += 1
                    if timed_check(s) != z3.sat:
                        continue
                if len(p.value) != len(q.value) or [o[0] for o in p.value] != [o[0] for o in q.value]:
                    vals = {}
                    if s.check() == z3.sat:
                        mdl = s.model()
                        vals = {str(d): mdl[d].as_long() for d in mdl.decls()}
                    return [_engine_violation(base, job, perm, rev, f"different observation sequence: {[o[0] for o in q.value]} vs {[o[0] for o in p.value]} with {vals}", vals)]
                diffs, labels = [], []
                for o0, o1 in zip(p.value, q.value):
                    ne = neq_terms(o0[1], o1[1])
                    if ne is not False:
                        diffs.append(z3.BoolVal(True) if ne is True else ne)
                        labels.append(o0[0] + " (differs between orders)")
                    if perm is perm0 and len(o0) > 2:
                        ne = neq_terms(o0[1], o0[2])
                        if ne is not False:
                            diffs.append(z3.BoolVal(True) if ne is True else ne)
                            labels.append(o0[0] + " (differs from the documented value)")
                if not diffs:
                    continue
                s.add(z3.Or(*diffs))
                nq += 1
                r_ = timed_check(s)
                if r_ == z3.unknown:
                    return [dict(base, status=INCONCLUSIVE, detail="solver unknown")]
                if r_ == z3.sat:
                    mdl = s.model()
                    which = [l for l, d in zip(labels, diffs) if z3.is_true(mdl.eval(d, model_completion=True))]
                    vals = {str(d): mdl[d].as_long() for d in mdl.decls()}
                    return [_engine_violation(base, job, perm, rev, f"{which[:3]} with {vals}", vals)]
    return [dict(base, status=PROVED, orders=len(runs), processes=n, paths=sum(len(x[2]) for x in runs), queries=nq)]


def _engine_violation(base, job, perm, rev, what, vals=None):
    rep = replay_engine(job["scenario"], perm, rev, vals or {})
    if rep:
        return dict(base, status=VIOLATION, detail=f"{base['program']}: order {perm}{' (reversed sets)' if rev else ''}: {what}; real engine: {rep}",
                    signature={"kind": "engine", "scenario": job["scenario"] if isinstance(job["scenario"], str) else "generated"}, replay={"what": "engine", "scenario": job["scenario"], "perm": list(perm), "rev": rev, "model": vals or {}})
    return dict(base, status=UNREPRODUCED, detail=f"order {perm}: {what}; the real state classes give the documented trace")


def replay_engine(name, perm, rev, vals):
    """The same scenario on the genuine state classes with plain ints, natural and injected orders."""
    import vlib.pysym as P
    saved_fresh = globals()["fresh"]

    def concrete_fresh(nm, w, signed):
        v = vals.get(nm, 1)
        if signed and v >= 1 << (w - 1):
            v -= 1 << w
        return v
    globals()["fresh"] = concrete_fresh
    traces = []
    try:
        for order in (None, perm):
            with symsim.real_states(), warnings.catch_warnings():
                warnings.simplefilter("ignore")
                # a harness on the real classes: SymSim(merge=False, hstate=False) keeps the compiled processes native
                m_h = build_engine_scenario_real(name)
                h, obs, concrete = m_h
                if order is not None:
                    h.install_order(order, reverse_sets=rev)
                h.sim.engine.reset() if False else None
                for s in h.engine._state.slots:
                    if isinstance(s, symsim._RealSignalState):
                        for k, v in vals.items():
                            if k.split("_", 1)[-1] == s.signal.name and k[0] == "v":
                                if s.signal.shape().signed and v >= 1 << (len(s.signal) - 1):
                                    v -= 1 << len(s.signal)
                                s.curr = s.next = v
                h.run()
                traces.append(list(obs))
    finally:
        globals()["fresh"] = saved_fresh
    bad = []
    for t in traces:
        for o in t:
            if len(o) > 2 and o[1] != o[2]:
                bad.append(f"{o[0]}: got {o[1]}, documented {o[2]}")
    if [tuple(o[:2]) for o in traces[0]] != [tuple(o[:2]) for o in traces[1]]:
        bad.append(f"natural order trace {[tuple(o[:2]) for o in traces[0]]} vs injected order {[tuple(o[:2]) for o in traces[1]]}")
    return "; ".join(bad[:3])


def build_engine_scenario_real(name):
    orig = symsim.SymSim

    class RealSim(orig):
        def __init__(self, m):
            super().__init__(m, merge=False, hstate=False)
    symsim.SymSim = RealSim
    try:
        h, obs, concrete, text = build_engine_scenario(name)
    finally:
        symsim.SymSim = orig
    return h, obs, concrete


# ---------------------------------------------------------------------------------------- part D: integer time
def time_job(job):
    base = {"id": job["id"], "nontrivial": True, "kind": "integer time", "program": "clock with symbolic phase and period, testbenches waiting on edges and on symbolic delays",
            "symbolic": "phase, period (even), two delay intervals",
            "assertion": "the k-th toggle of the clock happens at phase + k*period/2; a delay expires exactly interval femtoseconds later; elapsed_time() is exact"}
    B = 1 << 16
    ph, c1 = fresh_range("phase", 0, B)
    hp, c2 = fresh_range("half", 1, B)
    default_phase = False
    if job.get("concrete"):
        # explicit zero phase / default phase through the genuine add_clock (its default is half a period, computed in floats)
        hp, c2 = job["concrete"]["half"], z3.BoolVal(True)
        ph, c1 = job["concrete"]["phase"], z3.BoolVal(True)
        if ph is None:
            default_phase, ph = True, hp
        base["program"] = f"clock of period {2 * hp} fs with " + ("the default phase" if default_phase else f"an explicit phase of {ph} fs")
        base["symbolic"] = "nothing (boundary case of the clock front end)"
        base["nontrivial"] = False
    d1, c3 = fresh_range("d1", 0, B)
    d2, c4 = fresh_range("d2", 1, B)
    K = job.get("toggles", 4)
    # both delays expire no later than the last observed toggle (otherwise the number of clock events before a delay
    # expires, and with it the number of interleavings, is unbounded)
    assume = [c1, c2, c3, c4, bool_term(d1 + d2 <= ph + (K - 1) * hp)]
    m = Module()
    cd = ClockDomain("sync")
    m.domains += cd
    r = Signal(2, name="r")
    m.d.sync += r.eq(r + 1)
    h = Harness(m)
    h.add_clock(cd, None if default_phase else ph, 2 * hp)
    obs = []

    async def edges(ctx):
        for k in range(K):
            await ctx.edge(cd.clk, 1 - k % 2)
            obs.append((f"toggle {k}", ctx.elapsed_time().femtoseconds, ph + k * hp))

    async def delays(ctx):
        await ctx.delay(period_fs(d1))
        obs.append(("first delay", ctx.elapsed_time().femtoseconds, d1))
        await ctx.delay(period_fs(d2))
        obs.append(("second delay", ctx.elapsed_time().femtoseconds, d1 + d2))
    h.add_testbench(edges)
    with_delays = job.get("delays", True)
    if with_delays:
        h.add_testbench(delays)

    def scen():
        obs.clear()
        h.reset()
        h.install_order(tuple(range(len(h.all_processes()))))
        h.run()
        return list(obs)
    try:
        paths = explore(scen, assumptions=assume, max_paths=4096)
    except (Inconclusive, Unsupported) as e:
        return [dict(base, status=INCONCLUSIVE, detail=f"{type(e).__name__}: {e}")]
    nq = 0
    for p in paths:
        if p.exc is not None:
            return [dict(base, status=ERROR, detail=f"exception {type(p.exc).__name__}: {p.exc}")]
        labels = [o[0] for o in p.value]
        want = {f"toggle {k}" for k in range(K)} | ({"first delay", "second delay"} if with_delays else set())
        diffs = []
        if set(labels) != want or len(labels) != len(want):
            diffs = [z3.BoolVal(True)]
        for o in p.value:
            ne = neq_terms(o[1], o[2])
            if ne is not False:
                diffs.append(z3.BoolVal(True) if ne is True else ne)
        if not diffs:
            continue
        s = z3.Solver()
        for c in assume + list(p.pc):
            s.add(c)
        s.add(z3.Or(*diffs))
        nq += 1
        r_ = timed_check(s)
        if r_ == z3.unknown:
            return [dict(base, status=INCONCLUSIVE, detail="solver unknown")]
        if r_ == z3.sat:
            mdl = s.model()
            vals = {k: eval_in_model(mdl, v) for k, v in (("phase", ph), ("half", hp), ("d1", d1), ("d2", d2))}
            vals["default_phase"] = default_phase
            rep = replay_time(vals, K)
            if rep:
                return [dict(base, status=VIOLATION, detail=f"phase={vals['phase']} period={2 * vals['half']} delays={vals['d1']},{vals['d2']}: {rep}", signature={"kind": "time"},
                             replay={"what": "time", "model": vals, "toggles": K})]
            return [dict(base, status=UNREPRODUCED, detail=f"{vals}: the real simulator keeps exact time")]
    return [dict(base, status=PROVED, paths=len(paths), queries=nq)]


def replay_time(vals, K):
    """The public Simulator API on the genuine classes."""
    from amaranth.sim import Simulator
    bad = []
    with symsim.real_states(), warnings.catch_warnings():
        warnings.simplefilter("ignore")
        m = Module()
        cd = ClockDomain("sync")
        m.domains += cd
        r = Signal(2, name="r")
        m.d.sync += r.eq(r + 1)
        sim = Simulator(m)
        sim.add_clock(Period(fs=2 * vals["half"]), phase=None if vals.get("default_phase") else Period(fs=vals["phase"]))

        async def edges(ctx):
            for k in range(K):
                await ctx.edge(cd.clk, 1 - k % 2)
                t = ctx.elapsed_time().femtoseconds
                if t != vals["phase"] + k * vals["half"]:
                    bad.append(f"toggle {k} at {t} fs, expected {vals['phase'] + k * vals['half']}")

        async def delays(ctx):
            await ctx.delay(Period(fs=vals["d1"]))
            if ctx.elapsed_time().femtoseconds != vals["d1"]:
                bad.append(f"first delay resumed at {ctx.elapsed_time().femtoseconds}")
            await ctx.delay(Period(fs=vals["d2"]))
            if ctx.elapsed_time().femtoseconds != vals["d1"] + vals["d2"]:
                bad.append(f"second delay resumed at {ctx.elapsed_time().femtoseconds}")
        sim.add_testbench(edges)
        sim.add_testbench(delays)
        sim.run()
    return "; ".join(bad[:3])


def hstate_job(job):
    """The two-phase update of the genuine state classes against the model the symbolic runs use."""
    from vlib import hstate_proof
    res = []
    for spec in hstate_proof.all_obligations("quick"):
        res += hstate_proof.run_one({"spec": spec})
    # commit(): the genuine class publishes next as curr, reports "changed" and fires the wakers exactly when curr != next
    for (w, sgn) in ((3, False), (2, True)):
        sig = Signal(Shape(w, sgn))
        cur, nxt = fresh("cur", w, sgn), fresh("nxt", w, sgn)
        r = {"id": f"hstate-commit-{'s' if sgn else 'u'}{w}", "kind": "stub-equivalence", "nontrivial": True, "program": f"_PySignalState.commit on {'signed' if sgn else 'unsigned'}({w})",
             "assertion": "commit() returns curr != next, sets curr := next, and calls each waker with (old curr, next) iff they differ"}

        def scen():
            calls = []
            real = symsim._RealSignalState(sig, set())
            real.curr, real.next = cur, nxt
            real.add_waker(lambda c, n: calls.append((c, n)) or True)
            ch = real.commit()
            return ch, real.curr, list(calls)
        bad = None
        for p in explore(scen, max_paths=16):
            if p.exc is not None:
                bad = f"exception {p.exc}"
                break
            ch, newcur, calls = p.value
            s = z3.Solver()
            for c in p.pc:
                s.add(c)
            changed = bool_term(cur != nxt)
            wrong = [z3.BoolVal(ch) != changed, bool_term(newcur != nxt) if (newcur != nxt) is not False else z3.BoolVal(False),
                     z3.BoolVal(len(calls) == 1) != changed]
            if calls:
                for got, want in zip(calls[0], (cur, nxt)):
                    ne = neq_terms(got, want)
                    if ne is not False:
                        wrong.append(z3.BoolVal(True) if ne is True else ne)
            s.add(z3.Or(*wrong))
            if timed_check(s) != z3.unsat:
                bad = f"model {s.model() if s.check() == z3.sat else 'unknown'}"
                break
        res.append(dict(r, status=PROVED) if bad is None else dict(r, status=VIOLATION, detail=f"_PySignalState.commit deviates from the two-phase contract: {bad}",
                                                                   signature={"kind": "commit"}, replay={"what": "time", "model": {"phase": 0, "half": 1, "d1": 0, "d2": 1}, "toggles": 2}))
    return res


def job_fn(job):
    w = job["what"]
    if w == "pair":
        return pair_job(job)
    if w == "engine":
        return engine_job(job)
    if w == "time":
        return time_job(job)
    return hstate_job(job)


def replay(path):
    import json
    with open(path) as f:
        d = json.load(f)
    r = d["replay"]
    if r["what"] == "pair":
        x = replay_pair(r["spec"], r["i"], r["j"], r["model"])
    elif r["what"] == "engine":
        x = replay_engine(r["scenario"], tuple(r["perm"]), r["rev"], r["model"])
    else:
        x = replay_time(r["model"], r["toggles"])
    print(x)
    return 1 if x else 0


def main(tier, seed):
    rep = run.Report("C08", "other", tier, seed)
    from vlib.pysym.selfcheck import selfcheck
    rep.extra["pysym_selfcheck_comparisons"] = selfcheck(seed)
    jobs = []
    for i, spec in enumerate(pair_designs(tier, seed)):
        jobs.append({"id": f"pair-{i:04d}", "what": "pair", "spec": spec})
    for name in ("two-domains", "counter-process", "two-testbenches", "partial-sets", "three-testbenches", "falling-edge-domains", "one-shot-changed"):
        jobs.append({"id": f"engine-{name}", "what": "engine", "scenario": name, "seed": seed, "orders": 12 if tier == "quick" else 120})
    for k in range(10 if tier == "quick" else 200):
        jobs.append({"id": f"engine-gen-{k:04d}", "what": "engine", "scenario": {"gen": seed * 1000 + k}, "seed": seed + k, "orders": 8 if tier == "quick" else 24})
    jobs.append({"id": "time-delays", "what": "time", "toggles": 2 if tier == "quick" else 4, "delays": True})
    jobs.append({"id": "time-clock", "what": "time", "toggles": 6 if tier == "quick" else 10, "delays": False})
    jobs.append({"id": "time-zero-phase", "what": "time", "toggles": 4, "delays": False, "concrete": {"phase": 0, "half": 5}})
    jobs.append({"id": "time-default-phase", "what": "time", "toggles": 4, "delays": False, "concrete": {"phase": None, "half": 5}})
    jobs.append({"id": "hstate", "what": "hstate"})
    results, stats = run.run_jobs(job_fn, jobs, chunksize=1)
    skipped = [x for x in results if x.get("status") == "skipped"]
    results = [x for x in results if x.get("status") != "skipped"]
    rep.extra["skipped"] = len(skipped)
    rep.extra["skipped_samples"] = sorted({x["detail"][:120] for x in skipped})[:6]
    rep.add(results, stats)
    rep.source_files = FILES
    rep.functions = ["amaranth.sim.pysim.PySimEngine.step_design / advance / add_clock_process / add_async_process / add_async_testbench",
                     "amaranth.sim.pysim._PyTimeline", "amaranth.sim.pysim._PyTriggerState", "amaranth.sim.pysim._PySignalState / _PyMemoryState (two-phase update, via the state-class proof)",
                     "amaranth.sim._pyclock.PyClockProcess", "amaranth.sim._async.AsyncProcess / TestbenchContext / ProcessContext / TickTrigger / TriggerCombination",
                     "amaranth.sim._pyrtl compiled processes"]
    rep.bounds = {"pair_designs": sum(1 for j in jobs if j["what"] == "pair"), "engine_scenarios": "5 hand-written + 10 (quick) / 200 (thorough) generated (two clock domains with seeded phases/periods, child fragment, up to two processes, two testbench scripts of <= 6 and <= 4 operations)", "orders_per_scenario": "all n! for n <= 4 processes, else identity, reverse and seeded random orders "
                  "(12 quick / 120 thorough), each also with the pending-set and trigger-set orders reversed", "time": "phase, half period, delays < 2**16 fs; clock alone: 6 (quick) / 10 (thorough) toggles; clock with two chained delays: 2 / 4 toggles, both delays expiring no later than the last observed toggle",
                  "outside": "odd periods (the half period is floor(period/2)); float arithmetic inside Period(...); VCD writers; more than three testbenches"}
    rep.stubs = ["HSignalState / HMemoryState (proved equal to the genuine classes by the state-class obligations)", "amaranth.sim._async.Const.cast on proxies (identity on the value)",
                 "Period objects built from integer femtoseconds", "engine containers replaced by ordered sets to inject iteration orders"]
    rep.assumptions = ["period even", "pre-state of the pairwise obligations is arbitrary (next == curr, empty write queues): a superset of the reachable delta-cycle states"]
    rep.rule = "pairs of compiled processes of generated multi-fragment / multi-domain designs; hand-written engine scenarios under injected orders; one timeline obligation"
    rep.explanation = ("Adjacent transpositions generate every permutation, so pairwise commutativity of the processes from an arbitrary state gives order independence of a delta cycle. "
                       "Whole runs of the real engine (clock processes, async processes, testbenches, triggers, timeline) are repeated under injected iteration orders with symbolic data "
                       "and the observation traces compared by z3, together with the documented settle / sample / time values.")
    return rep.finish()
