"""C16 - CRC software and hardware agree with the Williams model for all parameters."""
import random
import warnings

import z3

from vlib import run, symsim
from vlib.run import PROVED, VIOLATION, INCONCLUSIVE, ERROR, UNREPRODUCED
from vlib.pysym import (explore, bool_term, eval_in_model, is_sym, timed_check, sym_not, sym_ite, sym_and, sym_or,
                        fresh, Inconclusive, Unsupported)
from vlib.pysym.interp import Interp

from amaranth.lib import crc as crc_mod
from amaranth.lib.crc import Algorithm, Parameters, Processor, catalog

FILES = ["amaranth/lib/crc/__init__.py", "amaranth/lib/crc/catalog.py", "amaranth/sim/_pyrtl.py"]


def neq_term(a, b):
    if is_sym(a):
        return sym_not(a == b)
    if is_sym(b):
        return sym_not(b == a)
    return a != b


# ------------------------------------------------------------------------- Williams / Rocksoft model
def reflect(v, n):
    r = 0
    for k in range(n):
        r = r | (((v >> k) & 1) << (n - 1 - k))
    return r


def williams_word(reg, word, W, dw, poly, refin):
    """Feed one data word bit-serially into the W-bit register."""
    m = (1 << W) - 1
    order = range(dw) if refin else reversed(range(dw))
    for k in order:
        b = (word >> k) & 1
        top = (reg >> (W - 1)) & 1
        reg = (reg << 1) & m
        reg = sym_ite((top ^ b) != 0, reg ^ poly, reg)
    return reg


def williams_out(reg, W, refout, xorout):
    return (reflect(reg, W) if refout else reg) ^ xorout


def williams(words, W, dw, poly, init, refin, refout, xorout):
    reg = init
    for w in words:
        reg = williams_word(reg, w, W, dw, poly, refin)
    return williams_out(reg, W, refout, xorout)


def make_params(W, dw, poly, init, refin, refout, xorout):
    """A Parameters object built directly (its constructor validates concrete ints only)."""
    p = object.__new__(Parameters)
    p._crc_width, p._polynomial, p._initial_crc = W, poly, init
    p._reflect_input, p._reflect_output, p._xor_output = refin, refout, xorout
    p.data_width = dw
    return p


def resolve(name):
    """A catalogue entry by name, or 'custom:W:poly:init:refin:refout:xor' (arbitrary valid parameter sets)."""
    if name.startswith("custom:"):
        W, poly, init, refin, refout, xo = name[7:].split(":")
        return Algorithm(crc_width=int(W), polynomial=int(poly, 0), initial_crc=int(init, 0), reflect_input=refin == "1", reflect_output=refout == "1", xor_output=int(xo, 0))
    return getattr(catalog, name)


def custom_entries(r, n):
    out = []
    for k in range(n):
        W = [3, 5, 8, 4, 7, 6][k % 6]
        poly = r.randrange(1, 1 << W) | 1
        if k % 3 == 2:
            poly = (poly & ~1) or 2         # no x**0 term: register bits that no state or data bit feeds must clear
        init = r.randrange(0, 1 << W)
        refin, refout = [(False, False), (True, True), (True, False), (False, True)][k % 4]
        xo = r.choice([1, 1 << (W - 1), (1 << (W - 1)) | 2 if W > 2 else 1, r.randrange(0, 1 << W)])      # mostly not bit-palindromic
        if refout and xo == int(format(xo, f"0{W}b")[::-1], 2):
            xo = 1 if W > 1 else xo                                                                     # reflected output: never palindromic
        name = f"custom:{W}:{poly:#x}:{init:#x}:{int(refin)}:{int(refout)}:{xo:#x}"
        out.append((name, resolve(name)))
    for name in ("custom:8:0x6:0xff:0:0:0x0", "custom:6:0x20:0x15:1:1:0x1", "custom:4:0x0:0x9:0:1:0x3")[:max(1, n // 4)]:
        out.append((name, resolve(name)))
    return out


def all_entries():
    out = []
    for name in sorted(dir(catalog)):
        a = resolve(name)
        if isinstance(a, Algorithm):
            out.append((name, a))
    return out


# ------------------------------------------------------------------------- software obligations
def sw_symbolic(job):
    W, dw, n, refin, refout = job["W"], job["dw"], job["n"], job["refin"], job["refout"]
    text = f"Parameters.compute, crc_width={W} data_width={dw} words={n} reflect_input={refin} reflect_output={refout}, symbolic poly/init/xor"
    res = {"id": job["id"], "kind": "software-symbolic-parameters", "program": text, "nontrivial": True,
           "symbolic": f"polynomial, initial_crc, xor_output: {W} bits each; {n} data words of {dw} bits",
           "assertion": "Parameters.compute(words) == bit-serial Williams model"}
    poly, init, xo = fresh("poly", W, False), fresh("init", W, False), fresh("xor", W, False)
    words = [fresh(f"d{k}", dw, False) for k in range(n)]
    params = make_params(W, dw, poly, init, refin, refout, xo)
    interp = Interp(inline_modules={"amaranth.lib.crc"})

    def scen():
        got = interp.call(Parameters.compute, params, list(words))
        want = williams(words, W, dw, poly, init, refin, refout, xo)
        return got, want
    try:
        paths = explore(scen, max_paths=8)
    except (Inconclusive, Unsupported) as e:
        # the code left the subset the symbolic interpreter handles: nothing is proved.  A concrete probe over boundary values may
        # still FIND a reproducing counterexample (it can never make the obligation pass).
        rr = random.Random(W * 1000 + dw * 10 + n)
        pats = lambda bits: [0, 1, (1 << bits) - 1, 1 << (bits - 1), 0x55555555 & ((1 << bits) - 1), 0x01020408 & ((1 << bits) - 1), rr.randrange(1 << bits)]
        for _ in range(300):
            cp, ci, cx = (rr.choice(pats(W)) for _ in range(3))
            cw = [rr.choice(pats(dw)) for _ in range(n)]
            try:
                real = Algorithm(crc_width=W, polynomial=cp, initial_crc=ci, reflect_input=refin, reflect_output=refout, xor_output=cx)(dw).compute(cw)
            except Exception as ex:
                real = f"{type(ex).__name__}: {ex}"
            ref = williams(cw, W, dw, cp, ci, refin, refout, cx)
            if real != ref:
                cex = {"polynomial": cp, "initial_crc": ci, "xor_output": cx, "words": cw, "compute": real, "williams": ref}
                return [dict(res, status=VIOLATION, cex=cex, detail=f"{text}: {cex} (found by the concrete probe; symbolic run: {type(e).__name__}: {e})",
                             signature={"kind": "software", "W": W, "dw": dw}, replay={"what": "sw", "W": W, "dw": dw, "refin": refin, "refout": refout, **cex})]
        return [dict(res, status=INCONCLUSIVE, detail=f"{type(e).__name__}: {e}")]
    for p in paths:
        if p.exc is not None:
            return [dict(res, status=ERROR, detail=f"exception: {type(p.exc).__name__}: {p.exc}")]
        got, want = p.value
        s = z3.Solver()
        s.set("timeout", 300000)
        for c in p.pc:
            s.add(c)
        s.add(bool_term(neq_term(got, want)))
        r = timed_check(s)
        if r == z3.unknown:
            return [dict(res, status=INCONCLUSIVE, detail="solver unknown")]
        if r == z3.sat:
            mdl = s.model()
            ev = lambda x: eval_in_model(mdl, x)
            cp, ci, cx, cw = ev(poly), ev(init), ev(xo), [ev(w) for w in words]
            real = Algorithm(crc_width=W, polynomial=cp, initial_crc=ci, reflect_input=refin, reflect_output=refout,
                             xor_output=cx)(dw).compute(cw)
            ref = williams(cw, W, dw, cp, ci, refin, refout, cx)
            cex = {"polynomial": cp, "initial_crc": ci, "xor_output": cx, "words": cw, "compute": real, "williams": ref}
            if real != ref:
                return [dict(res, status=VIOLATION, cex=cex, detail=f"{text}: {cex}", signature={"kind": "software", "W": W, "dw": dw},
                             replay={"what": "sw", "W": W, "dw": dw, "refin": refin, "refout": refout, **cex})]
            return [dict(res, status=UNREPRODUCED, cex=cex, detail=f"did not reproduce: {cex}")]
    return [dict(res, status=PROVED)]


def entry_obligations(job):
    """One catalogue entry: check value, software vs Williams on symbolic data, hardware step, output, match."""
    name, dws = job["name"], job["dws"]
    a = resolve(name)
    W = a.crc_width
    out = []
    base = {"program": (f"catalog.{name} (width {W})" if not name.startswith("custom:") else f"Algorithm({name[7:]})"), "nontrivial": True}
    # published check value (translator validation, concrete)
    got = a(8).compute(b"123456789")
    chk = job.get("check")
    ref = williams(list(b"123456789"), W, 8, a.polynomial, a.initial_crc, a.reflect_input, a.reflect_output, a.xor_output)
    r = dict(base, id=f"{name}-check", kind="check-value", nontrivial=False,
             assertion="compute(b'123456789') == Williams model == published check value")
    if got != ref or (chk is not None and got != chk):
        r.update(status=VIOLATION, detail=f"catalog.{name}: compute gives {got:#x}, Williams model {ref:#x}, published {chk}",
                 signature={"kind": "check-value", "entry": name}, replay={"what": "check", "name": name})
    else:
        r["status"] = PROVED
    out.append(r)
    interp = Interp(inline_modules={"amaranth.lib.crc"})
    for (dw, n) in ((8, 1), (4, 2)):
        words = [fresh(f"d{k}", dw, False) for k in range(n)]
        r = dict(base, id=f"{name}-sw-{dw}x{n}", kind="software-catalogue", symbolic=f"{n} words of {dw} bits",
                 assertion="compute(words) == Williams model for all data")

        def scen():
            return interp.call(Parameters.compute, a(dw), list(words)), \
                williams(words, W, dw, a.polynomial, a.initial_crc, a.reflect_input, a.reflect_output, a.xor_output)
        p, = explore(scen, max_paths=2)
        if p.exc is not None:
            out.append(dict(r, status=ERROR, detail=f"exception: {type(p.exc).__name__}: {p.exc}"))
            continue
        g, w_ = p.value
        s = z3.Solver()
        s.set("timeout", 300000)
        s.add(bool_term(neq_term(g, w_)))
        c = timed_check(s)
        if c == z3.unsat:
            r["status"] = PROVED
        elif c == z3.unknown:
            r.update(status=INCONCLUSIVE, detail="solver unknown")
        else:
            cw = [eval_in_model(s.model(), x) for x in words]
            real, refv = a(dw).compute(cw), williams(cw, W, dw, a.polynomial, a.initial_crc, a.reflect_input, a.reflect_output, a.xor_output)
            if real != refv:
                r.update(status=VIOLATION, detail=f"catalog.{name} data_width={dw} words {cw}: compute {real:#x} != Williams {refv:#x}",
                         signature={"kind": "software", "entry": name}, replay={"what": "swcat", "name": name, "dw": dw, "words": cw})
            else:
                r.update(status=UNREPRODUCED, detail=f"did not reproduce for {cw}")
        out.append(r)
    # hardware
    for dw in dws:
        out.extend(hw_obligations(name, a, dw, base))
    return out


def hw_obligations(name, a, dw, base):
    W = a.crc_width
    out = []
    with warnings.catch_warnings():
        warnings.simplefilter("ignore")
        proc = Processor(a(dw))
        sim = symsim.SymSim(proc)
    crc_reg = [s for s in sim.signals() if s.name == "crc_reg"][0]
    clk, rst = sim.clock_signals[0], sim.reset_signals[0]

    def scen():
        sim.reset()
        sim.sym_state("h", concrete=[rst])
        sim.poke(rst, 0)
        reg0 = sim.value(crc_reg)
        ins = {k: sim.value(getattr(proc, k)) for k in ("data", "valid", "start")}
        sim.settle()
        crc_out, match = sim.value(proc.crc), sim.value(proc.match_detected)
        sim.tick(clk)
        return reg0, ins, crc_out, match, sim.value(crc_reg)
    p, = explore(scen, max_paths=2)
    if p.exc is not None:
        return [dict(base, id=f"{name}-hw-{dw}", kind="hardware-step", status=ERROR, detail=f"exception: {type(p.exc).__name__}: {p.exc}")]
    reg0, ins, crc_out, match, reg1 = p.value
    source = sym_ite(ins["start"] != 0, a.initial_crc, reg0)
    want1 = sym_ite(ins["valid"] != 0, williams_word(source, ins["data"], W, dw, a.polynomial, a.reflect_input),
                    sym_ite(ins["start"] != 0, a.initial_crc, reg0))
    residue = williams([0] * ((W + dw - 1) // dw) if False else [], W, dw, a.polynomial, 0, False, False, 0)
    props = {
        "hardware-step": (neq_term(reg1, want1), "next crc_reg == Williams update of (start ? initial : crc_reg) with data when valid; initial on start alone; else held"),
        "hardware-output": (neq_term(crc_out, williams_out(reg0, W, a.reflect_output, a.xor_output)), "crc output == reflected/xored register"),
        "hardware-match-comparator": (neq_term(match, sym_ite((reflect(reg0, W) if a.reflect_output else reg0) == a(dw).residue(), 1, 0)),
                                      "match_detected == (output-ordered register == residue())"),
    }
    for kind, (ne, text) in props.items():
        r = dict(base, id=f"{name}-{kind}-{dw}", kind=kind, assertion=text, symbolic=f"crc_reg {W} bits, data {dw} bits, valid, start",
                 program=f"Processor(catalog.{name}({dw}))")
        if ne is False:
            r["status"] = PROVED
            out.append(r)
            continue
        s = z3.Solver()
        s.set("timeout", 300000)
        s.add(bool_term(ne))
        c = timed_check(s)
        if c == z3.unsat:
            r["status"] = PROVED
        elif c == z3.unknown:
            r.update(status=INCONCLUSIVE, detail="solver unknown")
        else:
            mdl = s.model()
            ev = lambda x: eval_in_model(mdl, x)
            st = {"crc_reg": ev(reg0), "data": ev(ins["data"]), "valid": ev(ins["valid"]), "start": ev(ins["start"])}
            real = hw_concrete(name, dw, st)
            src = a.initial_crc if st["start"] else st["crc_reg"]
            w1 = williams_word(src, st["data"], W, dw, a.polynomial, a.reflect_input) if st["valid"] else src
            wo = williams_out(st["crc_reg"], W, a.reflect_output, a.xor_output)
            wm = 1 if (reflect(st["crc_reg"], W) if a.reflect_output else st["crc_reg"]) == a(dw).residue() else 0
            if (kind == "hardware-step" and real["crc_reg_after"] != w1) or (kind == "hardware-output" and real["crc"] != wo) or \
                    (kind == "hardware-match-comparator" and real["match_detected"] != wm):
                r.update(status=VIOLATION, detail=f"Processor(catalog.{name}({dw})) {st}: simulator {real}, model next={w1:#x} out={wo:#x} match={wm}",
                         signature={"kind": kind, "entry": name}, replay={"what": "hw", "name": name, "dw": dw, "state": st})
            else:
                r.update(status=UNREPRODUCED, detail=f"did not reproduce: {st} -> {real}")
        out.append(r)
    # match_detected (when the CRC width is a whole number of words)
    if W % dw == 0:
        out.extend(match_obligations(name, a, dw, base))
    return out


def trailer_words(c_reg, W, dw, refin):
    """The CRC in transmission order: register bits highest order first, packed into data words the way
    the input side unpacks them."""
    words = []
    for k in range(W // dw):
        chunk = (c_reg >> (W - (k + 1) * dw)) & ((1 << dw) - 1)     # next dw bits, highest first
        words.append(reflect(chunk, dw) if refin else chunk)
    return words


def match_obligations(name, a, dw, base):
    """Residue algebra on an ARBITRARY register state R (every message leaves some R): feeding R's own CRC
    in transmission order leaves the residue the real `residue()` returns; any other trailer does not."""
    W = a.crc_width
    out = []
    R = fresh("R", W, False)
    xor_reg = reflect(a.xor_output, W) if a.reflect_output else a.xor_output
    own = trailer_words(R ^ xor_reg, W, dw, a.reflect_input)
    res = a(dw).residue()
    res_reg = reflect(res, W) if a.reflect_output else res
    other = [fresh(f"t{k}", dw, False) for k in range(W // dw)]

    def feed(reg, words):
        for w in words:
            reg = williams_word(reg, w, W, dw, a.polynomial, a.reflect_input)
        return reg
    differs = False
    for x, y in zip(own, other):
        differs = sym_or(differs, neq_term(x, y))
    props = {"match-own-trailer": (neq_term(feed(R, own), res_reg), "register after (any message, its own CRC in transmission order) == residue()"),
             "match-other-trailer": (sym_and(differs, sym_not(neq_term(feed(R, other), res_reg))), "no other trailer leaves the residue")}
    if a.polynomial % 2 == 0:
        # without an x**0 term one step of the register is not injective: several trailers lead to the residue (mathematics of the
        # Williams model, not of the implementation), so only "the own trailer matches" is claimed
        del props["match-other-trailer"]
    for kind, (bad, text) in props.items():
        r = dict(base, id=f"{name}-{kind}-{dw}", kind=kind, assertion=text, program=f"catalog.{name}({dw}).residue()",
                 symbolic=f"register state after the message: {W} bits; alternative trailer: {W} bits")
        if bad is False:
            out.append(dict(r, status=PROVED))
            continue
        s = z3.Solver()
        s.set("timeout", 120000)
        s.add(bool_term(bad))
        c = timed_check(s)
        if c == z3.unsat:
            r["status"] = PROVED
        elif c == z3.unknown:
            r.update(status=INCONCLUSIVE, detail="solver unknown")
        else:
            mdl = s.model()
            cR = eval_in_model(mdl, R)
            co = [eval_in_model(mdl, x) for x in other]
            real = match_concrete_state(name, dw, cR, co)
            if (real["own"] != 1) if kind == "match-own-trailer" else (real["other_differs"] and real["other"] != 0):
                r.update(status=VIOLATION, detail=f"Processor(catalog.{name}({dw})) register {cR:#x}: match after own CRC {real['own_trailer']} = "
                         f"{real['own']}, after trailer {co} = {real['other']}", signature={"kind": kind, "entry": name},
                         replay={"what": "match", "name": name, "dw": dw, "reg": cR, "other": co})
            else:
                r.update(status=UNREPRODUCED, detail=f"did not reproduce: register {cR:#x} other {co}: {real}")
        out.append(r)
    return out


# ------------------------------------------------------------------------- concrete replays
def hw_concrete(name, dw, st):
    from amaranth.sim import Simulator, Period
    a = resolve(name)
    with symsim.real_states():
        proc = Processor(a(dw))
        sim = Simulator(proc)
        sim.add_clock(Period(MHz=1))
        out = {}

        async def tb(ctx):
            # load the register through its own interface is not possible: poke the design's register signal
            reg = [s for s in sim._design.fragment.statements["sync"]._lhs_signals()][0]
            ctx.set(reg, st["crc_reg"])
            ctx.set(proc.data, st["data"])
            ctx.set(proc.valid, st["valid"])
            ctx.set(proc.start, st["start"])
            out["crc"] = ctx.get(proc.crc)
            out["match_detected"] = ctx.get(proc.match_detected)
            await ctx.tick()
            out["crc_reg_after"] = ctx.get(reg)
        sim.add_testbench(tb)
        sim.run()
    return out


def match_concrete_state(name, dw, reg, other):
    """Load register value `reg`, feed a trailer, read match_detected on the real simulator."""
    from amaranth.sim import Simulator, Period
    a = resolve(name)
    W = a.crc_width
    xor_reg = reflect(a.xor_output, W) if a.reflect_output else a.xor_output
    own = trailer_words(reg ^ xor_reg, W, dw, a.reflect_input)
    res = {"own_trailer": own, "other_differs": own != list(other)}
    with symsim.real_states():
        for key, trailer in (("own", own), ("other", other)):
            proc = Processor(a(dw))
            sim = Simulator(proc)
            sim.add_clock(Period(MHz=1))

            async def tb(ctx, proc=proc, trailer=trailer, key=key, sim=sim):
                r = [s for s in sim._design.fragment.statements["sync"]._lhs_signals()][0]
                ctx.set(r, reg)
                ctx.set(proc.valid, 1)
                for w in list(trailer):
                    ctx.set(proc.data, w)
                    await ctx.tick()
                ctx.set(proc.valid, 0)
                res[key] = ctx.get(proc.match_detected)
            sim.add_testbench(tb)
            sim.run()
    return res


def match_concrete(name, dw, msg, other):
    from amaranth.sim import Simulator, Period
    a = resolve(name)
    W = a.crc_width
    reg = a.initial_crc
    for w in msg:
        reg = williams_word(reg, w, W, dw, a.polynomial, a.reflect_input)
    xor_reg = reflect(a.xor_output, W) if a.reflect_output else a.xor_output
    own = trailer_words(reg ^ xor_reg, W, dw, a.reflect_input)
    res = {"own_trailer": own, "other_differs": own != list(other)}
    with symsim.real_states():
        for key, trailer in (("own", own), ("other", other)):
            proc = Processor(a(dw))
            sim = Simulator(proc)
            sim.add_clock(Period(MHz=1))

            async def tb(ctx, proc=proc, trailer=trailer, key=key):
                ctx.set(proc.start, 1)
                await ctx.tick()
                ctx.set(proc.start, 0)
                ctx.set(proc.valid, 1)
                for w in list(msg) + list(trailer):
                    ctx.set(proc.data, w)
                    await ctx.tick()
                ctx.set(proc.valid, 0)
                res[key] = ctx.get(proc.match_detected)
            sim.add_testbench(tb)
            sim.run()
    return res


def job_fn(job):
    return sw_symbolic(job) if job["what"] == "sw" else entry_obligations(job)


def replay(path):
    import json
    with open(path) as f:
        d = json.load(f)
    r = d["replay"]
    if r["what"] == "sw":
        real = Algorithm(crc_width=r["W"], polynomial=r["polynomial"], initial_crc=r["initial_crc"], reflect_input=r["refin"],
                         reflect_output=r["refout"], xor_output=r["xor_output"])(r["dw"]).compute(r["words"])
        ref = williams(r["words"], r["W"], r["dw"], r["polynomial"], r["initial_crc"], r["refin"], r["refout"], r["xor_output"])
        print(f"compute {real:#x} Williams {ref:#x}")
        return 1 if real != ref else 0
    if r["what"] == "match" and "reg" in r:
        real = match_concrete_state(r["name"], r["dw"], r["reg"], r["other"])
        print(real)
        return 1 if real["own"] != 1 or (resolve(r["name"]).polynomial % 2 == 1 and real["other_differs"] and real["other"] != 0) else 0
    if r["what"] == "match":
        real = match_concrete(r["name"], r["dw"], r["msg"], r["other"])
        print(real)
        return 1 if real["own"] != 1 or (resolve(r["name"]).polynomial % 2 == 1 and real["other_differs"] and real["other"] != 0) else 0
    if r["what"] == "hw":
        print(hw_concrete(r["name"], r["dw"], r["state"]))
        return 1
    print(r)
    return 1


def main(tier, seed):
    rep = run.Report("C16", "other", tier, seed)
    from vlib.pysym.selfcheck import selfcheck
    rep.extra["pysym_selfcheck_comparisons"] = selfcheck(seed)
    jobs = []
    maxW = 5 if tier == "quick" else 8
    for W in range(1, maxW + 1):
        for dw in (1, 2, 3, 4, 8) if tier == "quick" else range(1, 9):
            for n in (1, 2) if tier == "quick" else (1, 2, 3):
                if n * dw > 16:
                    continue
                for refin in (False, True):
                    for refout in (False, True):
                        if tier == "quick" and (W + dw + n) % 2 and refin != refout:
                            continue
                        jobs.append({"id": f"sw-W{W}-d{dw}-n{n}-{int(refin)}{int(refout)}", "what": "sw", "W": W, "dw": dw, "n": n,
                                     "refin": refin, "refout": refout})
    # words of more than one octet (one word each)
    for W in (3, 8) if tier == "quick" else (1, 3, 5, 8):
        for dw in (16,) if tier == "quick" else (9, 12, 16):
            for refin in (False, True):
                jobs.append({"id": f"sw-W{W}-d{dw}-n1-{int(refin)}{int(W % 2)}", "what": "sw", "W": W, "dw": dw, "n": 1, "refin": refin, "refout": bool(W % 2)})
    nsw = len(jobs)
    entries = all_entries()
    try:
        sys_path_checks = _published_checks()
    except Exception:
        sys_path_checks = {}
    r = random.Random(seed)
    chosen = entries if tier != "quick" else r.sample(entries, 18)
    chosen = list(chosen) + custom_entries(r, 8 if tier == "quick" else 80)
    for name, a in chosen:
        dws = (1, 4, 8, 16) if tier != "quick" else (8, r.choice([1, 4, 16]))
        # z3 does not finish the XOR-network equivalence for 16-bit words on registers wider than 16 bits
        dws = tuple(d for d in dws if d < 16 or a.crc_width <= (8 if tier == "quick" else 16))
        if name.startswith("custom:"):
            # a data width that divides the CRC width (so that the match / residue obligations apply), a narrower and a wider one
            dws = tuple(sorted({1, min(a.crc_width, 8), 8}))
        jobs.append({"id": f"cat-{name}", "what": "entry", "name": name, "dws": dws, "check": sys_path_checks.get(name)})
    results, stats = run.run_jobs(job_fn, jobs)
    rep.add(results, stats)
    # mutation twin: Williams model with the wrong bit order must be refuted
    a = catalog.CRC16_KERMIT if hasattr(catalog, "CRC16_KERMIT") else entries[0][1]
    words = [fresh("d0", 8, False)]
    interp = Interp(inline_modules={"amaranth.lib.crc"})
    try:
        p, = explore(lambda: (interp.call(Parameters.compute, a(8), list(words)),
                              williams(words, a.crc_width, 8, a.polynomial, a.initial_crc, not a.reflect_input, a.reflect_output, a.xor_output)))
        s = z3.Solver()
        s.add(bool_term(neq_term(*p.value)))
        rep.twin("mutation: Williams model with the opposite input reflection must be refuted", s.check() == z3.sat)
    except (Inconclusive, Unsupported) as e:
        rep.twin("mutation: Williams model with the opposite input reflection must be refuted", False, f"compute() is outside the interpreted subset: {e}")
    rep.source_files = FILES
    rep.functions = ["amaranth.lib.crc.Parameters.compute (if-converted from source)", "amaranth.lib.crc.Parameters._reflect",
                     "amaranth.lib.crc.Parameters._matrices", "amaranth.lib.crc.Parameters.residue", "amaranth.lib.crc.Processor.elaborate",
                     "amaranth.sim._pyrtl generated code for the Processor"]
    rep.bounds = {"symbolic_parameter_obligations": nsw, "crc_width": f"1..{maxW} with symbolic polynomial/initial/xor", "data_width": "1..8 (several words), 16 (quick) / 9, 12, 16 (thorough) as single words",
                  "words": "1..3 (<= 16 data bits)", "catalogue_entries": len(chosen), "of": len(entries),
                  "hardware_data_widths": "1,4,8; 16 only for crc_width <= 16 (z3 does not finish the 16-bit XOR-network equivalence above that within 300 s: stated as outside)", "match": "widths <= 32 that are a whole number of words; 1-2 message words",
                  "outside": "crc_width > 8 with symbolic parameters; messages longer than the bound (covered inductively by the step obligation); "
                             "'no other trailer matches' is claimed for odd polynomials only (all catalogue entries; without an x**0 term a register step is not injective)"}
    rep.stubs = ["Parameters objects with symbolic fields are built without running Algorithm.__init__ (validation of concrete ints)",
                 "HSignalState", "if-converting interpreter"]
    rep.assumptions = ["transmission order of the CRC = register bits highest order first, packed into words as the input side unpacks them"]
    rep.rule = "software: one obligation per (crc_width, data_width, word count, reflect flags); catalogue: per entry and data width"
    rep.explanation = ("compute() is executed from its source by the if-converting interpreter with symbolic parameters and data and "
                       "compared by z3 with a bit-serial Williams model; the hardware Processor's compiled simulator code is compared "
                       "with the model's one-word update for all register states (inductive step) and driven over whole codewords.")
    return rep.finish()


def _published_checks():
    import importlib.util
    import os
    p = os.path.join(run.REPO, "tests", "test_lib_crc.py")
    src = open(p).read()
    start = src.index("CRC_CHECKS = {")
    end = src.index("\n}\n", start) + 3
    ns = {}
    exec(src[start:end], ns)
    return {k: v[0] for k, v in ns["CRC_CHECKS"].items()}
