"""C14 - interface signatures, flipping and connect() preserve direction and data flow (data-flow clauses)."""
import itertools
import random
import warnings

import z3

from vlib import run, symsim, refsem
from vlib.run import PROVED, VIOLATION, INCONCLUSIVE, ERROR, UNREPRODUCED
from vlib.pysym import explore, bool_term, is_sym, timed_check, eval_in_model, Inconclusive, Unsupported

from amaranth.hdl import Module, Signal, Shape, Value, Const
from amaranth.lib import wiring, data, enum as aenum
from amaranth.lib.wiring import In, Out, Signature, flipped, connect

FILES = ["amaranth/lib/wiring.py", "amaranth/hdl/_dsl.py", "amaranth/sim/_pyrtl.py"]


# ---------------------------------------------------------------------------------------- signature trees
# spec: ("sig", [(name, "in"|"out", member)]);  member: ("port", shape_spec, init, dims) | ("sub", spec, dims) | ("subf", spec, dims)
#   "subf": the member's description is the FLIPPED signature built from spec (In(sig.flip()) is Out(sig))
# shape_spec: ("u", w) | ("s", w) | ("struct",) | ("enum",) | ("senum",) | ("range", lo, hi)
def gen_sig(r, depth, all_out=False):
    n = r.randint(1, 3)
    members = []
    for k in range(n):
        flow = "out" if all_out else r.choice(["in", "out"])
        dims = r.choice([(), (), (), (2,), (1,), (2, 2), (0,)])
        if depth > 0 and r.random() < 0.4:
            members.append((f"m{k}", flow, ("sub" if all_out or r.random() < 0.7 else "subf", gen_sig(r, depth - 1, all_out), dims)))
        else:
            c = r.random()
            if c < 0.7:
                w = r.randint(0, 4)
                sgn = w > 0 and r.random() < 0.3
                shp = ("s" if sgn else "u", w)
                lo, hi = (-(1 << w - 1), (1 << w - 1) - 1) if sgn else (0, (1 << w) - 1)
                init = r.choice([None, None, r.randint(lo, hi)])
            elif c < 0.8:
                shp, init = ("struct",), r.choice([None, {"a": 1, "b": -1}])
            elif c < 0.88:
                shp, init = ("enum",), r.choice([None, 2])
            elif c < 0.94:
                shp, init = ("senum",), r.choice([None, -2, 1])
            else:
                lo = r.choice([-8, -3, 0, 1])
                hi = lo + r.choice([1, 2, 5, 11])
                shp, init = ("range", lo, hi), r.choice([None, lo, hi - 1])
            members.append((f"m{k}", flow, ("port", shp, init, dims)))
    r.shuffle(members)
    return ("sig", members)


class E3(aenum.Enum, shape=2):
    A = 0
    B = 1
    C = 2


class ES(aenum.Enum, shape=Shape(3, True)):
    N = -2
    Z = 0
    P = 1


ENUMS = {"enum": E3, "senum": ES}
LAYOUT = data.StructLayout({"a": 2, "b": Shape(2, True)})


def shape_of(shp):
    if shp[0] == "u":
        return Shape(shp[1], False)
    if shp[0] == "s":
        return Shape(shp[1], True)
    if shp[0] == "struct":
        return LAYOUT
    if shp[0] == "range":
        return range(shp[1], shp[2])
    return ENUMS[shp[0]]


def build_sig(spec, reverse=False):
    members = {}
    items = list(spec[1])
    if reverse:
        items = items[::-1]
    for name, flow, m in items:
        F = In if flow == "in" else Out
        if m[0] == "port":
            _, shp, init, dims = m
            mem = F(shape_of(shp), init=ENUMS[shp[0]](init) if shp[0] in ENUMS and init is not None else init)
        else:
            kind, sub, dims = m
            mem = F(build_sig(sub, reverse).flip() if kind == "subf" else build_sig(sub, reverse))
        if dims:
            mem = mem.array(*dims)
        members[name] = mem
    return Signature(members)


def show_sig(spec):
    out = []
    for name, flow, m in spec[1]:
        d = "".join(f"[{x}]" for x in m[-1])
        if m[0] == "port":
            shp = m[1]
            st = f"range({shp[1]},{shp[2]})" if shp[0] == "range" else f"{shp[0]}{shp[1]}" if len(shp) > 1 else shp[0]
            out.append(f"{name}: {flow.capitalize()}({st}{'' if m[2] is None else ', init=' + repr(m[2])}){d}")
        else:
            out.append(f"{name}: {flow.capitalize()}({show_sig(m[1])}{'.flip()' if m[0] == 'subf' else ''}){d}")
    return "{" + ", ".join(out) + "}"


def ref_leaves(spec, flip=False, path=()):
    """The reference direction calculus: [(path, 'in'|'out', shape_spec, init)]; an In member flips what is below it."""
    out = []
    for name, flow, m in spec[1]:
        eff = flow if not flip else ("in" if flow == "out" else "out")
        dims = m[-1]
        for idx in itertools.product(*[range(d) for d in dims]):
            p = path + (name,) + idx
            if m[0] == "port":
                out.append((p, eff, m[1], m[2]))
            else:
                out.extend(ref_leaves(m[1], (eff == "in") != (m[0] == "subf"), p))
    return out


def nav(obj, path):
    for k in path:
        obj = getattr(obj, k) if isinstance(k, str) else obj[k]
    return obj


# ---------------------------------------------------------------------------------------- obligations
def make_objects(job):
    """[(name, object, flipped?)] by the job's recipe."""
    spec = job["spec"]
    kind = job["kind"]
    S = build_sig(spec)
    S2 = build_sig(spec, reverse=True)           # an equal signature built separately, members declared in the opposite order
    if kind == "pair":
        return [("p", S.create(path=("p",)), False), ("q", S2.flip().create(path=("q",)), True)]
    if kind == "pair-flipped-object":
        return [("p", S.create(path=("p",)), False), ("q", flipped(S2.create(path=("q",))), True)]
    if kind == "pair-double":
        return [("p", flipped(flipped(S.create(path=("p",)))), False), ("q", S2.flip().flip().flip().create(path=("q",)), True)]
    if kind == "fanout":
        return [("p", S.create(path=("p",)), False), ("q", S2.flip().create(path=("q",)), True), ("r", flipped(S.create(path=("r",))), True)]
    raise ValueError(kind)


def structure_obligation(job, objs):
    """Concrete: flip involution, compliance, flatten visits every leaf once with its effective direction."""
    spec = job["spec"]
    bad = []
    S = build_sig(spec)
    if S.flip().flip() != S or not (S.flip().flip() == S):
        bad.append("S.flip().flip() != S")
    if build_sig(spec, reverse=True) != S:
        bad.append("equal member sets declared in another order compare unequal")
    # one flip reverses every member, so a signature with at least one member differs from its own flip (whichever side the
    # proxy stands on), an object does not comply with the flip of its signature, and two separately built equal signatures
    # stay equal after flipping both
    S2 = build_sig(spec, reverse=True)
    nonempty = len(spec[1]) > 0
    if (S == S.flip()) == nonempty or (S.flip() == S) == nonempty or (S != S.flip()) != nonempty:
        bad.append(f"S == S.flip() is {S == S.flip()}, S.flip() == S is {S.flip() == S} for a signature with {len(spec[1])} members")
    if not (S == S2 and S2 == S and S.flip() == S2.flip()) or (nonempty and (S == S2.flip() or S2.flip() == S)):
        bad.append("equality with a separately built equal signature / its flip is wrong")
    if nonempty and (S.is_compliant(flipped(S.create(path=("o",)))) or S.flip().is_compliant(S.create(path=("o",)))):
        bad.append("an object complies with the flip of its own signature")
    for name, obj, fl in objs:
        sig = obj.signature
        reasons = []
        if not sig.is_compliant(obj, reasons=reasons):
            bad.append(f"{name} created from its signature is not compliant: {reasons[:1]}")
        want = {p: eff for p, eff, shp, init in ref_leaves(spec, fl)}
        seen = {}
        for path, member, value in sig.flatten(obj):
            if path in seen:
                bad.append(f"{name}: leaf {path} visited twice")
            seen[path] = "in" if member.flow == In else "out"
            if value is not nav(obj, path) and not (hasattr(value, "as_value") and Value.cast(value) is Value.cast(nav(obj, path))):
                bad.append(f"{name}: flatten value at {path} is not the attribute")
        if seen != want:
            diff = [p for p in set(seen) | set(want) if seen.get(p) != want.get(p)]
            bad.append(f"{name}: flatten directions differ from the calculus at {sorted(diff, key=str)[:3]}: {[(seen.get(p), want.get(p)) for p in sorted(diff, key=str)[:3]]}")
        if fl:
            plain = {p: ("in" if m.flow == In else "out") for p, m, v in sig.flip().flatten(obj)}
            if any(plain.get(p) == seen.get(p) for p in seen):
                bad.append(f"{name}: flipping once does not reverse every leaf")
    r = {"id": job["id"] + "-structure", "kind": "flip / flatten / compliance", "program": job["text"], "nontrivial": False,
         "assertion": "flip twice is the identity, flip once reverses every leaf, created objects comply, flatten visits each leaf once with its effective direction"}
    if bad:
        return dict(r, status=VIOLATION, detail="; ".join(bad[:3]), signature={"kind": "structure"}, replay={"job": job})
    return dict(r, status=PROVED)


def leaf_signal(v):
    try:
        v = Value.cast(v)
    except Exception:
        return None
    return v


def dataflow_obligation(job, order):
    spec = job["spec"]
    text = job["text"] + f"  connect order {order}"
    base = {"id": job["id"] + "-flow-" + "".join(map(str, order)), "kind": "connect data flow", "program": text, "nontrivial": True,
            "assertion": "after connect(), every input leaf equals the matching output leaf for all values; outputs and unconnected leaves are not driven",
            "symbolic": "every output leaf"}
    with warnings.catch_warnings():
        warnings.simplefilter("ignore")
        objs = make_objects(job)
        m = Module()
        try:
            connect(m, *[objs[i][1] for i in order])
        except Exception as ex:
            return dict(base, status=VIOLATION, detail=f"connect() of compliant interfaces with one output per leaf raised {type(ex).__name__}: {str(ex)[:300]}",
                        signature={"kind": "refused"}, replay={"job": job, "order": list(order)})
        # give every leaf a place in the design so that the simulator knows it
        probe = []
        leaves = {}
        for name, obj, fl in objs:
            for p, eff, shp, init in ref_leaves(spec, fl):
                v = leaf_signal(nav(obj, p))
                leaves[(name, p)] = (v, eff, shp)
                if v is not None and len(v) > 0:
                    probe.append(v)
        sink = Signal(max(1, sum(len(v) for v in probe)), name="sink")
        from amaranth.hdl import Cat
        m.d.comb += sink.eq(Cat(*probe))
        try:
            sim = symsim.SymSim(m)
        except Exception as ex:
            return dict(base, status=VIOLATION, detail=f"the connected design cannot be elaborated: {type(ex).__name__}: {ex}",
                        signature={"kind": "elaboration"}, replay={"job": job, "order": list(order)})

    def driven(v):
        try:
            return sim.comb_mask.get(sim.slot(v), 0)
        except Exception:
            return 0
    wrong = []
    paths_ = sorted({p for (_, p) in leaves}, key=str)
    pairs = []
    for p in paths_:
        outs = [(n, leaves[(n, p)]) for n, _, _ in objs if leaves[(n, p)][1] == "out"]
        ins = [(n, leaves[(n, p)]) for n, _, _ in objs if leaves[(n, p)][1] == "in"]
        if len(outs) > 1:
            return dict(base, status=ERROR, detail=f"generator: several outputs at {p}")
        for n, (v, eff, shp) in outs:
            if v is not None and len(v) and driven(v):
                wrong.append(f"output leaf {n}{list(p)} is driven by connect()")
        for n, (v, eff, shp) in ins:
            if v is None or len(v) == 0:
                continue
            full = (1 << len(v)) - 1
            if outs:
                if driven(v) != full:
                    wrong.append(f"input leaf {n}{list(p)} is not (fully) driven: mask {driven(v):#x}")
                else:
                    pairs.append((n, p, v, outs[0][1][0]))
            elif driven(v):
                wrong.append(f"input leaf {n}{list(p)} without a matching output is driven")
    if wrong:
        return dict(base, status=VIOLATION, detail="; ".join(wrong[:3]), signature={"kind": "drivers"}, replay={"job": job, "order": list(order)})

    def scen():
        sim.reset()
        st = sim.sym_state("v")
        sim.settle()
        return [(n, p, sim.value(vi), sim.value(vo), len(vi)) for n, p, vi, vo in pairs]
    try:
        ps = explore(scen, max_paths=8)
    except (Inconclusive, Unsupported) as e:
        return dict(base, status=INCONCLUSIVE, detail=f"{type(e).__name__}: {e}")
    for pth in ps:
        if pth.exc is not None:
            return dict(base, status=ERROR, detail=f"exception: {type(pth.exc).__name__}: {pth.exc}")
        conds, names = [], []
        for n, p, a, b, w in pth.value:
            ne = refsem.to_unsigned(a, w) != refsem.to_unsigned(b, w)
            if ne is True:
                conds.append(z3.BoolVal(True))
                names.append((n, p))
            elif ne is not False:
                conds.append(bool_term(ne))
                names.append((n, p))
        if not conds:
            continue
        s = z3.Solver()
        for c in pth.pc:
            s.add(c)
        s.add(z3.Or(*conds))
        r = timed_check(s)
        if r == z3.unknown:
            return dict(base, status=INCONCLUSIVE, detail="solver unknown")
        if r == z3.sat:
            mdl = s.model()
            vals = {str(d): mdl[d].as_long() for d in mdl.decls()}
            rep = concrete_flow(job, order, vals)
            if rep:
                return dict(base, status=VIOLATION, detail=f"with {vals}: {rep}", signature={"kind": "flow"}, replay={"job": job, "order": list(order), "model": vals})
            return dict(base, status=UNREPRODUCED, detail=f"{vals} did not reproduce")
    return dict(base, status=PROVED, leaves=len(pairs))


def concrete_flow(job, order, vals):
    """Real simulator: set every output leaf (values from the model, by signal name), read every input leaf."""
    from amaranth.sim import Simulator
    spec = job["spec"]
    wrong = []
    with symsim.real_states(), warnings.catch_warnings():
        warnings.simplefilter("ignore")
        objs = make_objects(job)
        m = Module()
        connect(m, *[objs[i][1] for i in order])
        sim = Simulator(m)

        def val(sig_):
            for k, v in vals.items():
                if k.split("_", 1)[-1] == sig_.name:
                    return v
            return 1

        async def tb(ctx):
            table = {}
            for name, obj, fl in objs:
                for p, eff, shp, init in ref_leaves(spec, fl):
                    v = leaf_signal(nav(obj, p))
                    table[(name, p)] = (v, eff)
                    if eff == "out" and isinstance(v, Signal) and len(v):
                        x = val(v)
                        if v.shape().signed and x >= 1 << len(v) - 1:
                            x -= 1 << len(v)
                        ctx.set(v, x)
            for (name, p), (v, eff) in table.items():
                if eff != "in" or v is None or len(v) == 0:
                    continue
                src = [table[(n2, p)][0] for n2, _, _ in objs if table[(n2, p)][1] == "out"]
                if src and src[0] is not None:
                    a, b = ctx.get(v) & ((1 << len(v)) - 1), ctx.get(src[0]) & ((1 << len(v)) - 1)
                    if a != b:
                        wrong.append(f"input {name}{list(p)} reads {a:#x}, output holds {b:#x}")
        sim.add_testbench(tb)
        sim.run()
    return "; ".join(wrong[:3])


def check_job(job):
    job = dict(job)
    job["text"] = f"{job['kind']}: Signature({show_sig(job['spec'])})"
    out = []
    with warnings.catch_warnings():
        warnings.simplefilter("ignore")
        try:
            objs = make_objects(job)
            out.append(structure_obligation(job, objs))
        except Exception as ex:
            # the generator only produces well-formed signatures: creating, flipping, flattening them must work
            return [{"id": job["id"] + "-structure", "kind": "flip / flatten / compliance", "status": VIOLATION, "program": job["text"], "nontrivial": False,
                     "detail": f"creating / flattening interfaces of a well-formed signature raised {type(ex).__name__}: {str(ex)[:300]}",
                     "signature": {"kind": "structure-exception"}, "replay": {"job": job}}]
    n = len(objs)
    orders = list(itertools.permutations(range(n)))
    for order in orders:
        out.append(dataflow_obligation(job, order))
    if job["kind"] == "pair":
        out.extend(corruption_obligations(job))
        out.extend(object_corruption_obligations(job))
        out.extend(constant_obligations(job))
        out.append(metadata_obligation(job))
    return out


def object_corruption_obligations(job):
    """Concrete: the signatures agree but ONE ELEMENT of the second object is not what its signature says (a signal of another
    width or initial value, also at array indices above 0): connect() must refuse the tuple."""
    spec = job["spec"]
    r = random.Random((run.stable_hash(job["id"]) & 0xffff) + 13)
    out = []
    tops = [(name, flow, m) for (name, flow, m) in spec[1] if m[0] == "port" and m[1][0] in ("u", "s") and all(d > 0 for d in m[3])]
    if not tops:
        return out
    for kind in ("element width", "element initial value", "element constant width"):
        name, flow, m = r.choice(tops)
        _, shp, init, dims = m
        idx = tuple(d - 1 if r.random() < 0.7 else r.randrange(d) for d in dims)      # mostly the LAST element
        base = {"id": f"{job['id']}-objcorrupt-{kind.split()[-1]}", "kind": "ConnectionError on a non-compliant object (concrete)", "nontrivial": False,
                "program": job["text"] + f"  with q.{name}{''.join(f'[{i}]' for i in idx)} replaced by a " +
                           ("constant one bit wider than the member" if kind == "element constant width" else f"signal of another {kind.split(' ', 1)[1]}"),
                "assertion": "connect() raises ConnectionError when an element of an interface object does not comply with its signature, wherever it stands in an array"}
        try:
            with warnings.catch_warnings():
                warnings.simplefilter("ignore")
                p_obj = build_sig(spec).create(path=("p",))
                q_obj = build_sig(spec).create(path=("q",))      # the plain object; it is handed to connect() flipped
                w, sgn = shp[1], shp[0] == "s"
                cur = 0 if init is None else init
                bad = Signal(Shape(w + 1, sgn)) if kind == "element width" else Signal(Shape(max(w, 1), sgn), init=(cur ^ 1) if not sgn else (0 if cur else -1))
                if kind == "element constant width":
                    bad = Const(cur, Shape(w + 1, sgn))           # the right value in a shape of the wrong width
                if kind == "element initial value" and w == 0:
                    continue
                if not idx:
                    setattr(q_obj, name, bad)
                else:
                    lst = getattr(q_obj, name)
                    for i in idx[:-1]:
                        lst = lst[i]
                    lst[idx[-1]] = bad
                m_ = Module()
                try:
                    connect(m_, p_obj, flipped(q_obj))
                    raised = None
                except wiring.ConnectionError as ex:
                    raised = ex
        except Exception as ex:
            out.append(dict(base, status=VIOLATION, detail=f"{base['program']}: raised {type(ex).__name__}: {str(ex)[:200]} instead of ConnectionError",
                            signature={"kind": "object-corruption-exception"}, replay={"job": job}))
            continue
        if raised is None:
            out.append(dict(base, status=VIOLATION, detail=f"{base['program']}: connect() accepted the non-compliant object", signature={"kind": "object-corruption-accepted"},
                            replay={"job": job}))
        else:
            out.append(dict(base, status=PROVED))
    return out


def _raw_init(shp, init):
    if shp[0] == "struct":
        d = init or {}
        return (d.get("a", 0) & 3) | ((d.get("b", 0) & 3) << 2)
    return 0 if init is None else init


def metadata_obligation(job):
    """Concrete: component metadata lists every leaf with its true direction, width, signedness and initial value, and the
    JSON validates against the published schema."""
    spec = job["spec"]
    base = {"id": f"{job['id']}-metadata", "kind": "component metadata (concrete)", "nontrivial": False, "program": job["text"],
            "assertion": "ComponentMetadata.as_json() lists every leaf with effective direction, width, signedness, initial value; it validates against the schema"}
    try:
        with warnings.catch_warnings():
            warnings.simplefilter("ignore")
            S = build_sig(spec)

            class Comp(wiring.Component):
                def __init__(self):
                    super().__init__(S)

                def elaborate(self, platform):
                    return Module()
            js = Comp().metadata.as_json()
            wiring.ComponentMetadata.validate(js)
    except Exception as ex:
        return dict(base, status=VIOLATION, detail=f"{job['text']}: metadata.as_json()/validate raised {type(ex).__name__}: {str(ex)[:300]}",
                    signature={"kind": "metadata-exception"}, replay={"job": job})
    bad = []
    for path, eff, shp, init in ref_leaves(spec, False):
        node = js["interface"]
        try:
            for k in path:
                node = node["members"][k] if isinstance(k, str) else node[k]
        except (KeyError, IndexError, TypeError):
            bad.append(f"{list(path)} missing")
            continue
        sh = shape_of(shp)
        cs = Shape.cast(sh)
        want = {"type": "port", "dir": eff, "width": cs.width, "signed": cs.signed}
        got = {k: node.get(k) for k in want}
        raw = _raw_init(shp, init)
        want_init = raw - (1 << cs.width) if (cs.signed and cs.width and (raw >> (cs.width - 1)) & 1 and raw >= 0) else raw
        if got != want or int(node.get("init", "x") if str(node.get("init", "x")).lstrip("+-").isdigit() else -999999) != want_init:
            bad.append(f"{list(path)}: {dict(got, init=node.get('init'))} vs {dict(want, init=str(want_init))}")
    if bad:
        return dict(base, status=VIOLATION, detail=f"{job['text']}: " + "; ".join(bad[:3]), signature={"kind": "metadata"}, replay={"job": job})
    return dict(base, status=PROVED)


def constant_obligations(job):
    """Concrete (auxiliary tests, not solver claims): constants as port values.  An output constant drives the inputs;
    equal constants on both sides connect without any driver; different constants, or a constant input facing a varying
    output, raise ConnectionError."""
    from amaranth.sim import Simulator
    spec = job["spec"]
    r = random.Random((run.stable_hash(job["id"]) & 0xffff) + 7)
    leaves = [(p, eff, shp) for p, eff, shp, init in ref_leaves(spec, False) if shp[0] in ("u", "s") and shp[1] > 0 and isinstance(p[-1], str)]
    out = []
    if not leaves:
        return out
    path, eff, shp = r.choice(leaves)
    w, sgn = shp[1], shp[0] == "s"
    lo = -(1 << w - 1) if sgn else 0
    c1 = lo + r.randrange(1 << w)
    c2 = lo + (c1 - lo + 1) % (1 << w)

    def set_leaf(obj, value):
        setattr(nav(obj, path[:-1]), path[-1], value)
    for case in ("output constant", "equal constants", "different constants", "constant input, varying output"):
        base = {"id": f"{job['id']}-const-{case.split()[0]}-{case.split()[-1]}", "kind": "constants as port values (concrete)", "nontrivial": False,
                "program": job["text"] + f"  with {case} at {list(path)}",
                "assertion": "an output constant drives the inputs; equal constants need no driver; mismatched constants or a constant input facing a varying output raise ConnectionError"}
        try:
            with warnings.catch_warnings():
                warnings.simplefilter("ignore")
                (_, p_obj, _), (_, q_obj, _) = make_objects(job)
                out_obj, in_obj = (p_obj, q_obj) if eff == "out" else (q_obj, p_obj)
                shape = Shape(w, sgn)
                if case == "output constant":
                    set_leaf(out_obj, Const(c1, shape))
                elif case == "equal constants":
                    set_leaf(out_obj, Const(c1, shape))
                    set_leaf(in_obj, Const(c1, shape))
                elif case == "different constants":
                    set_leaf(out_obj, Const(c1, shape))
                    set_leaf(in_obj, Const(c2, shape))
                else:
                    set_leaf(in_obj, Const(c1, shape))
                m_ = Module()
                try:
                    connect(m_, p_obj, q_obj)
                    raised = None
                except wiring.ConnectionError as ex:
                    raised = ex
                want_error = case in ("different constants", "constant input, varying output")
                problem = None
                if want_error and raised is None:
                    problem = "connect() accepted it"
                elif not want_error and raised is not None:
                    problem = f"connect() raised ConnectionError: {raised}"
                elif case == "output constant":
                    tgt = Value.cast(nav(in_obj, path))
                    got = []
                    with symsim.real_states():
                        sim = Simulator(m_)

                        async def tb(ctx):
                            got.append(ctx.get(tgt))
                        sim.add_testbench(tb)
                        sim.run()
                    if got != [c1]:
                        problem = f"the input leaf reads {got}, the output constant is {c1}"
        except Exception as ex:
            problem = f"raised {type(ex).__name__}: {str(ex)[:200]}"
        if problem:
            out.append(dict(base, status=VIOLATION, detail=f"{base['program']}: {problem}", signature={"kind": "constants", "what": case}, replay={"job": job}))
        else:
            out.append(dict(base, status=PROVED))
    return out


def _port_paths(spec, path=()):
    """Paths (member names only) of all port members, with the member tuple."""
    out = []
    for i, (name, flow, m) in enumerate(spec[1]):
        if m[0] == "port":
            out.append((path + (i,), (name, flow, m)))
        else:
            out.extend(_port_paths(m[1], path + (i,)))
    return out


def _sub_paths(spec, path=(), reachable=True):
    """Paths of all sub-interface members that exist at least once (every enclosing array non-empty), with the member tuple."""
    out = []
    for i, (name, flow, m) in enumerate(spec[1]):
        if m[0] != "port":
            if reachable:
                out.append((path + (i,), (name, flow, m)))
            out.extend(_sub_paths(m[1], path + (i,), reachable and all(d > 0 for d in m[2])))
    return out


def _replace(spec, path, fn):
    """A copy of spec with the member at index path replaced by fn(member) (None removes it)."""
    i = path[0]
    members = list(spec[1])
    name, flow, m = members[i]
    if len(path) == 1:
        new = fn((name, flow, m))
        if new is None:
            del members[i]
        else:
            members[i] = new
    else:
        members[i] = (name, flow, (m[0], _replace(m[1], path[1:], fn), m[2]))
    return ("sig", members)


def _effective_flow(spec, path, flip=False):
    name, flow, m = spec[1][path[0]]
    eff = flow if not flip else ("in" if flow == "out" else "out")
    if len(path) == 1:
        return eff
    return _effective_flow(m[1], path[1:], (eff == "in") != (m[0] == "subf"))


def corruption_obligations(job):
    """Concrete: single-point corruptions of the second interface must make connect() raise ConnectionError.
    (No value is quantified over here: this is an auxiliary structural test, not a solver claim.)"""
    spec = job["spec"]
    r = random.Random(run.stable_hash(job["id"]) & 0xffff)
    ports = [(p, mem) for p, mem in _port_paths(spec) if all(d > 0 for d in mem[2][3])]
    # every enclosing array must be non-empty for the leaf to exist
    out = []
    if not ports:
        return out
    cases = []
    for kind in ("width", "init", "width-both-inputs", "init-both-inputs", "two-outputs", "missing", "dimensions-longer", "dimensions-shorter"):
        path, (name, flow, m) = r.choice(ports)
        shp = m[1]
        if shp[0] not in ("u", "s"):
            continue
        w = shp[1]

        def mut(member, kind=kind, path=path):
            name, flow, m = member
            _, shp, init, dims = m
            eff_p = _effective_flow(spec, path)              # direction on p; q is the flip
            if kind.startswith("width"):
                shp2, init2 = (shp[0], shp[1] + 1), init
            elif kind.startswith("init"):
                cur = 0 if init is None else init
                shp2, init2 = (shp[0], max(shp[1], 1)), (cur ^ 1 if shp[0] == "u" else (0 if cur else -1))
                if shp[1] == 0:
                    return "skip"
            else:
                shp2, init2 = shp, init
            flow2 = flow
            if kind.endswith("both-inputs"):
                # q is flipped as a whole: give the leaf on q the declared flow that makes it an input there too
                flow2 = flow if eff_p == "out" else ("out" if flow == "in" else "in")
                if eff_p == "out":
                    return "skip"                            # p drives this leaf: it cannot be an input on both sides
            if kind == "two-outputs":
                if eff_p != "out":
                    return "skip"
                flow2 = "out" if flow == "in" else "in"
            if kind == "missing":
                return None
            if kind == "dimensions-longer":
                dims = ((dims[0] + 1,) + tuple(dims[1:])) if dims else (1,)
            if kind == "dimensions-shorter":
                if not dims or dims[0] == 0:
                    return "skip"
                dims = (dims[0] - 1,) + tuple(dims[1:])
            return (name, flow2, ("port", shp2, init2, dims))
        probe = mut((name, flow, m))
        if probe == "skip":
            continue
        cases.append((kind, path, mut))
    # arrays of sub-interfaces of different lengths (the element count of a member is part of what must match)
    subs = [(p_, mem) for p_, mem in _sub_paths(spec)]
    for kind in ("sub-dimensions-longer", "sub-dimensions-shorter"):
        if not subs:
            break
        path, (name, flow, m) = r.choice(subs)
        dims = tuple(m[2])
        if kind.endswith("shorter") and (not dims or dims[0] == 0):
            continue
        dims2 = (((dims[0] + 1,) + dims[1:]) if dims else (1,)) if kind.endswith("longer") else ((dims[0] - 1,) + dims[1:])
        cases.append((kind, path, lambda member, dims2=dims2: (member[0], member[1], (member[2][0], member[2][1], dims2))))
    for kind, path, mut in cases:
        base = {"id": f"{job['id']}-corrupt-{kind}", "kind": "ConnectionError on a corrupted tuple (concrete)", "nontrivial": False,
                "program": job["text"] + f"  with the second interface corrupted: {kind} at member path {list(path)}",
                "assertion": "connect() raises ConnectionError for a missing member, a width or initial-value mismatch, two outputs on one leaf, or members whose array dimensions differ"}
        try:
            with warnings.catch_warnings():
                warnings.simplefilter("ignore")
                spec2 = _replace(spec, path, mut)
                p_obj = build_sig(spec).create(path=("p",))
                q_obj = build_sig(spec2).flip().create(path=("q",))
                m_ = Module()
                try:
                    connect(m_, p_obj, q_obj)
                    raised = None
                except wiring.ConnectionError as ex:
                    raised = ex
        except Exception as ex:
            out.append(dict(base, status=VIOLATION, detail=f"{base['program']}: raised {type(ex).__name__}: {str(ex)[:200]} instead of ConnectionError",
                            signature={"kind": "corruption-exception", "what": kind}, replay={"job": job}))
            continue
        if raised is None:
            out.append(dict(base, status=VIOLATION, detail=f"{base['program']}: connect() accepted the corrupted tuple", signature={"kind": "corruption-accepted", "what": kind},
                            replay={"job": job}))
        else:
            out.append(dict(base, status=PROVED))
    return out


def _tup(x):
    return tuple(_tup(y) for y in x) if isinstance(x, list) else x


def _fix(spec):
    """JSON round trip: restore tuples, keep dict initialisers."""
    if isinstance(spec, dict):
        return spec
    if isinstance(spec, list):
        return tuple(_fix(x) for x in spec)
    return spec


def replay(path):
    import json
    with open(path) as f:
        d = json.load(f)
    r = d["replay"]
    job = r["job"]
    job["spec"] = _fix(job["spec"])
    if "model" in r:
        x = concrete_flow(job, r["order"], r["model"])
        print(job.get("text"), r["model"], "->", x)
        return 1 if x else 0
    res = check_job(job)
    for x in res:
        print(x["kind"], x["status"], str(x.get("detail"))[:300])
    return 1 if any(x["status"] == VIOLATION for x in res) else 0


def corner_specs():
    P = ("port",)
    return [
        ("sig", [("a", "out", ("port", ("u", 3), 5, ())), ("b", "in", ("port", ("s", 2), -1, (2,))),
                 ("bus", "in", ("sub", ("sig", [("req", "out", ("port", ("u", 1), None, ())), ("ack", "in", ("port", ("u", 1), None, ())),
                                               ("inner", "in", ("sub", ("sig", [("x", "out", ("port", ("struct",), None, ())), ("y", "in", ("port", ("enum",), 2, ()))]), (2,)))]), ()))]),
        ("sig", [("z", "out", ("port", ("u", 0), None, ())), ("w", "in", ("port", ("u", 4), None, (2, 2))), ("e", "out", ("sub", ("sig", []), ()))]),
        ("sig", [("s", "out", ("sub", ("sig", [("d", "out", ("port", ("s", 4), -3, ())), ("v", "out", ("port", ("u", 1), None, ()))]), (2,)))]),
        # member descriptions that are already-flipped signatures, and signed shapes that are not Shape objects
        ("sig", [("req", "out", ("port", ("u", 1), None, ())),
                 ("sub", "in", ("subf", ("sig", [("data", "out", ("port", ("range", -8, 8), -3, ())), ("ack", "in", ("port", ("senum",), -2, ()))]), ())),
                 ("arr", "out", ("subf", ("sig", [("lvl", "in", ("port", ("senum",), None, ())), ("k", "out", ("port", ("range", 1, 6), None, (2,)))]), (2,)))]),
    ]


def main(tier, seed):
    rep = run.Report("C14", "other", tier, seed)
    from vlib.pysym.selfcheck import selfcheck
    rep.extra["pysym_selfcheck_comparisons"] = selfcheck(seed)
    r = random.Random(seed)
    jobs = []
    i = 0
    for spec in corner_specs():
        for kind in ("pair", "pair-flipped-object", "pair-double"):
            jobs.append({"id": f"corner-{i}", "spec": spec, "kind": kind})
            i += 1
    jobs.append({"id": f"corner-{i}", "spec": corner_specs()[2], "kind": "fanout"})
    n = 120 if tier == "quick" else 3000
    for k in range(n):
        if k % 5 == 4:
            jobs.append({"id": f"sig-{k:05d}", "spec": gen_sig(r, 2, all_out=True), "kind": "fanout"})
        else:
            jobs.append({"id": f"sig-{k:05d}", "spec": gen_sig(r, r.choice([1, 2, 3])), "kind": ["pair", "pair-flipped-object", "pair-double", "pair"][k % 4]})
    results, stats = run.run_jobs(check_job, jobs, chunksize=2)
    skipped = [x for x in results if x.get("status") == "skipped"]
    results = [x for x in results if x.get("status") != "skipped"]
    rep.extra["skipped"] = len(skipped)
    rep.extra["skipped_samples"] = sorted({x["detail"][:120] for x in skipped})[:6]
    rep.add(results, stats)
    # mutation twin: a reference calculus that forgets that In members flip what is below must be refuted by flatten()
    spec = corner_specs()[0]
    naive = {}

    def walk(sp, path):
        for name, flow, m_ in sp[1]:
            for idx in itertools.product(*[range(d) for d in m_[-1]]):
                if m_[0] == "port":
                    naive[path + (name,) + idx] = flow
                else:
                    walk(m_[1], path + (name,) + idx)
    walk(spec, ())
    try:
        S = build_sig(spec)
        real = {p: ("in" if m_.flow == In else "out") for p, m_, v in S.flatten(S.create())}
    except Exception:        # the code under test is broken here; the obligations above report it
        real = None
    rep.twin("mutation: a direction calculus without the flip under In members disagrees with flatten()", real is None or naive != real)
    rep.source_files = FILES
    rep.functions = ["amaranth.lib.wiring.Signature / SignatureMembers / FlippedSignature / FlippedSignatureMembers (flip, flatten, create, is_compliant)",
                     "amaranth.lib.wiring.Member.flip / signature / array", "amaranth.lib.wiring.flipped / FlippedInterface", "amaranth.lib.wiring.connect",
                     "amaranth.sim._pyrtl compiled code of the statements connect() adds"]
    rep.bounds = {"signatures": len(jobs), "depth": "<= 3", "members_per_level": "<= 3", "dimensions": "<= 2 (sizes 0..2)", "port_width": "0..4, signed, struct and enum shapes",
                  "interfaces": "2 (3 for all-output signatures), all argument orders",
                  "outside": "the ConnectionError, constant and metadata clauses are structural facts with no value to quantify over: they are only sampled concretely "
                             "(signature and object corruptions of each kind, four constant placements, metadata of every generated signature), which is a test, not a solver claim"}
    rep.stubs = ["HSignalState", "if-converting interpreter"]
    rep.assumptions = []
    rep.rule = "hand-written corner signatures + seeded random signature trees; interface tuples by flipping signature or object; every argument order"
    rep.explanation = ("The module produced by the real connect() is executed symbolically with every output leaf free; z3 decides that each input leaf equals its output leaf "
                       "for all values, and the learned driver masks show that no output leaf is driven. Directions come from an independent calculus (In flips what is below).")
    return rep.finish()
