"""C20 - Print, Assert and Format match Python formatting at the right instants."""
import contextlib
import copy
import io
import random
import re
import warnings

import z3

from vlib import run, symsim, refsem, refstmt, shims
from vlib.gen import stmts as S
from vlib.gen import expr as G
from vlib.run import PROVED, VIOLATION, INCONCLUSIVE, ERROR, UNREPRODUCED
from vlib.pysym import (explore, fresh, fresh_range, bool_term, sym_not, sym_and, sym_or, sym_ite, is_sym, timed_check, eval_in_model,
                        concretise, branch, FormatToken, Inconclusive, Unsupported, SymBool, mk_bool)

import amaranth.hdl._ast as ast_mod
from amaranth.hdl import Format, Signal, Shape

FILES = ["amaranth/hdl/_ast.py", "amaranth/sim/_pyrtl.py", "amaranth/sim/_pyeval.py", "amaranth/hdl/_dsl.py"]

PRINT_END = "\n"       # Print(*args, sep=" ", end="\n") follows Python's print(); vlib/gen/stmts.py builds Print(Format(...))
# byte strings are LSB first; NUL bytes are padding wherever they stand (Verilog-like), so 0x4100 is "A" as well
STR_GRID = {8: [0x61, 0x00, 0x7e], 16: [0x6261, 0x0061, 0xa9c3, 0x0000, 0x4100], 24: [0x636261, 0x00a9c3, 0x000041]}


# ---------------------------------------------------------------------------------------- part A: programs
def gen_spec(r, w, signed, text=False):
    """A specification from the grammar Format accepts for a value of this shape ('s' only for the concrete text operands)."""
    types = [None, "b", "o", "d", "x", "X"]
    if not signed:
        types.append("c")
        if w in STR_GRID and text:
            types += ["s", "s"]
    t = r.choice(types)
    out = ""
    if t in ("c", "s"):
        if r.random() < 0.5:
            if r.random() < 0.5:
                out += r.choice("*. x0<")
            out += r.choice("<>")
        if r.random() < 0.6:
            out += str(r.choice([1, 2, 3, 7, 10]))
        return out + t
    if r.random() < 0.4:
        if r.random() < 0.5:
            out += r.choice("*. x0<=+-#")
        out += r.choice("<>=")
    if r.random() < 0.4:
        out += r.choice("+- ")
    if r.random() < 0.3:
        out += "#"
    if r.random() < 0.3:
        out += "0"
    if r.random() < 0.6:
        out += str(r.choice([1, 2, 3, 5, 8, 12]))
    if r.random() < 0.25:
        out += "_"
    return out + (t or "")


_WIDTH = re.compile(r"([1-9][0-9]*)_?[bodxXcs]?$")


def inject(prog, r, n_events):
    """Insert tagged Print / Assert / Assume statements of domain sync at random places of the statement tree."""
    prog = copy.deepcopy(prog)
    prog["signals"].update({"t0": [8, False, 0x61, "in"], "t1": [16, False, 0, "in"], "t2": [20, False, 0, "in"]})
    bodies = []

    def collect(stmts):
        bodies.append(stmts)
        for st in stmts:
            if st[0] == "if":
                for c, b in st[1]:
                    collect(b)
                if st[2] is not None:
                    collect(st[2])
            elif st[0] == "switch":
                for p, b in st[2]:
                    collect(b)
            elif st[0] == "fsm":
                for n, b in st[4]:
                    collect(b)
    collect(prog["stmts"])
    # conditions may read inputs, registers and comb signals
    leaves = [["sig", n, w, s] for n, (w, s, init, kind) in prog["signals"].items()]
    small = [x for x in leaves if x[2] <= 4]

    def arg():
        c = r.random()
        if c < 0.6:
            return r.choice(leaves)
        a, b = r.choice(small), r.choice(small)
        return r.choice([["add", a, b], ["neg", a], ["sub", a, b], ["cat", [a, b]], ["as_signed", a] if a[2] else a, ["mul", a, b],
                         ["inv", a], ["as_unsigned", a], ["inv", ["as_unsigned", a]], ["slice", a, None, None, None], ["xor", a, b]])

    def fmt(tag):
        n = r.randint(0, 3)
        manual = n >= 2 and r.random() < 0.3
        fields = []
        for k in range(n):
            a = arg()
            w, sg = shape_of(a)
            spec = gen_spec(r, w, sg, text=(a[0] == "sig" and a[1] in ("t0", "t1")))
            nested = []
            m = _WIDTH.search(spec)
            if m and r.random() < 0.3:
                # the width comes from a nested replacement field (a plain Python integer), possibly with a specification of its own
                digits = m.group(1)
                zero_ok = spec[-1:] not in ("c", "s") and len(digits) == 1 and (m.start() == 0 or spec[m.start() - 1] != "0")
                form = r.choice(["", ":d", ":02d", ":02d"] if zero_ok else ["", ":d"])
                nested.append((["pyint", int(digits)], form))
                spec = spec[:m.start(1)] + "\x00" + spec[m.end(1):]
            fields.append((a, spec, nested))
        args, slots = [], []
        for a, spec, nested in fields:
            i = len(args)
            args.append(a)
            ni = []
            for pa, form in nested:
                ni.append(len(args))
                args.append(pa)
            slots.append((i, ni))
        perm = list(range(len(args)))
        if manual:
            r.shuffle(perm)
            args = [args[perm.index(j)] for j in range(len(args))]
        text = tag
        for (a, spec, nested), (i, ni) in zip(fields, slots):
            for (pa, form), j in zip(nested, ni):
                spec = spec.replace("\x00", "{" + (str(perm[j]) if manual else "") + form + "}", 1)
            text += r.choice(["", " ", "{{", "}}", " v=", "|"])
            text += "{" + (str(perm[i]) if manual else "") + (":" + spec if spec else "") + "}"
        text += r.choice(["", "\n", " end", "}}"])
        return text, args
    for k in range(n_events):
        body = r.choice(bodies)
        pos = r.randint(0, len(body))
        c = r.random()
        tag = f"<{k}>"
        if c < 0.12:
            # Print(*args, sep=..., end=...) as Python's print(): values, strings (also empty ones) and the tag as arguments
            items = [r.choice([arg(), arg(), ["pyint", ""], ["pyint", r.choice(["x", " ", "", "ab"])]]) for _ in range(r.randint(0, 3))]
            items.insert(r.randint(0, len(items)), ["pyint", f"@<{k}>@"])
            sep = r.choice([" ", " ", "", "-", ", "])
            body.insert(pos, ["print", "sync", sep.join(["{}"] * len(items)), items, {"sep": sep, "end": r.choice(["\n", "\n", "", ";\n"])}])
        elif c < 0.55:
            text, args = fmt(tag)
            body.insert(pos, ["print", "sync", text, args])
        else:
            kind = "assert" if c < 0.85 else "assume"
            test = arg()
            text, args = fmt(tag)
            if r.random() < 0.15:
                text, args = tag + r.choice(["left the set {{0, 1}}", "expected {hi, lo} == 0", "{}", "plain", "{0:x}} {"]), None
            body.insert(pos, [kind, "sync", test, text, args])
    return prog


def shape_of(e):
    v, (w, s) = refsem.ref_eval(e, _Zero())
    return w, s


class _Zero(dict):
    def __missing__(self, k):
        return 0


class Exp:
    """Stand-in argument for Python's own str.format on the reference side."""
    def __init__(self, val, w, signed, reg):
        self.val, self.w, self.signed, self.reg = val, w, signed, reg

    def __format__(self, spec):
        if spec.endswith("s"):
            if is_sym(self.val):
                raise Unsupported("symbolic value under an 's' specification")
            b = refsem.to_unsigned(self.val, self.w).to_bytes(self.w // 8, "little")
            return format(bytes(x for x in b if x).decode(), spec[:-1])
        if not is_sym(self.val):
            return format(self.val, spec)
        self.reg.append((self.val, spec))
        return f"\x01<exp#{len(self.reg) - 1}>\x01"


_GOT = re.compile("\x00<symfmt#(\\d+)>\x00")
_EXP = re.compile("\x01<exp#(\\d+)>\x01")


def split_template(text, pat, lookup):
    out, pos = [], 0
    for m in pat.finditer(text):
        if m.start() > pos:
            out.append(text[pos:m.start()])
        out.append(lookup(int(m.group(1))))
        pos = m.end()
    if pos < len(text):
        out.append(text[pos:])
    return out


def got_template(text):
    def look(n):
        t = FormatToken.registry[n]
        return (t.sym, t.spec)
    return split_template(text, _GOT, look)


def expected_text(st, env, reg):
    """Python's str.format applied to the statement's format string and the values in their own shapes."""
    fmt, args = (st[2], st[3]) if st[0] == "print" else (st[3], st[4])
    if args is None:
        return fmt            # a plain string message of Assert / Assume is not a format string
    exps = []
    for a in args:
        if a[0] == "pyint":
            exps.append(a[1])        # a plain Python object: formatted by Python when the statement is built
            continue
        v, (w, s) = refsem.ref_eval(a, env)
        exps.append(Exp(v, w, s, reg))
    return fmt.format(*exps)


def _fold(seq, const_of):
    """Replace holes whose value is the same constant in every state by the text Python gives for it; merge literals."""
    out = []
    for x in seq:
        if not isinstance(x, str):
            c = const_of(x[0])
            if c is not None:
                x = format(c, x[1])
        if isinstance(x, str) and out and isinstance(out[-1], str):
            out[-1] += x
        else:
            out.append(x)
    return out


def _same_rendering(g, e):
    """Two different specification strings that render every value of the operands' range identically (decided by running
    format() over the whole range, which is at most a few thousand integers here) are the same specification."""
    try:
        lo = min(x.lo if is_sym(x) else x for x in (g[0], e[0]))
        hi = max(x.hi if is_sym(x) else x for x in (g[0], e[0]))
        if hi - lo > 1 << 12:
            return False
        return all(format(v, g[1]) == format(v, e[1]) for v in range(lo, hi + 1))
    except (ValueError, AttributeError, TypeError, OverflowError):
        return False


def templates_differ(got, exp_text, reg, const_of=None):
    """None if structurally different (caller decides), else list of z3 terms 'value differs'."""
    exp = split_template(exp_text, _EXP, lambda n: reg[n])
    # normalise: adjacent literals are already merged by construction
    if (len(got) != len(exp) or any(isinstance(g, str) != isinstance(e, str) for g, e in zip(got, exp))) and const_of is not None:
        got, exp = _fold(got, const_of), _fold(exp, const_of)
    if len(got) != len(exp):
        return None
    diffs = []
    for g, e in zip(got, exp):
        if isinstance(g, str) or isinstance(e, str):
            if g != e:
                return None
            continue
        if g[1] != e[1] and not _same_rendering(g, e):
            return None
        ne = (g[0] != e[0])
        if ne is True:
            return None
        if ne is not False:
            diffs.append(bool_term(ne))
    return diffs


def tag_of(text):
    m = re.match(r"<(\d+)>", text) or re.search(r"@<(\d+)>@", text)       # (the second form: the tag is one argument among several)
    return int(m.group(1)) if m else None


def end_of(st):
    """What follows the text of a Print: Python's print() default, or the statement's own `end`."""
    return st[4]["end"] if len(st) > 4 else PRINT_END


def uses_s(prog):
    return "s}" in repr(prog["stmts"])


def check_program(job):
    prog = job["prog"]
    text = S.show(prog)
    base = {"id": job["id"], "program": text, "nontrivial": True}
    built, sim, problem = symsim.construct_or_report(lambda: build_design(prog), base, {"prog": prog, "state": {}, "rst": 0})
    if problem is not None:
        return [problem]
    m, sigs, domains = built
    oracle = refstmt.StmtOracle(prog)
    cd = domains["sync"]
    fsms = prog.get("fsms", {})
    assumptions, fvars = [], {}
    for name, fs in fsms.items():
        v, c = fresh_range(f"fsm_{name}_idx", 0, len(fs["states"]) - 1)
        fvars[name] = v
        assumptions.append(c)
    from checks.c02 import impl_state
    grid = [(0x61, 0x6261), (0x00, 0xa9c3), (0x7e, 0x0061), (0x41, 0x4100)] if uses_s(prog) else [(0x61, 0x6261)]
    results = {k: dict(base, kind=k, assertion=a, status=PROVED, detail="", symbolic="all registers, inputs, FSM states, reset")
               for k, a in (("print", "a Print is emitted at an active edge iff the statement is active; its text is str.format of the user's "
                                      "format string on the operands in their own shapes; nothing is emitted at other instants"),
                            ("assert", "an Assert/Assume raises at an active edge iff it is active and its test is zero; the message is "
                                       "'Assertion violated: ' + the formatted text"))}

    for (t0v, t1v) in grid:
        def scenario():
            sim.reset()
            sim.sym_state("v")
            sim.poke(sigs["t0"], t0v)
            sim.poke(sigs["t1"], t1v)
            env0 = {}
            for name, fs in fsms.items():
                fsm = sigs["fsm:" + name]
                sim.poke(fsm.state, impl_state(fvars[name], fsm, fs["states"]))
                env0["fsm:" + name] = (fvars[name], fs["states"])
            for n, (w, s, init, kind) in prog["signals"].items():
                if kind in ("in", "sync"):
                    env0[n] = sim.value(sigs[n])
            rst = sim.value(cd.rst) if cd.rst is not None else 0
            sim_en = sim.value(sigs["__en"]) if "__en" in sigs else 1
            sim.settle()
            quiet = [(e.kind, e.guard) for e in sim.interp.effects]
            sim.interp.effects.clear()
            sim.tick(cd.clk)
            effects = list(sim.interp.effects)
            sim.interp.effects.clear()
            sim.edge((cd.clk, 0))
            quiet += [(e.kind, e.guard) for e in sim.interp.effects]
            env = oracle.comb(env0)
            events = []
            oracle.step(env, rst=rst, events=events)
            if "__en" in sigs:
                # inside EnableInserter(en): every statement of the domain, Print and Assert included, is active only while en is high
                env0["__en"] = sim_en
                events = [(st_, sym_and(c_, sim_en != 0), e_) for st_, c_, e_ in events]
            return env0, rst, effects, quiet, events
        try:
            paths = explore(scenario, assumptions=assumptions, max_paths=64)
        except (Inconclusive, Unsupported) as e:
            for r in results.values():
                r.update(status=INCONCLUSIVE, detail=f"{type(e).__name__}: {e}")
            break
        for p in paths:
            if p.exc is not None:
                for r in results.values():
                    r.update(status=ERROR, detail=f"exception on path: {type(p.exc).__name__}: {p.exc}")
                break
            env0, rst, effects, quiet, events = p.value

            def const_of(v, p=p):
                """The single value v takes in every state of this path, or None."""
                if not is_sym(v):
                    return v
                so = z3.Solver()
                for c in list(assumptions) + list(p.pc):
                    so.add(c)
                if timed_check(so) != z3.sat:
                    return None
                c0 = eval_in_model(so.model(), v)
                ne = (v != c0)
                if ne is False:
                    return c0
                so.add(bool_term(ne))
                return c0 if timed_check(so) == z3.unsat else None
            bad = {"print": [], "assert": []}      # z3 terms: "something is wrong"
            hard = {"print": [], "assert": []}     # structural mismatches (descriptions)
            for kind_, g in quiet:
                if g is not False:
                    bad["print" if kind_ == "print" else "assert"].append((z3.BoolVal(True) if g is True else bool_term(g), "emission outside an active edge"))
            by_tag = {}
            for e in effects:
                if e.kind == "print":
                    msg, which = e.args[0], "print"
                else:
                    msg, which = str(e.args[1]), "assert"
                    pre = "Assertion violated: " if msg.startswith("Assertion violated: ") else "Assumption violated: "
                    if not msg.startswith(pre):
                        hard["assert"].append(f"unexpected message {msg!r}")
                        continue
                    msg = msg[len(pre):]
                    e = _E(e, pre)
                t = tag_of(msg)
                if t is None:
                    hard[which].append(f"emission without a tag: {msg!r}")
                    continue
                by_tag.setdefault(t, []).append((e, msg))
            seen = set()
            for (st, cond, env) in events:
                which = "print" if st[0] == "print" else "assert"
                fmt_text = st[2] if st[0] == "print" else st[3]
                t = tag_of(fmt_text)
                if t is None:
                    t = next((tag_of(a_[1]) for a_ in ((st[3] if st[0] == "print" else st[4]) or []) if a_[0] == "pyint" and isinstance(a_[1], str) and tag_of(a_[1]) is not None), None)
                seen.add(t)
                if st[0] != "print":
                    tv, _ = refsem.ref_eval(st[2], env)
                    cond = sym_and(cond, tv == 0)
                reg = []
                try:
                    exp_text = expected_text(st, env, reg) + (end_of(st) if st[0] == "print" else "")
                except Unsupported as ex:
                    hard[which].append(f"reference: {ex}")
                    continue
                emitted = by_tag.get(t, [])
                count = 0
                for e, msg in emitted:
                    g = e.guard
                    count = count + sym_ite(g, 1, 0)
                    if st[0] != "print":
                        want_pre = "Assertion violated: " if st[0] == "assert" else "Assumption violated: "
                        if e.pre != want_pre:
                            hard[which].append(f"{st[0]} <{t}> reports {e.pre!r}")
                    d = templates_differ(got_template(msg), exp_text, reg, const_of)
                    if d is None:
                        if g is not False:
                            gt = z3.BoolVal(True) if g is True else bool_term(g)
                            bad[which].append((gt, f"<{t}> text template differs: got {got_template(msg)!r}, expected {exp_text!r}"))     # wrong text whenever it is emitted
                    else:
                        for x in d:
                            bad[which].append((z3.And(bool_term(g), x) if g is not True else x, f"<{t}> operand value differs"))
                ne = (count != sym_ite(cond, 1, 0))
                if ne is True:
                    bad[which].append((z3.BoolVal(True), f"<{t}> emitted {len(emitted)} times"))
                elif ne is not False:
                    bad[which].append((bool_term(ne), f"<{t}> emission count differs from activity"))
            for t, lst in by_tag.items():
                if t not in seen:
                    for e, msg in lst:
                        which = "print" if e.kind == "print" else "assert"
                        if e.guard is not False:
                            bad[which].append((z3.BoolVal(True) if e.guard is True else bool_term(e.guard), f"<{t}> emitted but not expected at all"))
            for which in ("print", "assert"):
                r = results[which]
                if r["status"] != PROVED:
                    continue
                if hard[which]:
                    conds = [z3.BoolVal(True)]
                elif bad[which]:
                    conds = [c_ for c_, _ in bad[which]]
                else:
                    continue
                s = z3.Solver()
                s.set("timeout", 180000)
                for c in assumptions:
                    s.add(c)
                for c in p.pc:
                    s.add(c)
                s.add(z3.Or(*conds))
                res = timed_check(s)
                if res == z3.unknown:
                    r.update(status=INCONCLUSIVE, detail="solver unknown")
                elif res == z3.sat:
                    mdl = s.model()
                    e0 = {k: eval_in_model(mdl, v[0] if isinstance(v, tuple) else v) for k, v in env0.items()}
                    e0["t0"], e0["t1"] = t0v, t1v
                    rv = eval_in_model(mdl, rst)
                    real = concrete_run(prog, e0, rv)
                    want = oracle_concrete(prog, e0, rv)
                    if real != want:
                        r.update(status=VIOLATION, detail=f"state {e0} rst={rv}: simulator output {real!r}, Python formatting at the active statements gives {want!r}"
                                 + (f" [{hard[which][0]}]" if hard[which] else ""),
                                 signature={"kind": which}, replay={"prog": prog, "state": e0, "rst": rv})
                    else:
                        lab = [l_ for c_, l_ in bad[which] if z3.is_true(mdl.eval(c_, model_completion=True))]
                        r.update(status=UNREPRODUCED, detail=f"symbolic disagreement did not reproduce for {e0} rst={rv}: {hard[which][:1]} {lab[:2]}")
    out = list(results.values())
    # translator validation: the whole pipeline on concrete random states, text against text
    rr = random.Random(job.get("vseed", 0))
    mism = []
    # (when the symbolic stage was inconclusive, more concrete states are tried: they can only FIND a reproducing difference)
    for k in range(max(job.get("nconc", 3), 40 if any(x["status"] == INCONCLUSIVE for x in out) else 0)):
        e0 = {}
        for n, (w, s, init, kind) in prog["signals"].items():
            if kind in ("in", "sync"):
                e0[n] = rr.randint(-(1 << w - 1), (1 << w - 1) - 1) if s else rr.randint(0, (1 << w) - 1 if w else 0)
        e0["t0"], e0["t1"] = rr.choice(STR_GRID[8]), rr.choice(STR_GRID[16])
        for name, fs in fsms.items():
            e0["fsm:" + name] = rr.randrange(len(fs["states"]))
        rv = rr.choice([0, 0, 1])
        real, want = concrete_run(prog, e0, rv), oracle_concrete(prog, e0, rv)
        if real != want:
            mism.append((e0, rv, real, want))
    r = dict(base, id=job["id"] + "-conc", kind="concrete text", nontrivial=False, assertion="captured stdout and AssertionError text of the real Simulator equal Python's str.format on sampled states (validates the token comparison)")
    if mism:
        e0, rv, real, want = mism[0]
        out.append(dict(r, status=VIOLATION, detail=f"state {e0} rst={rv}: simulator output {real!r}, expected {want!r}", signature={"kind": "concrete"},
                        replay={"prog": prog, "state": e0, "rst": rv}))
    else:
        out.append(dict(r, status=PROVED))
    return out


class _E:
    def __init__(self, e, pre):
        self.kind, self.guard, self.args, self.pre = e.kind, e.guard, e.args, pre


def build_design(prog):
    """S.build(prog); with prog['wrap_enable'] the design sits inside EnableInserter(en) (the enable is the signal sigs['__en'])."""
    if not prog.get("wrap_enable"):
        return S.build(prog)
    from amaranth.hdl import Module, ClockDomain, EnableInserter
    sigs = {}
    inner, sigs, _ = S.build(prog, define_domain=False, sigs=sigs)
    top = Module()
    cd = ClockDomain("sync")
    top.domains += cd
    en = Signal(1, name="en_wrap")
    sigs["__en"] = en
    top.submodules.wrapped = EnableInserter(en)(inner)
    return top, sigs, {"sync": cd}


def concrete_run(prog, env0, rst, edges=1):
    """Real simulator: stdout and assertion text for one active edge (plus the inactive edge)."""
    from amaranth.sim import Simulator, Period
    buf = io.StringIO()
    err = None
    with symsim.real_states(), warnings.catch_warnings():
        warnings.simplefilter("ignore")
        m, sigs, domains = build_design(prog)
        sim = Simulator(m)
        sim.add_clock(Period(MHz=1))

        async def tb(ctx):
            for n, (w, s, init, kind) in prog["signals"].items():
                if kind in ("in", "sync") and w > 0:
                    ctx.set(sigs[n], env0[n])
            for name, fs in prog.get("fsms", {}).items():
                fsm = sigs["fsm:" + name]
                ctx.set(fsm.state, fsm.encoding[fs["states"][env0["fsm:" + name]]])
            if "__en" in sigs:
                ctx.set(sigs["__en"], env0.get("__en", 1))
            if domains["sync"].rst is not None:
                ctx.set(domains["sync"].rst, rst)
            buf.write("\x02")          # everything before this mark was emitted outside an active edge
            await ctx.tick()
            buf.write("\x03")
            await ctx.delay(Period(us=0.6))   # across the falling edge
        sim.add_testbench(tb)
        with contextlib.redirect_stdout(buf):
            try:
                sim.run()
            except AssertionError as e:
                err = str(e)
            except Exception as e:
                err = f"{type(e).__name__}"
    return {"stdout": buf.getvalue(), "error": err}


def oracle_concrete(prog, env0, rst):
    oracle = refstmt.StmtOracle(prog)
    e0 = dict(env0)
    for name, fs in prog.get("fsms", {}).items():
        e0["fsm:" + name] = (env0["fsm:" + name], fs["states"])
    env = oracle.comb(e0)
    events = []
    oracle.step(env, rst=rst, events=events)
    out, err = "\x02", None
    for st, cond, env_ in events:
        if not cond or (prog.get("wrap_enable") and not env0.get("__en", 1)):
            continue
        try:
            if st[0] == "print":
                out += expected_text(st, env_, []) + end_of(st)
            else:
                tv, _ = refsem.ref_eval(st[2], env_)
                if tv == 0:
                    err = ("Assertion" if st[0] == "assert" else "Assumption") + " violated: " + expected_text(st, env_, [])
                    break
        except AssertionError:
            raise
        except Exception as e:
            err = type(e).__name__
            break
    if err is None:
        out += "\x03"
    return {"stdout": out, "error": err}


# ---------------------------------------------------------------------------------------- part B: grammar
class SymStr:
    """A z3 string term standing for a regex group."""
    def __init__(self, term):
        self.term = term

    def __eq__(self, other):
        if isinstance(other, SymStr):
            return mk_bool(self.term == other.term)
        if isinstance(other, str):
            return mk_bool(self.term == z3.StringVal(other))
        return False

    def __ne__(self, other):
        return sym_not(self.__eq__(other))

    def __bool__(self):
        return branch(z3.Length(self.term) > 0)

    __hash__ = None


def re_of(node):
    """sre parse tree (without groups that matter) -> z3 regex."""
    import re._constants as C
    RS = z3.ReSort(z3.StringSort())
    if isinstance(node, (list,)) or type(node).__name__ == "SubPattern":
        items = [re_of(x) for x in node]
        if not items:
            return z3.Re(z3.StringVal(""))
        return items[0] if len(items) == 1 else z3.Concat(*items)
    op, av = node
    if op is C.LITERAL:
        return z3.Re(z3.StringVal(chr(av)))
    if op is C.ANY:
        return z3.AllChar(RS)
    if op is C.IN:
        alts = []
        for o, a in av:
            if o is C.LITERAL:
                alts.append(z3.Re(z3.StringVal(chr(a))))
            elif o is C.RANGE:
                alts.append(z3.Range(chr(a[0]), chr(a[1])))
            else:
                raise Unsupported(f"regex class item {o}")
        return alts[0] if len(alts) == 1 else z3.Union(*alts)
    if op is C.MAX_REPEAT:
        lo, hi, body = av
        b = re_of(body)
        if (lo, hi) == (0, 1):
            return z3.Option(b)
        if hi is C.MAXREPEAT:
            return z3.Star(b) if lo == 0 else z3.Plus(b) if lo == 1 else z3.Concat(*([b] * lo + [z3.Star(b)]))
        return z3.Loop(b, lo, hi)
    if op is C.SUBPATTERN:
        return re_of(av[3])
    if op is C.BRANCH:
        return z3.Union(*[re_of(x) for x in av[1]])
    raise Unsupported(f"regex node {op}")


class SymMatch:
    """A symbolic result of pattern.fullmatch(spec): groups are z3 strings; optional parts fork on presence."""
    def __init__(self, pattern):
        import re._parser as P
        import re._constants as C
        self.C = C
        tree = P.parse(pattern.pattern, pattern.flags)
        self.names = {v: k for k, v in pattern.groupindex.items()}
        self.groups = {}       # name -> (string term, presence term)
        self.constraints = []
        self.n = 0
        self.spec = self._enc(tree, z3.BoolVal(True))

    def _fresh(self, hint):
        self.n += 1
        return z3.String(f"g{self.n}_{hint}")

    def _has_group(self, node):
        C = self.C
        if type(node).__name__ == "SubPattern" or isinstance(node, list):
            return any(self._has_group(x) for x in node)
        op, av = node
        if op is C.SUBPATTERN:
            return av[0] is not None or self._has_group(av[3])
        if op is C.MAX_REPEAT:
            return self._has_group(av[2])
        if op is C.BRANCH:
            return any(self._has_group(x) for x in av[1])
        return False

    def _enc(self, node, present):
        C = self.C
        if type(node).__name__ == "SubPattern" or isinstance(node, list):
            parts = [self._enc(x, present) for x in node]
            if not parts:
                return z3.StringVal("")
            return parts[0] if len(parts) == 1 else z3.Concat(*parts)
        if not self._has_group(node):
            v = self._fresh("t")
            self.constraints.append(z3.Implies(present, z3.InRe(v, re_of(node))))
            return v
        op, av = node
        if op is C.SUBPATTERN:
            gid, _, _, body = av
            s = self._enc(body, present)
            if gid is not None:
                self.groups[self.names.get(gid, gid)] = (s, present)
            return s
        if op is C.MAX_REPEAT and av[0] == 0 and av[1] == 1:
            self.n += 1
            p = z3.Bool(f"p{self.n}")
            inner = z3.And(present, p)
            s = self._enc(av[2], inner)
            return z3.If(inner, s, z3.StringVal(""))
        raise Unsupported(f"regex group under {op}")

    def __getitem__(self, name):
        s, present = self.groups[name]
        if branch(present):
            return SymStr(s)
        return None

    def group(self, name):
        return self[name]


class SymPattern:
    def __init__(self, real):
        self.real = real
        self.last = None

    def fullmatch(self, spec):
        self.last = SymMatch(self.real)
        return self.last


def py_int_spec(signed):
    """CPython's format mini-language for int values, per presentation type, as z3 regexes (validated against format())."""
    R = lambda s: z3.Re(z3.StringVal(s))
    RS = z3.ReSort(z3.StringSort())
    U = lambda *a: a[0] if len(a) == 1 else z3.Union(*a)
    opt = z3.Option
    anyc = z3.AllChar(RS)
    align = U(R("<"), R(">"), R("="), R("^"))
    fa = opt(z3.Concat(opt(anyc), align))
    sign = opt(U(R("+"), R("-"), R(" ")))
    width = opt(z3.Concat(z3.Range("1", "9"), z3.Star(z3.Range("0", "9"))))
    zero = opt(R("0"))
    alt = opt(R("#"))
    num = z3.Concat(fa, sign, alt, zero, width)
    L = z3.Union(
        z3.Concat(num, opt(U(R("_"), R(","))), opt(U(R("d")))),                       # d / none: both groupings
        z3.Concat(num, opt(R("_")), U(R("b"), R("o"), R("x"), R("X"))),              # b o x X: '_' only
        z3.Concat(num, R("n")),
        z3.Concat(fa, zero, width, R("c")),                                           # c: no sign, no '#', no grouping
        z3.Concat(num, opt(U(R("_"), R(","))), U(*[R(t) for t in "eEfFgG%"])))
    return L


def py_str_spec():
    R = lambda s: z3.Re(z3.StringVal(s))
    RS = z3.ReSort(z3.StringSort())
    opt = z3.Option
    anyc = z3.AllChar(RS)
    align = z3.Union(R("<"), R(">"), R("^"))
    width = opt(z3.Concat(z3.Range("1", "9"), z3.Star(z3.Range("0", "9"))))
    return z3.Concat(opt(z3.Concat(opt(anyc), align)), opt(R("0")), width, opt(R("s")))


AM_INT = r"(?:.?[<>=])?[-+ ]?#?0?(?:[1-9][0-9]*)?_?[bodxX]?"
AM_TEXT = r"(?:.?[<>])?(?:[1-9][0-9]*)?"


def am_accepts(spec, width, signed):
    """The grammar Format documents for itself (the rule list of _parse_format_spec and the invariants written next to the
    dictionary it returns), transcribed independently: integer presentations take fill/align/sign/#/0/width/_; 'c' and 's'
    take fill, '<' or '>' and a width only, on unsigned values, 's' on whole bytes."""
    import re as _re
    if _re.fullmatch(AM_INT, spec, _re.S):
        return True
    if not signed and _re.fullmatch(AM_TEXT + "c", spec, _re.S):
        return True
    return not signed and width % 8 == 0 and bool(_re.fullmatch(AM_TEXT + "s", spec, _re.S))


def am_spec(width, signed):
    """am_accepts as a z3 regular expression."""
    R = lambda s: z3.Re(z3.StringVal(s))
    RS = z3.ReSort(z3.StringSort())
    opt = z3.Option
    anyc = z3.AllChar(RS)
    U = z3.Union
    width_re = opt(z3.Concat(z3.Range("1", "9"), z3.Star(z3.Range("0", "9"))))
    L = z3.Concat(opt(z3.Concat(opt(anyc), U(R("<"), R(">"), R("=")))), opt(U(R("+"), R("-"), R(" "))), opt(R("#")), opt(R("0")), width_re,
                  opt(R("_")), opt(U(*[R(t) for t in "bodxX"])))
    text = z3.Concat(opt(z3.Concat(opt(anyc), U(R("<"), R(">")))), width_re)
    if not signed:
        L = U(L, z3.Concat(text, R("c")))
        if width % 8 == 0:
            L = U(L, z3.Concat(text, R("s")))
    return L


def validate_reference():
    """The reference regexes against the real format() on a grid of option combinations."""
    n = 0
    s = z3.Solver()
    Li, Ls = py_int_spec(False), py_str_spec()
    Lam8, Lam5s = am_spec(8, False), am_spec(5, True)
    specs = set()
    for fill in ("", "*", "0", "<", "+"):
        for al in ("", "<", "=", "^"):
            if fill and not al:
                continue
            for sg in ("", "+", " "):
                for ab in ("", "#"):
                    for z in ("", "0"):
                        for wd in ("", "7", "10"):
                            for gr in ("", "_", ","):
                                for t in ("", "b", "d", "x", "X", "o", "c", "n", "s", "e"):
                                    specs.add(fill + al + sg + ab + z + wd + gr + t)
    specs = sorted(specs)
    rr = random.Random(5)
    rr.shuffle(specs)
    bad = []
    for sp in specs[:1500]:
        def ok(v):
            try:
                format(v, sp)
                return True
            except ValueError:
                return False
        for val, L in ((65, Li), ("ab", Ls), (None, Lam8), (None, Lam5s)):
            want = ok(val) if val is not None else am_accepts(sp, 8, False) if L is Lam8 else am_accepts(sp, 5, True)
            s.push()
            s.add(z3.InRe(z3.StringVal(sp), L))
            got = s.check() == z3.sat
            s.pop()
            n += 1
            if got != want:
                bad.append((sp, type(val).__name__, want, got))
    return n, bad


def grammar_job(job):
    signed, width = job["signed"], job["width"]
    shape = Shape(width, signed)
    base = {"id": job["id"], "program": f"Format._parse_format_spec(spec, {shape!r}) for every spec string", "nontrivial": True, "kind": "format grammar",
            "assertion": "every specification Format accepts for this shape is one Python's format() accepts for the object the simulator hands it "
                         "(int, or str for 's'); the reported fill/align/sign/width/type equal the groups", "symbolic": "the whole specification string (z3 strings)"}
    real_pat = Format._FORMAT_SPEC_PATTERN
    sp = SymPattern(real_pat)
    spec_var = z3.String("spec")
    Li, Ls = py_int_spec(signed), py_str_spec()
    Lam = am_spec(width, signed)

    def scen():
        try:
            Format._FORMAT_SPEC_PATTERN = sp
            with shims.bound([(ast_mod, "int", _int_shim)]):
                try:
                    res = Format._parse_format_spec(spec_var, shape)
                    return ("accepted", res, sp.last)
                except ValueError as e:
                    return ("rejected", str(e), sp.last)
        finally:
            Format._FORMAT_SPEC_PATTERN = real_pat
    try:
        paths = explore(scen, max_paths=20000)
    except (Inconclusive, Unsupported) as e:
        return [dict(base, status=INCONCLUSIVE, detail=f"{type(e).__name__}: {e}")]
    acc = 0
    queries = 0
    for p in paths:
        if p.exc is not None:
            return [dict(base, status=ERROR, detail=f"exception on path: {type(p.exc).__name__}: {p.exc}")]
        verdict, res, mt = p.value
        if verdict != "accepted":
            continue
        acc += 1
        try:
            lang = PathLanguage(p.pc, mt)
            tvar, tpresent = mt.groups["type"]
            is_s = lang.status(tpresent) is True and lang.fixed.get(tvar.get_id()) == "s"
            if is_s:
                Lpath, Lref = lang.of(mt.spec, blank=tvar), Ls       # the simulator strips the 's' and formats a str
            else:
                Lpath, Lref = lang.of(mt.spec), Li
        except Unsupported as e:
            return [dict(base, status=INCONCLUSIVE, detail=f"path constraints outside the regular fragment: {e}")]
        # reported fields are the groups (no solver needed: the terms are the group terms themselves)
        if isinstance(res, dict):
            for key in ("sign", "type", "grouping"):
                gs, gp = mt.groups[key]
                v = res[key]
                st_ = lang.status(gp)
                if (v is None) != (st_ is False) or (isinstance(v, SymStr) and not v.term.eq(gs)):
                    return [dict(base, status=VIOLATION, detail=f"reported field {key!r} is not the {key} group of the specification",
                                 signature={"kind": "grammar-fields"}, replay={"spec": "", "width": width, "signed": signed})]
        x = z3.String("x")
        s = z3.Solver()
        s.set("timeout", 60000)
        s.add(z3.InRe(x, Lpath))
        s.add(z3.Not(z3.InRe(x, Lref)))
        queries += 1
        r = timed_check(s)
        if r == z3.unknown:
            return [dict(base, status=INCONCLUSIVE, detail="solver unknown")]
        if r != z3.sat:
            # "invalid specifications are rejected": the path's specifications lie inside the grammar Format documents
            s = z3.Solver()
            s.set("timeout", 60000)
            s.add(z3.InRe(x, lang.of(mt.spec)))
            s.add(z3.Not(z3.InRe(x, Lam)))
            queries += 1
            r = timed_check(s)
            if r == z3.unknown:
                return [dict(base, status=INCONCLUSIVE, detail="solver unknown")]
            is_s = False
        if r == z3.sat:
            spec = _unescape(s.model().eval(x, model_completion=True).as_string()) + ("s" if is_s else "")
            rep = replay_spec(spec, width, signed)
            if rep:
                return [dict(base, status=VIOLATION, detail=f"spec {spec!r} for {shape!r}: {rep}", signature={"kind": "grammar"},
                             replay={"spec": spec, "width": width, "signed": signed})]
            return [dict(base, status=UNREPRODUCED, detail=f"spec {spec!r}: accepted by the symbolic run, but the real code behaves")]
    if acc == 0:
        return [dict(base, status=ERROR, detail="vacuous: no accepting path")]
    return [dict(base, status=PROVED, paths=len(paths), accepting_paths=acc, inclusion_queries=queries)]


class PathLanguage:
    """The set of specification strings of one path of _parse_format_spec, as a z3 regular expression: every group
    variable is constrained by its sub-pattern and by the (dis)equalities with constants the path took."""
    def __init__(self, pc, mt):
        SS = z3.StringSort()
        self.regs, self.fixed = {}, {}
        self.bools = z3.Solver()

        def add(v, r):
            self.regs.setdefault(v.get_id(), []).append(r)
        for c in mt.constraints:
            body = c.arg(1) if z3.is_implies(c) else c
            add(body.arg(0), body.arg(1))
        for t in pc:
            neg = False
            while z3.is_not(t):
                neg, t = not neg, t.arg(0)
            if z3.is_eq(t) and t.arg(0).sort() == SS:
                v, c = (t.arg(0), t.arg(1)) if z3.is_string_value(t.arg(1)) else (t.arg(1), t.arg(0))
                if not z3.is_string_value(c) or not z3.is_const(v):
                    raise Unsupported(f"string constraint {t}")
                r = z3.Re(c)
                add(v, z3.Complement(r) if neg else r)
                if not neg:
                    self.fixed[v.get_id()] = c.as_string()
            elif z3.is_le(t) and t.arg(0).decl().kind() == z3.Z3_OP_SEQ_LENGTH and z3.is_int_value(t.arg(1)) and t.arg(1).as_long() == 0:
                v = t.arg(0).arg(0)
                add(v, z3.Plus(z3.AllChar(z3.ReSort(SS))) if neg else z3.Re(z3.StringVal("")))
            elif self._bool_only(t):
                self.bools.add(z3.Not(t) if neg else t)
            else:
                raise Unsupported(f"path constraint {t}")

    def _bool_only(self, t):
        if t.sort() != z3.BoolSort():
            return False
        if z3.is_const(t):
            return True
        return (z3.is_and(t) or z3.is_or(t) or z3.is_not(t)) and all(self._bool_only(c) for c in t.children())

    def status(self, cond):
        """True / False if the path decided the presence condition, None if it is free."""
        if self.bools.check(z3.Not(cond)) == z3.unsat:
            return True
        if self.bools.check(cond) == z3.unsat:
            return False
        return None

    def of(self, term, blank=None):
        if z3.is_string_value(term):
            return z3.Re(term)
        if z3.is_const(term):
            if blank is not None and term.eq(blank):
                return z3.Re(z3.StringVal(""))
            rs = self.regs.get(term.get_id())
            if not rs:
                raise Unsupported(f"unconstrained group variable {term}")
            return rs[0] if len(rs) == 1 else z3.Intersect(*rs)
        k = term.decl().kind()
        if k == z3.Z3_OP_SEQ_CONCAT:
            return z3.Concat(*[self.of(c, blank) for c in term.children()])
        if k == z3.Z3_OP_ITE:
            st_ = self.status(term.arg(0))
            if st_ is True:
                return self.of(term.arg(1), blank)
            if st_ is False:
                return self.of(term.arg(2), blank)
            return z3.Union(self.of(term.arg(1), blank), self.of(term.arg(2), blank))
        raise Unsupported(f"string term {term}")


def _unescape(s):
    return re.sub(r"\\u\{([0-9a-fA-F]+)\}", lambda m: chr(int(m.group(1), 16)), s)


class _IntMeta(type):
    def __instancecheck__(cls, obj):
        return isinstance(obj, int)

    def __call__(cls, x=0, *a, **k):
        if isinstance(x, SymStr):
            return ("int", x)
        return int(x, *a, **k)


class _int_shim(metaclass=_IntMeta):
    pass


def replay_spec(spec, width, signed):
    """Real code: Format accepts the spec, yet format() of a value of the shape fails (or the simulator's text differs)."""
    try:
        sig = Signal(Shape(width, signed))
        with warnings.catch_warnings():
            warnings.simplefilter("ignore")
            Format("{:" + spec + "}", sig)
    except (ValueError, TypeError, IndexError, KeyError):
        return ""
    if not am_accepts(spec, width, signed):
        return "Format accepts it, but it is outside the documented grammar (fill, align, sign, #, 0, width, _, type; c/s: fill, < or >, width only)"
    vals = [0, 1, (1 << width - 1) - 1 if width else 0, -1 if signed else (1 << width) - 1 if width else 0]
    for v in vals:
        try:
            if spec.endswith("s"):
                format("a", spec[:-1])
            else:
                format(v, spec)
        except ValueError as e:
            return f"Format accepts it, but format({v}, {spec!r}) raises ValueError: {e}"
        except OverflowError:
            pass
    return ""


def job_fn(job):
    if job["what"] == "grammar":
        return grammar_job(job)
    return check_program(job)


def replay(path):
    import json
    with open(path) as f:
        d = json.load(f)
    r = d["replay"]
    if "spec" in r:
        x = replay_spec(r["spec"], r["width"], r["signed"])
        print(x)
        return 1 if x else 0
    real = concrete_run(r["prog"], r["state"], r["rst"])
    want = oracle_concrete(r["prog"], r["state"], r["rst"])
    print("program:\n" + S.show(r["prog"]))
    print("state", r["state"], "rst", r["rst"])
    print("simulator:", real)
    print("reference:", want)
    return 1 if real != want else 0


def corner_programs():
    sg = lambda n, w, s=False: ["sig", n, w, s]
    P = []
    base_sigs = {"i0": [3, False, 0, "in"], "i1": [4, True, 0, "in"], "r0": [3, False, 2, "sync"], "t0": [8, False, 0x61, "in"], "t1": [16, False, 0, "in"], "t2": [20, False, 0, "in"]}
    P.append({"signals": copy.deepcopy(base_sigs), "fsms": {},
              "stmts": [["assign", "sync", sg("r0", 3), ["add", sg("r0", 3), ["const", 1, None, False]]],
                        ["print", "sync", "<0>r0={:03b} i1={:+d}|{{}}\n", [sg("r0", 3), sg("i1", 4, True)]],
                        ["if", [[sg("i0", 3), [["print", "sync", "<1>{1:#x} {0:>4d}", [sg("i1", 4, True), sg("i0", 3)]],
                                               ["assert", "sync", ["ne", sg("i0", 3), ["const", 5, None, False]], "<2>i0 was {:d}", [sg("i0", 3)]]]]],
                         [["assume", "sync", sg("i1", 4, True), "<3>", []], ["print", "sync", "<4>{:c}{:>3s}{:s}", [sg("t2", 20), sg("t0", 8), sg("t1", 16)]]]],
                        ["switch", sg("r0", 3), [[[1, 2], [["print", "sync", "<5>{:_b}{: 5X}", [["neg", sg("i1", 4, True)], ["mul", sg("i1", 4, True), sg("i0", 3)]]]]],
                                                 [None, [["assert", "sync", ["index", sg("r0", 3), 0], "<6>{:*^1}".replace("^", "<"), [sg("i0", 3)]]]]]]]})
    fs = {"fsm": {"domain": "sync", "states": ["A", "B"], "init": "A"}}
    P.append({"signals": copy.deepcopy(base_sigs), "fsms": fs,
              "stmts": [["fsm", "sync", "fsm", "A",
                         [["A", [["print", "sync", "<0>in A {:02x}", [sg("t0", 8)]], ["if", [[sg("i0", 3), [["next", "fsm", "B"]]]], None]]],
                          ["B", [["assert", "sync", sg("i1", 4, True), "<1>B with {:=+5d}", [sg("i1", 4, True)]], ["next", "fsm", "A"]]]]],
                        ["assign", "sync", sg("r0", 3), sg("i0", 3)]]})
    # replacement fields nested inside a specification, with and without specifications of their own, automatic and manual numbering
    P.append({"signals": copy.deepcopy(base_sigs), "fsms": {},
              "stmts": [["print", "sync", "<0>{:{:02d}x}|{:{}>{:+d}}", [sg("t0", 8), ["pyint", 4], sg("i1", 4, True), ["pyint", "*"], ["pyint", 6]]],
                        ["assert", "sync", sg("i0", 3), "<1>{2:{0:02d}b} {1!r:>4}", [["pyint", 7], ["pyint", "q"], sg("i0", 3)]],
                        ["print", "sync", "{}-{}-{}-{}", [["pyint", ""], ["pyint", ""], sg("i0", 3), ["pyint", "@<2>@"]], {"sep": "-", "end": ";\n"}],
                        ["print", "sync", "{} {} {}", [["pyint", ""], sg("i1", 4, True), ["pyint", "@<3>@"]], {"sep": " ", "end": ""}],
                        ["print", "sync", "<4>[{:4c}][{:<3c}][{:2c}]", [sg("t0", 8), sg("t2", 20), sg("t0", 8)]],
                        ["assume", "sync", ["index", sg("i0", 3), 1], "<5>i0 left the set {{0, 1}} of {lo, hi}", None],
                        ["assign", "sync", sg("r0", 3), sg("i0", 3)]]})
    # a monitor with nothing but Print / Assert in its domain, inside EnableInserter: no statement runs while the enable is low
    P.append({"signals": copy.deepcopy(base_sigs), "fsms": {}, "wrap_enable": True,
              "stmts": [["print", "sync", "<0>data={:02x}", [sg("t0", 8)]],
                        ["assert", "sync", ["ne", sg("i0", 3), ["const", 5, None, False]], "<1>i0 is {:d}", [sg("i0", 3)]],
                        ["if", [[sg("i1", 4, True), [["print", "sync", "<2>{:+d}", [sg("i1", 4, True)]]]]], None]]})
    P.append({"signals": copy.deepcopy(base_sigs), "fsms": {}, "wrap_enable": True,
              "stmts": [["assign", "sync", sg("r0", 3), ["add", sg("r0", 3), ["const", 1, None, False]]],
                        ["print", "sync", "<0>r0={:d}", [sg("r0", 3)]],
                        ["assume", "sync", ["index", sg("r0", 3), 0], "<1>odd", None]]})
    return P


def main(tier, seed):
    rep = run.Report("C20", "other", tier, seed)
    from vlib.pysym.selfcheck import selfcheck
    rep.extra["pysym_selfcheck_comparisons"] = selfcheck(seed)
    n, bad = validate_reference()
    rep.extra["reference_grammar_grid_points"] = n
    rep.twin("reference format grammars agree with the real format() on the option grid", not bad, str(bad[:3]))
    r = random.Random(seed)
    jobs = []
    for i, prog in enumerate(corner_programs()):
        jobs.append({"id": f"corner-{i}", "what": "prog", "prog": prog, "vseed": seed + i, "nconc": 6})
    gens = [S.Programs(seed + 31, W=4, nest=2), S.Programs(seed + 32, W=4, nest=3)]
    for i in range(60 if tier == "quick" else 1500):
        prog = inject(gens[i % 2].gen(), r, r.randint(2, 5))
        jobs.append({"id": f"prog-{i:05d}", "what": "prog", "prog": prog, "vseed": seed * 77 + i, "nconc": 3})
    for signed in (False, True):
        for width in (1, 8, 12, 16):
            jobs.append({"id": f"grammar-{'s' if signed else 'u'}{width}", "what": "grammar", "signed": signed, "width": width})
    results, stats = run.run_jobs(job_fn, jobs, chunksize=1)
    skipped = [x for x in results if x.get("status") == "skipped"]
    results = [x for x in results if x.get("status") != "skipped"]
    rep.extra["skipped"] = len(skipped)
    rep.extra["skipped_samples"] = sorted({x["detail"][:120] for x in skipped})[:6]
    rep.add(results, stats)
    # reachability twin: an oracle that ignores the enclosing condition must be refuted
    prog = corner_programs()[0]
    e0 = {"i0": 0, "i1": 1, "r0": 3, "t0": 0x61, "t1": 0x6261, "t2": 0x41}
    rep.twin("reachability: the corner program prints under the Else branch for i0 == 0 on the real simulator",
             "<4>" in concrete_run(prog, e0, 0)["stdout"] and "<1>" not in concrete_run(prog, e0, 0)["stdout"])
    rep.source_files = FILES
    rep.functions = ["amaranth.hdl._ast.Format.__init__ / _parse_format_spec / _FORMAT_SPEC_PATTERN", "amaranth.sim._pyrtl._StatementCompiler.on_Print / on_Property / emit_format (generated code)",
                     "amaranth.sim._pyeval.value_to_string", "amaranth.hdl._dsl.Module (conditions around Print/Assert)"]
    rep.bounds = {"programs": len(jobs) - 8, "events_per_program": "2..5 Print/Assert/Assume in sync, under If/Switch/FSM nests of depth <= 3", "operand_width": "<= 4 (plus 8/16/20-bit text operands)",
                  "spec_length": "<= 12 characters in the grammar part", "outside": "comb-domain prints; Cover; 's' operands are concrete bytes from a grid (ASCII, NUL padding, one 2-byte UTF-8 sequence); "
                  "Format.Enum/Struct/Array; the RTLIL $print cells"}
    rep.stubs = ["SymInt.__format__ returns a token (value term, spec): equality of text with str.format follows because the simulator delegates to str.format",
                 "Format._FORMAT_SPEC_PATTERN replaced by a symbolic matcher built from the real pattern's parse tree (groups as z3 strings)", "amaranth.hdl._ast.int on group strings",
                 "HSignalState", "if-converting interpreter with print / pin_blame recorded as guarded effects"]
    rep.assumptions = ["CPython's format() treats fill characters and width digits uniformly (reference grammar validated on a grid only)"]
    rep.rule = "hand-written corner programs + seeded random statement programs with injected tagged Print/Assert/Assume; grammar: one obligation per operand shape class"
    rep.explanation = ("The generated simulator code runs on z3 proxies from an arbitrary register/input/FSM state; every print()/pin_blame() call is recorded with its guard and a "
                       "text template whose holes carry (value term, spec). z3 decides guard == activity of the statement and value == operand in its own shape, for all states. "
                       "The accepted specification language is compared with CPython's by z3 regular-expression inclusion over all specification strings.")
    return rep.finish()
