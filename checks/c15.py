"""C15 - data layouts and shaped enumerations obey the shape-castable laws."""
import enum as py_enum
import random
import warnings

import z3

from vlib import run, symsim, refsem, shims
from vlib.prove import prove
from vlib.run import PROVED, VIOLATION, INCONCLUSIVE, ERROR, UNREPRODUCED
from vlib.pysym import (explore, fresh, bool_term, sym_not, sym_and, sym_or, sym_ite, is_sym, timed_check, eval_in_model,
                        Inconclusive, Unsupported)

import amaranth.hdl._ast as ast_mod
import amaranth.utils as au
import amaranth.lib.data as data_mod
from amaranth.hdl import Module, Signal, ClockDomain, Shape, Value, Const as HConst
from amaranth.lib import data
from amaranth.lib import enum as aenum

FILES = ["amaranth/lib/data.py", "amaranth/lib/enum.py", "amaranth/hdl/_ast.py", "amaranth/sim/_pyrtl.py"]


def sh():
    return shims.bound([(au, "operator", shims.opshim), (ast_mod, "operator", shims.opshim), (ast_mod, "int", shims.IntShim),
                        (data_mod, "operator", shims.opshim), (data_mod, "range", shims.RangeShim)])


# ---------------------------------------------------------------------------------------- layout trees
LEAF = ("u", "s", "enum", "senum")
SIGNED = ("s", "senum")
ENUM = ("enum", "senum")


def gen_layout(r, depth, budget):
    """spec, with total size <= budget."""
    c = r.random()
    if depth == 0 or budget <= 1 or c < 0.3:
        w = r.randint(0, min(4, budget))
        if w > 0 and r.random() < 0.3:
            return ("s", w)
        if w >= 1 and r.random() < 0.25:
            return ("enum" if r.random() < 0.5 else "senum", w)
        return ("u", w)
    if c < 0.6:
        n = r.randint(1, 4)
        fields = []
        left = budget
        for k in range(n):
            sub = gen_layout(r, depth - 1, max(left // (n - k), 0))
            left -= size_of(sub)
            fields.append((f"f{k}", sub))
        return ("struct", fields)
    if c < 0.75:
        n = r.randint(1, 3)
        return ("union", [(f"u{k}", gen_layout(r, depth - 1, budget)) for k in range(n)])
    if c < 0.92:
        n = r.randint(0, 3)
        sub = gen_layout(r, depth - 1, budget // max(n, 1))
        return ("array", sub, n)
    n = r.randint(1, 3)
    fields, offs = [], []
    for k in range(n):
        sub = gen_layout(r, depth - 1, budget // 2)
        off = r.randint(0, max(budget - size_of(sub), 0))
        fields.append((f"x{k}", off, sub))
    size = max([o + size_of(s) for (_, o, s) in fields] + [0]) + r.randint(0, 1)
    return ("flex", size, fields)


def size_of(spec):
    k = spec[0]
    if k in LEAF:
        return spec[1]
    if k == "struct":
        return sum(size_of(s) for _, s in spec[1])
    if k == "union":
        return max([size_of(s) for _, s in spec[1]] + [0])
    if k == "array":
        return size_of(spec[1]) * spec[2]
    return spec[1]


_ENUMS = {}


def make_enum(name, members, shape, base=None, **kw):
    base = base or aenum.Enum
    ns = aenum.EnumType.__prepare__(name, (base,), shape=shape, **kw)
    for k, v in members.items():
        ns[k] = v
    return aenum.EnumType(name, (base,), ns, shape=shape, **kw)


def enum_for(w, signed=False):
    if (w, signed) not in _ENUMS:
        lo = -(1 << w - 1) if signed else 0
        members = {f"M{v - lo}": v for v in range(lo, lo + (1 << w))}
        _ENUMS[w, signed] = make_enum(f"E{'s' if signed else 'u'}{w}", members, Shape(w, signed))
    return _ENUMS[w, signed]


def build(spec):
    k = spec[0]
    if k == "u":
        return spec[1]
    if k == "s":
        return Shape(spec[1], True)
    if k in ENUM:
        return enum_for(spec[1], k == "senum")
    if k == "struct":
        return data.StructLayout({n: build(s) for n, s in spec[1]})
    if k == "union":
        return data.UnionLayout({n: build(s) for n, s in spec[1]})
    if k == "array":
        return data.ArrayLayout(build(spec[1]), spec[2])
    return data.FlexibleLayout(spec[1], {n: data.Field(build(s), o) for n, o, s in spec[2]})


def show(spec):
    k = spec[0]
    if k in ("u", "s"):
        return f"{k}{spec[1]}"
    if k in ENUM:
        return f"{k}{spec[1]}"
    if k in ("struct", "union"):
        return k + "{" + ", ".join(f"{n}: {show(s)}" for n, s in spec[1]) + "}"
    if k == "array":
        return f"array({show(spec[1])} x {spec[2]})"
    return f"flex[{spec[1]}]{{" + ", ".join(f"{n}@{o}: {show(s)}" for n, o, s in spec[2]) + "}"


def fields_of(spec):
    """[(key, offset, sub)] by the documented placement rules."""
    k = spec[0]
    if k == "struct":
        out, off = [], 0
        for n, s in spec[1]:
            out.append((n, off, s))
            off += size_of(s)
        return out
    if k == "union":
        return [(n, 0, s) for n, s in spec[1]]
    if k == "array":
        return [(i, i * size_of(spec[1]), spec[1]) for i in range(spec[2])]
    if k == "flex":
        return [(n, o, s) for n, o, s in spec[2]]
    return []


def leaf_paths(spec, base=0, path=()):
    """All (path, absolute offset, leaf spec)."""
    if spec[0] in LEAF:
        return [(path, base, spec)]
    out = []
    for key, off, sub in fields_of(spec):
        out.extend(leaf_paths(sub, base + off, path + (key,)))
    return out


def ref_leaf(raw, off, leaf):
    w = leaf[1]
    bits = (raw >> off) & refsem.mask(w)
    return refsem.in_shape(bits, w, leaf[0] in SIGNED)


def nav(obj, path):
    for k in path:
        obj = obj[k]
    return obj


def leaf_value(x):
    """data.Const[...] result -> int-like (enum members -> their value)."""
    if isinstance(x, py_enum.Enum):
        return x.value
    return x


# ---------------------------------------------------------------------------------------- obligations
def layout_job(job):
    spec = job["spec"]
    text = show(spec)
    base = {"program": text, "nontrivial": True}
    out = []
    try:
        L = build(spec)
        layout = data.Layout.cast(L) if not isinstance(L, (int, Shape)) and not isinstance(L, type) else None
    except (TypeError, ValueError) as ex:
        return [dict(base, id=job["id"], kind="unconstructible", status="skipped", detail=str(ex))]
    if layout is None:
        return [dict(base, id=job["id"], kind="unconstructible", status="skipped", detail="not a layout")]
    size = size_of(spec)
    # O1 placement (concrete)
    bad = []
    if layout.size != size:
        bad.append(f"size {layout.size} != {size}")

    def walk(spec_, lay, prefix):
        for key, off, sub in fields_of(spec_):
            f = lay[key]
            if f.offset != off or f.width != size_of(sub):
                bad.append(f"{prefix}{key}: offset/width {f.offset}/{f.width}, documented {off}/{size_of(sub)}")
            if sub[0] in ("struct", "union", "array", "flex"):
                walk(sub, data.Layout.cast(f.shape), f"{prefix}{key}.")
    walk(spec, layout, "")
    r = dict(base, id=job["id"] + "-place", kind="placement", nontrivial=False,
             assertion="struct fields contiguous in declaration order, union fields at 0 with the size of the largest, array element i at i*width")
    out.append(dict(r, status=VIOLATION, detail=f"{text}: " + "; ".join(bad[:4]), signature={"kind": "placement"}, replay={"spec": spec}) if bad else dict(r, status=PROVED))
    if size == 0 or size > 14:
        return out
    leaves = leaf_paths(spec)
    raw = fresh("raw", size, False)
    # O2 from_bits / as_bits / data.Const[...] against the bit slices
    def run_bits(raw):
        c = layout.from_bits(raw)
        vals = [leaf_value(nav(c, p)) if not _has_enum_on_path(spec, p) else None for p, _, _ in leaves]
        return c.as_bits(), HConst.cast(layout.const(c)).value, vals

    def post_bits(i, res, exc):
        if exc is not None:
            return False
        bits, cast, vals = res
        ok = sym_and(bits == i["raw"], cast == i["raw"])
        for (p, off, leaf), v in zip(leaves, vals):
            if v is not None:
                ok = sym_and(ok, v == ref_leaf(i["raw"], off, leaf))
        return ok
    out.append(prove(job["id"] + "-bits", "from_bits/as_bits/Const[]", f"{text}: from_bits(raw).as_bits(), Const.cast, Const[path] for every leaf",
                     {"raw": raw}, [], run_bits, post_bits, shims=sh))
    # O3 const(fields)[k] == fields[k] (struct-like nests without unions/flex overlaps)
    if _plain(spec):
        vals = {("_".join(map(str, p)) or "v"): fresh("f_" + "_".join(map(str, p)), leaf[1], leaf[0] in SIGNED) for p, _, leaf in leaves if leaf[1] > 0 and leaf[0] not in ENUM}

        def nest(spec_, path):
            if spec_[0] in ("u", "s"):
                return None
            d = {}
            for key, off, sub in fields_of(spec_):
                if sub[0] in ("u", "s"):
                    name = "_".join(map(str, path + (key,)))
                    if name in cur:
                        d[key] = cur[name]
                elif sub[0] not in ENUM:
                    d[key] = nest(sub, path + (key,))
            return d if spec_[0] != "array" else [d.get(i, 0) for i in range(spec_[2])]

        def run_const(**kw):
            nonlocal cur
            cur = kw
            c = layout.const(nest(spec, ()))
            return [nav(c, p) for p, _, leaf in leaves if leaf[1] > 0 and leaf[0] not in ENUM]
        cur = {}

        def post_const(i, res, exc):
            if exc is not None:
                return False
            ok = True
            names = ["_".join(map(str, p)) for p, _, leaf in leaves if leaf[1] > 0 and leaf[0] not in ENUM]
            for n_, v in zip(names, res):
                ok = sym_and(ok, v == i[n_])
            return ok
        if vals:
            out.append(prove(job["id"] + "-const", "const(fields)[k]", f"{text}: layout.const(fields)[path] == fields[path]", vals, [], run_const, post_const, shims=sh))
    # O3' a union is initialised through exactly one member; that member reads back, and so does from_bits -> const
    if spec[0] == "union":
        for key, off, sub in fields_of(spec):
            if sub[0] in ("u", "s") and sub[1] > 0:
                v = fresh(f"m_{key}", sub[1], sub[0] == "s")
                out.append(prove(job["id"] + f"-uconst-{key}", "union const", f"{text}: const({{{key!r}: v}})[{key!r}] == v", {"v": v}, [],
                                 lambda v, key=key: layout.const({key: v})[key], lambda i, res, exc: exc is None and res == i["v"], shims=sh))
    # O3'' fields are assigned in the order given, on an all-zero value: a later initialiser (also a zero one) overrides the bits of
    # an earlier overlapping one (flexible layouts with overlapping fields; array elements named twice through negative indices)
    kids = [(key, off, sub) for key, off, sub in fields_of(spec) if sub[0] in ("u", "s") and sub[1] > 0]
    if spec[0] in ("flex", "array", "struct") and kids:
        rr = random.Random(run.stable_hash(text) & 0xffff)
        seq = [rr.choice(kids) for _ in range(min(3, len(kids) + 1))]
        keys = []
        for j, (key, off, sub) in enumerate(seq):
            k_ = key
            if spec[0] == "array" and rr.random() < 0.5:
                k_ = key - spec[2]                   # the same element through a negative index
            keys.append(k_)
        if len(set(map(str, keys))) == len(keys):    # dict keys must be distinct objects
            fv = {f"q{j}": fresh(f"q{j}", sub[1], sub[0] == "s") for j, (key, off, sub) in enumerate(seq)}

            def run_seq(**kw):
                return layout.const({k_: kw[f"q{j}"] for j, k_ in enumerate(keys)}).as_bits()

            def post_seq(i, res, exc):
                if exc is not None:
                    return False
                want = 0
                for j, (key, off, sub) in enumerate(seq):
                    m_ = refsem.mask(sub[1]) << off
                    want = (want & ~m_) | ((refsem.to_unsigned(i[f"q{j}"], sub[1]) << off) & m_)
                return res == want
            out.append(prove(job["id"] + "-constseq", "const in order", f"{text}: layout.const({{{', '.join(map(repr, keys))}}}) == fields assigned in that order on zero",
                             fv, [], run_seq, post_seq, shims=sh))
    # O3c an initialiser that is an hdl.Const of ANOTHER width or signedness is converted like an assignment to the field would:
    # the field takes the constant's integer value wrapped into the field's shape, no other bit changes
    for key, off, sub in kids[:2]:
        fw, fs = sub[1], sub[0] == "s"
        for (cw, cs) in ((fw + 1, False), (fw + 2, True), (max(1, fw - 1), True)):
            cv = fresh(f"cinit_{cw}{'s' if cs else 'u'}", cw, cs)
            bg = [(k2, o2, s2) for k2, o2, s2 in kids if str(k2) != str(key)][:1] if spec[0] in ("struct", "array") else []      # (a union takes one initialiser)

            def run_hc(cv, key=key, cw=cw, cs=cs, bg=bg):
                fields = {k2: 0 for k2, o2, s2 in bg}
                fields[key] = HConst(cv, Shape(cw, cs))
                if spec[0] == "array":
                    base_ = [0] * spec[2]
                    base_[key] = fields[key]
                    fields = base_
                return layout.const(fields).as_bits()

            def post_hc(i, res, exc, off=off, fw=fw):
                if exc is not None:
                    return False
                return res == (refsem.to_unsigned(i["cv"], fw) << off)
            if spec[0] != "flex" or not bg:
                out.append(prove(job["id"] + f"-constconst-{key}-{cw}{'s' if cs else 'u'}", "const from hdl.Const",
                                 f"{text}: layout.const({{{key!r}: Const(v, {'signed' if cs else 'unsigned'}({cw}))}}) sets exactly that field to v wrapped into its shape",
                                 {"cv": cv}, [], run_hc, post_hc, shims=sh))
    # O2' slices of a constant with an array layout follow Python's slice semantics (also descending strides)
    if spec[0] == "array" and spec[2] >= 2 and size_of(spec[1]) > 0:
        n_, ew_ = spec[2], size_of(spec[1])
        sls = [slice(None, None, -2), slice(None, None, 2), slice(n_ - 1, None, -2), slice(1, None, 3), slice(None, None, -1), slice(-1, 0, -2), slice(0, n_, 1), slice(None, None, -3)]
        raw2 = fresh("raw", size, False)

        def run_sl(raw):
            c = layout.from_bits(raw)
            return [c[sl].as_bits() for sl in sls]

        def post_sl(i, res, exc):
            if exc is not None:
                return False
            ok = True
            for sl, got in zip(sls, res):
                want = 0
                for pos, idx in enumerate(range(n_)[sl]):
                    want |= ((i["raw"] >> (idx * ew_)) & refsem.mask(ew_)) << (pos * ew_)
                ok = sym_and(ok, got == want)
            return ok
        out.append(prove(job["id"] + "-slices", "Const[slice]", f"{text}: from_bits(raw)[slice] for strides +-1, +-2, +-3", {"raw": raw2}, [], run_sl, post_sl, shims=sh))
    # O4 / O5 simulation: view fields read the slices; assigning through a view field changes only that field
    out.extend(sim_obligations(job, spec, L, layout, leaves, size))
    # in synthesis: the same design's RTLIL agrees with the simulator (C04's translation validation), so with the slices
    if job.get("synth"):
        from checks import c04
        for x in c04.check_design({"id": job["id"] + "-rtlil", "spec": {"family": "layout", "layout": spec, "windex": job.get("windex", 0)}}):
            if x.get("status") != "skipped":
                out.append(dict(x, id=job["id"] + "-rtlil-" + x["kind"].split(" ")[0], kind="synthesis: " + x["kind"]))
    return out


def _plain(spec):
    k = spec[0]
    if k in LEAF:
        return True
    if k in ("union", "flex"):
        return False
    if k == "struct":
        return all(_plain(s) for _, s in spec[1])
    return _plain(spec[1])


def _has_enum_on_path(spec, path):
    return False


def array_nodes(spec, base=0, path=()):
    """[(path, absolute offset, array spec)] of non-empty arrays reachable through constant keys."""
    out = []
    if spec[0] == "array" and spec[2] >= 1 and size_of(spec[1]) > 0:
        out.append((path, base, spec))
    for key, off, sub in fields_of(spec):
        if sub[0] not in LEAF:
            out.extend(array_nodes(sub, base + off, path + (key,)))
    return out


class LayoutDesign:
    """sig (input) read through every leaf and through one dynamically indexed array; reg / reg2
    written through one leaf / one dynamically indexed array element at a clock edge."""

    def __init__(self, spec, windex=0, reset_less=True):
        self.spec, self.size = spec, size_of(spec)
        L = build(spec)
        self.sig, self.reg, self.reg2 = Signal(L, name="sig"), Signal(L, name="reg"), Signal(L, name="reg2")
        m = self.m = Module()
        self.cd = ClockDomain("sync", reset_less=reset_less)
        m.domains.sync = self.cd
        self.leaves = [lf for lf in leaf_paths(spec) if lf[2][1] > 0][:6]
        self.outs = []
        for n, (p, off, leaf) in enumerate(self.leaves):
            o = Signal(Shape(leaf[1], leaf[0] in SIGNED), name=f"o{n}")
            m.d.comb += o.eq(Value.cast(nav(self.sig, p)))
            self.outs.append(o)
        self.wv = self.wleaf = None
        if self.leaves:
            self.wleaf = self.leaves[windex % len(self.leaves)]
            self.wv = Signal(Shape(self.wleaf[2][1] + 1, True), name="wv")
            m.d.sync += nav(self.reg, self.wleaf[0]).eq(self.wv)
        arrays = array_nodes(spec)
        self.arr = self.idx = self.od = self.wd = None
        if arrays:
            self.arr = arrays[windex % len(arrays)]
            apath, abase, aspec = self.arr
            n, ew = aspec[2], size_of(aspec[1])
            self.idx = Signal(max(1, (n - 1).bit_length()), name="idx")
            self.od = Signal(Shape(ew + 2, True), name="od")       # wide and signed: the element's own signedness shows
            self.wd = Signal(ew + 1, name="wd")
            m.d.comb += self.od.eq(Value.cast(nav(self.sig, apath)[self.idx]))
            m.d.sync += nav(self.reg2, apath)[self.idx].eq(self.wd)

    def inputs(self):
        return [s for s in (self.sig.as_value(), self.wv, self.idx, self.wd) if s is not None]

    def outputs(self):
        return self.outs + ([self.reg.as_value()] if self.wv is not None else []) + ([self.od, self.reg2.as_value()] if self.arr is not None else [])

    def expectations(self, pre, obs, post):
        """[(name, got, want)] on ints or proxies; pre/obs/post are dicts keyed by name."""
        out = []
        raw = pre["sig"]
        for n, (p, off, leaf) in enumerate(self.leaves):
            out.append((f"view{list(p)}", obs[f"o{n}"], ref_leaf(raw, off, leaf)))
        if self.wv is not None:
            wp, woff, wleaf = self.wleaf
            m_ = refsem.mask(wleaf[1]) << woff
            want = (refsem.to_unsigned(pre["reg"], self.size) & ~m_) | ((refsem.to_unsigned(pre["wv"], wleaf[1]) << woff) & m_)
            out.append((f"reg after reg{list(wp)}.eq(wv)", refsem.to_unsigned(post["reg"], self.size), want))
        if self.arr is not None:
            apath, abase, aspec = self.arr
            n, ew = aspec[2], size_of(aspec[1])
            idx = pre["idx"]
            inr = idx < n
            sh_ = abase + idx * ew
            elem = aspec[1]
            ebits = (refsem.to_unsigned(raw, self.size) >> sh_) & refsem.mask(ew)
            out.append((f"view{list(apath)}[idx] (idx < {n})", sym_ite(inr, obs["od"], 0),
                        sym_ite(inr, refsem.in_shape(ebits, ew, elem[0] in SIGNED), 0)))
            r2, r2n = refsem.to_unsigned(pre["reg2"], self.size), refsem.to_unsigned(post["reg2"], self.size)
            m_ = refsem.mask(ew) << sh_
            want = (r2 & ~m_) | ((refsem.to_unsigned(pre["wd"], ew) << sh_) & m_)
            out.append((f"reg2 after reg2{list(apath)}[idx].eq(wd) (idx < {n})", sym_ite(inr, r2n, 0), sym_ite(inr, want, 0)))
            outside = refsem.mask(self.size) & ~(refsem.mask(n * ew) << abase)
            out.append((f"bits of reg2 outside the array after reg2{list(apath)}[idx].eq(wd), any idx", r2n & outside, r2 & outside))
        return out


def sim_obligations(job, spec, L, layout, leaves, size):
    text = show(spec)
    windex = job.get("windex", 0)
    base = {"program": text, "nontrivial": True, "id": job["id"] + "-view", "kind": "view read / assignment",
            "assertion": "View[path] == bit slice reinterpreted in the field's shape (constant and signal array indices); view[path].eq(x) and view[path][idx].eq(x) "
                         "at an edge change exactly that field's bits", "symbolic": f"underlying values ({size} bits), assigned values, array index"}
    with warnings.catch_warnings():
        warnings.simplefilter("ignore")
        try:
            D = LayoutDesign(spec, windex)
            sim = symsim.SymSim(D.m)
        except Exception as ex:
            # the layouts are well-formed: a signal of the layout, its views and assignments through them must build
            return [dict(base, status=VIOLATION, detail=f"{text}: building views / assignments raised {type(ex).__name__}: {str(ex)[:300]}",
                         signature={"kind": "view-exception"}, replay={"spec": spec})]
    names = {"sig": D.sig.as_value(), "reg": D.reg.as_value(), "reg2": D.reg2.as_value(), "wv": D.wv, "wd": D.wd, "idx": D.idx}

    def scen():
        sim.reset()
        sim.sym_state("v")
        pre = {k: sim.value(s) for k, s in names.items() if s is not None}
        sim.settle()
        obs = {o.name: sim.value(o) for o in D.outs + ([D.od] if D.od is not None else [])}
        sim.tick(D.cd.clk)
        post = {k: sim.value(names[k]) for k in ("reg", "reg2")}
        return D.expectations(pre, obs, post)
    try:
        paths = explore(scen, max_paths=64)
    except (Inconclusive, Unsupported) as e:
        return [dict(base, status=INCONCLUSIVE, detail=f"{type(e).__name__}: {e}")]
    for p in paths:
        if p.exc is not None:
            return [dict(base, status=ERROR, detail=f"exception: {type(p.exc).__name__}: {p.exc}")]
        conds = []
        for nm, got, want in p.value:
            ne = (got != want)
            if ne is True:
                conds = [z3.BoolVal(True)]
                break
            if ne is not False:
                conds.append(bool_term(ne))
        if not conds:
            continue
        s = z3.Solver()
        for c in p.pc:
            s.add(c)
        s.add(z3.Or(*conds))
        c = timed_check(s)
        if c == z3.unsat:
            continue
        if c == z3.unknown:
            return [dict(base, status=INCONCLUSIVE, detail="solver unknown")]
        mdl = s.model()
        vals = {str(d): mdl[d].as_long() for d in mdl.decls()}
        wrong = concrete_sim(spec, vals, windex)
        if wrong:
            return [dict(base, status=VIOLATION, detail=f"{text} with {vals}: {wrong}", signature={"kind": "view"},
                         replay={"spec": spec, "model": vals, "windex": windex})]
        return [dict(base, status=UNREPRODUCED, detail=f"{vals} did not reproduce")]
    return [dict(base, status=PROVED, paths=len(paths))]


def concrete_sim(spec, vals, windex=0):
    """Replay on the real simulator; returns a description of what is wrong, or ''."""
    from amaranth.sim import Simulator, Period

    def val(sig_):
        for k, v in vals.items():
            if k.split("_", 1)[-1] == sig_.name:
                if sig_.shape().signed and v >= 1 << len(sig_) - 1:
                    v -= 1 << len(sig_)
                return v
        return 0
    wrong = []
    with symsim.real_states(), warnings.catch_warnings():
        warnings.simplefilter("ignore")
        D = LayoutDesign(spec, windex)
        names = {"sig": D.sig.as_value(), "reg": D.reg.as_value(), "reg2": D.reg2.as_value(), "wv": D.wv, "wd": D.wd, "idx": D.idx}
        sim = Simulator(D.m)
        sim.add_clock(Period(MHz=1))

        async def tb(ctx):
            pre = {}
            for k, s_ in names.items():
                if s_ is not None:
                    pre[k] = val(s_)
                    ctx.set(s_, pre[k])
            obs = {o.name: ctx.get(o) for o in D.outs + ([D.od] if D.od is not None else [])}
            await ctx.tick()
            post = {k: ctx.get(names[k]) for k in ("reg", "reg2")}
            for nm, got, want in D.expectations(pre, obs, post):
                if got != want:
                    wrong.append(f"{nm}: simulator {got:#x}, expected {want:#x}")
        sim.add_testbench(tb)
        sim.run()
    return "; ".join(wrong)


# ---------------------------------------------------------------------------------------- enums and flags
def enum_job(job):
    out = []
    base = {"program": "shaped enumerations", "nontrivial": False}
    # const / from_bits round trip (concrete over members: the classes are finite)
    bad = []
    for w in (1, 2, 3):
        for cls in (make_enum(f"En{w}", {f"A{v}": v for v in range(1 << w)}, w),
                    make_enum(f"Es{w}", {f"B{v + (1 << w) // 2}": v for v in range(-(1 << w) // 2, (1 << w) // 2)}, Shape(w, True)),
                    make_enum(f"Ep{w}", {f"C{v}": v for v in range(0, 1 << w, 2)}, w + 1),
                    make_enum(f"Fl{w}", {f"F{k}": 1 << k for k in range(w)}, w, aenum.Flag)):
            for mbr in cls:
                c = cls.const(mbr)
                v = HConst.cast(c).value if not isinstance(c, int) else c
                sh_ = Shape.cast(cls)
                if v != refsem.in_shape(mbr.value, sh_.width, sh_.signed):
                    bad.append(f"{cls.__name__}.const({mbr}) -> {v}")
                if cls.from_bits(v) is not mbr and cls.from_bits(v) != mbr:
                    bad.append(f"{cls.__name__}.from_bits({v}) -> {cls.from_bits(v)}")
    r = dict(base, id="enum-roundtrip", kind="enum const/from_bits", assertion="E.from_bits(E.const(m)) is m and the constant has the member's value in the enum's shape")
    out.append(dict(r, status=VIOLATION, detail="; ".join(bad[:4]), signature={"kind": "enum"}, replay={"enum": True}) if bad else dict(r, status=PROVED))
    # data.Struct classes with field defaults: const() is a function of its argument alone (earlier calls leave no trace), fields not
    # named take their declared defaults; slicing a view of an array keeps the element shape
    class Header(data.Struct):
        kind: 3
        length: 8 = 16
        offset: Shape(4, True) = -2

    fa, fb, fc = fresh("hk", 3, False), fresh("hl", 8, False), fresh("ho", 4, True)

    def run_hdr(fa, fb, fc):
        before = Header.const(None).as_bits()
        first = Header.const({"kind": fa, "length": fb})
        second = Header.const({"offset": fc})
        after = Header.const(None).as_bits()
        return before, first.as_bits(), second.as_bits(), after

    def post_hdr(i, res, exc):
        if exc is not None:
            return False
        before, first, second, after = res
        dflt = 0 | (16 << 3) | (refsem.to_unsigned(-2, 4) << 11)
        w1 = i["fa"] | (i["fb"] << 3) | (refsem.to_unsigned(-2, 4) << 11)
        w2 = 0 | (16 << 3) | (refsem.to_unsigned(i["fc"], 4) << 11)
        return sym_and(sym_and(before == dflt, after == dflt), sym_and(first == w1, second == w2))
    out.append(prove("struct-class-const", "Struct class const", "class Header(Struct): kind: 3; length: 8 = 16; offset: signed(4) = -2 -- const(None), const({kind, length}), "
                     "const({offset}), const(None) in this order", {"fa": fa, "fb": fb, "fc": fc}, [], run_hdr, post_hdr, shims=sh))
    bad = []
    pairs = []
    mv = Module()
    for elem, nm in ((Shape(3, True), "signed(3)"), (data.StructLayout({"lo": 2, "hi": Shape(2, True)}), "struct"), (make_enum("SlE", {"N": -1, "Z": 0, "P": 1}, Shape(2, True)), "signed enum")):
        av = Signal(data.ArrayLayout(elem, 4), name=f"av_{nm[:3]}")
        for sl in (slice(1, 3), slice(None, None, -1), slice(None, None, 2), slice(3, None, -2), slice(1, 1)):
            sub = av[sl]
            idxs = list(range(4)[sl])
            if sub.shape() != data.ArrayLayout(elem, len(idxs)) or (sub.shape().elem_shape is not elem and sub.shape().elem_shape != elem):
                bad.append(f"array of {nm}: view[{sl}].shape() is {sub.shape()!r}")
                continue
            for j, k_ in enumerate(idxs):
                a_, b_ = sub[j], av[k_]
                if type(a_) is not type(b_) or Value.cast(a_).shape() != Value.cast(b_).shape():
                    bad.append(f"array of {nm}: view[{sl}][{j}] is a {type(a_).__name__} of shape {Value.cast(a_).shape()!r}, view[{k_}] a {type(b_).__name__} of shape {Value.cast(b_).shape()!r}")
                    continue
                # both are widened into a signal two bits wider than the element: the extension shows the signedness
                oa, ob = (Signal(Shape(len(Value.cast(b_)) + 2, True), name=f"o{len(pairs)}{x}") for x in "ab")
                mv.d.comb += [oa.eq(a_), ob.eq(b_)]
                pairs.append((f"array of {nm}: view[{sl}][{j}] vs view[{k_}]", oa, ob))
    if not bad:
        simv = symsim.SymSim(mv)

        def scen_v():
            simv.reset()
            simv.sym_state("v")
            simv.settle()
            return [(simv.value(oa), simv.value(ob)) for _, oa, ob in pairs]
        pv, = explore(scen_v, max_paths=2)
        for (label, _, _), (x_, y_) in zip(pairs, pv.value):
            ne = (x_ != y_)
            if ne is False:
                continue
            sv = z3.Solver()
            sv.add(bool_term(ne))
            if timed_check(sv) != z3.unsat:
                bad.append(f"{label} differ in value")
    # layouts are equal only if the shapes of their fields are (signedness included); a view's target has exactly the layout's size
    bad2 = []
    for mk in (lambda sh_: data.StructLayout({"a": sh_, "b": 2}), lambda sh_: data.UnionLayout({"a": sh_, "b": 2}), lambda sh_: data.ArrayLayout(sh_, 2),
               lambda sh_: data.FlexibleLayout(6, {"a": data.Field(sh_, 1)})):
        Lu, Ls = mk(Shape(4, False)), mk(Shape(4, True))
        if Lu == Ls or not (Lu != Ls) or Lu != mk(Shape(4, False)):
            bad2.append(f"{Lu!r} == {Ls!r} is {Lu == Ls}")
        for v in (9, 15, 3):
            cu = Lu.const([v, 0] if isinstance(Lu, data.ArrayLayout) else {"a": v})
            try:
                cs = Ls.const(cu)
            except (ValueError, TypeError):
                continue
            key = 0 if isinstance(Lu, data.ArrayLayout) else "a"
            if cs.shape() != Ls or cs[key] != refsem.in_shape(v, 4, True):
                bad2.append(f"{Ls!r}.const(constant of {Lu!r} with a={v}) is accepted with layout {cs.shape()!r} and reads a={cs[key]}")
        for L_ in (Lu, Ls):
            for dw in (-2, -1, 1):
                try:
                    vw = data.View(L_, Signal(L_.size + dw))
                    bad2.append(f"View({L_!r}, Signal({L_.size + dw})) is accepted (the layout is {L_.size} bits wide)")
                except (ValueError, TypeError):
                    pass
            if len(Value.cast(data.View(L_, Signal(L_.size)))) != L_.size:
                bad2.append(f"View({L_!r}, Signal({L_.size})) has another width")
    r = dict(base, id="layout-equality-and-view-width", kind="layout equality / view target width",
             assertion="layouts differing in the signedness of a field are unequal and do not accept each other's constants as they are; View(layout, target) requires len(target) == layout.size")
    out.append(dict(r, status=VIOLATION, detail="; ".join(bad2[:3]), signature={"kind": "layout-eq"}, replay={"enum": True}) if bad2 else dict(r, status=PROVED))
    r = dict(base, id="array-view-slices", kind="array view slices", assertion="view[a:b:c][j] is the same value, in the element's shape, as view[range(n)[a:b:c][j]]")
    out.append(dict(r, status=VIOLATION, detail="; ".join(bad[:3]), signature={"kind": "view-slice"}, replay={"enum": True}) if bad else dict(r, status=PROVED))
    # testbench round trip on the genuine Simulator: ctx.set(x, value) then ctx.get(x) returns that value, for every member of
    # unsigned / signed enumerations and for layouts with signed and signed-enum fields (SimulatorContext.get -> from_bits)
    from amaranth.sim import Simulator
    bad = []
    Es = make_enum("TbS", {"L": -2, "M": -1, "Z": 0, "P": 1}, Shape(2, True))
    Eu = make_enum("TbU", {"A": 0, "B": 1, "C": 3}, 2)
    Lay = data.StructLayout({"e": Es, "s": Shape(3, True), "u": 2, "f": Eu})
    with symsim.real_states(), warnings.catch_warnings():
        warnings.simplefilter("ignore")
        se, su, sl = Signal(Es, name="se"), Signal(Eu, name="su"), Signal(Lay, name="sl")
        ce = Signal(Es, name="ce")
        m_ = Module()
        m_.d.comb += ce.eq(se)
        sim_ = Simulator(m_)

        async def tb(ctx):
            for mbr in Es:
                ctx.set(se, mbr)
                for sg in (se, ce):
                    g = ctx.get(sg)
                    if g is not mbr:
                        bad.append(f"signed enum: set {mbr!r}, get({sg.as_value().name}) -> {g!r}")
            for mbr in Eu:
                ctx.set(su, mbr)
                if ctx.get(su) is not mbr:
                    bad.append(f"unsigned enum: set {mbr!r}, get -> {ctx.get(su)!r}")
            for mbr in Es:
                for sv in (-4, -1, 3):
                    ctx.set(sl, {"e": mbr, "s": sv, "u": 2, "f": Eu.C})
                    c = ctx.get(sl)
                    got = (c.e, c.s, c.u, c.f, ctx.get(sl.e), ctx.get(sl.s), ctx.get(sl.f))
                    want = (mbr, sv, 2, Eu.C, mbr, sv, Eu.C)
                    if got != want:
                        bad.append(f"layout: set e={mbr!r} s={sv}: get -> {got!r}")
        sim_.add_testbench(tb)
        try:
            sim_.run()
        except Exception as ex:
            bad.append(f"raised {type(ex).__name__}: {ex}")
    r = dict(base, id="testbench-roundtrip", kind="ctx.set / ctx.get round trip", assertion="ctx.get(x) after ctx.set(x, v) is v for enumeration members and layout fields, signed ones included")
    out.append(dict(r, status=VIOLATION, detail="; ".join(bad[:3]), signature={"kind": "tb-roundtrip"}, replay={"enum": True}) if bad else dict(r, status=PROVED))
    # FlagView operators vs Python's enum.Flag, all operand values symbolic
    for w, gaps, boundary in ((2, False, None), (3, False, None), (3, True, None), (3, True, py_enum.EJECT), (3, True, py_enum.KEEP), (3, True, py_enum.CONFORM),
                              (4, True, py_enum.EJECT), (3, False, py_enum.KEEP), (4, "multi", None), (3, "multi", py_enum.CONFORM), (3, "multi", py_enum.EJECT), (3, "multi", py_enum.KEEP)):
        names = {f"F{k}": 1 << k for k in range(min(w, 3)) if not (gaps and k == 1)}
        if gaps == "multi":
            names = {"R": 0b001, "WX": 0b110}        # a multi-bit member whose bits are no members of their own
        elif gaps:
            names["COMBO"] = 0b101
        bkw = {} if boundary is None else {"boundary": boundary}
        Fl = make_enum(f"Fx{w}{gaps}", names, w, aenum.Flag, **bkw)
        PyFl = py_enum.Flag(f"Py{w}{gaps}", names, **bkw)
        a, b = Signal(Fl, name="a"), Signal(Fl, name="b")
        m = Module()
        outs = {}
        exprs = [("or", a | b), ("and", a & b), ("xor", a ^ b), ("inv", ~a)]
        member_ops = {}
        for mem in list(Fl)[:2] + list(Fl)[-1:]:          # a member on either side: the reflected methods
            for nm, f in (("or", lambda x, y: x | y), ("and", lambda x, y: x & y), ("xor", lambda x, y: x ^ y)):
                for side in ("l", "r"):
                    key = f"{nm}-{side}-{mem.name}"
                    exprs.append((key, f(mem, a) if side == "l" else f(a, mem)))
                    member_ops[key] = (nm, mem.value)
        for nm, expr in exprs:
            o = Signal(w, name="o_" + nm)
            m.d.comb += o.eq(expr.as_value())
            outs[nm] = o
        sim = symsim.SymSim(m)

        def scen():
            sim.reset()
            sim.sym_state("v")
            av, bv = sim.value(a.as_value()), sim.value(b.as_value())
            sim.settle()
            return av, bv, {k: sim.value(o) for k, o in outs.items()}
        p, = explore(scen, max_paths=2)
        av, bv, got = p.value
        singles = 0
        for f in PyFl:
            if f.value & (f.value - 1) == 0:
                singles |= f.value
        # reference: Python's operators on the same integers (validated below against enum.Flag itself)
        want = {"or": av | bv, "and": av & bv, "xor": av ^ bv}
        for key, (nm, mv) in member_ops.items():
            want[key] = {"or": av | mv, "and": av & mv, "xor": av ^ mv}[nm]
        conds = [bool_term(got[k] != want[k]) for k in want if (got[k] != want[k]) is not False]
        # ~ : the table enum.Flag itself gives (modulo 2**w) on every value it accepts, the operand staying symbolic
        valid = {}
        for x in range(1 << w):
            try:
                fx = PyFl(x)
                if not isinstance(fx, PyFl) or fx.value != x:
                    continue            # EJECT hands back a plain int, CONFORM another value: x is not a flag value
                valid[x] = int(getattr(~fx, "value", ~fx)) & ((1 << w) - 1)
            except ValueError:
                continue
        for x, y in valid.items():
            ne = sym_and(av == x, got["inv"] != y)
            if ne is not False:
                conds.append(bool_term(ne))
            for x2 in valid:               # the integer reference for | & ^ is what enum.Flag computes
                for op_ in ("__or__", "__and__", "__xor__"):
                    try:
                        pr = getattr(PyFl(x), op_)(PyFl(x2))
                    except ValueError:
                        continue            # enum.Flag itself rejects the result (bits of a multi-bit member on their own under STRICT)
                    assert int(getattr(pr, "value", pr)) == getattr(x, op_)(x2)
        r = dict(base, id=f"flag-ops-w{w}{'-gaps' if gaps else ''}{'' if boundary is None else '-' + boundary.name}", kind="FlagView operators", nontrivial=True,
                 program=f"Flag with members {names}, shape {w}, boundary {boundary}", symbolic="both operands",
                 assertion="| & ^ equal the integer operators, also with an enumeration member as the left or the right operand; ~ equals enum.Flag's result modulo 2**width on every value enum.Flag accepts")
        if not conds:
            out.append(dict(r, status=PROVED))
            continue
        s = z3.Solver()
        s.add(z3.Or(*conds))
        c = timed_check(s)
        if c == z3.unsat:
            out.append(dict(r, status=PROVED))
        else:
            out.append(dict(r, status=VIOLATION if c == z3.sat else INCONCLUSIVE, detail=f"FlagView operator differs from enum.Flag semantics: {s.model() if c == z3.sat else ''}",
                            signature={"kind": "flag"}, replay={"enum": True}))
    return out


def job_fn(job):
    return enum_job(job) if job["what"] == "enum" else layout_job(job)


def replay(path):
    import json
    with open(path) as f:
        d = json.load(f)
    r = d["replay"]
    if r.get("enum"):
        for x in enum_job({}):
            print(x["kind"], x["status"], x.get("detail"))
        return 1
    if isinstance(r.get("spec"), dict) and r["spec"].get("family"):
        from checks import c04
        return c04.replay(path)
    spec = _tup(r["spec"])
    if "model" in r:
        w = concrete_sim(spec, r["model"], r.get("windex", 0))
        print(show(spec), r["model"], "->", w)
        return 1 if w else 0
    for x in layout_job({"id": "replay", "spec": spec}):
        print(x["kind"], x["status"], x.get("detail"))
    return 1


def _tup(x):
    return tuple(_tup(y) for y in x) if isinstance(x, list) else x


def main(tier, seed):
    rep = run.Report("C15", "other", tier, seed)
    from vlib.pysym.selfcheck import selfcheck
    rep.extra["pysym_selfcheck_comparisons"] = selfcheck(seed)
    rep.extra["range_model_grid_points"] = shims.validate_range_model()
    r = random.Random(seed)
    jobs = []
    corner = [("struct", [("a", ("u", 3)), ("b", ("s", 2)), ("c", ("u", 0)), ("d", ("enum", 2)), ("e", ("senum", 2))]),
              ("union", [("x", ("u", 4)), ("y", ("s", 2)), ("z", ("struct", [("p", ("u", 1)), ("q", ("s", 3))]))]),
              ("array", ("s", 3), 3), ("array", ("struct", [("lo", ("u", 2)), ("hi", ("s", 2))]), 2),
              ("flex", 9, [("a", 0, ("u", 4)), ("b", 2, ("s", 3)), ("c", 6, ("array", ("u", 1), 3))]),
              ("struct", [("n", ("struct", [("m", ("array", ("u", 2), 2)), ("k", ("s", 1))])), ("t", ("union", [("u", ("u", 3)), ("v", ("s", 3))]))])]
    specs = corner + [gen_layout(r, 3, 12) for _ in range(150 if tier == "quick" else 3500)]
    seen = set()
    for i, sp in enumerate(specs):
        t = show(sp)
        if t in seen or sp[0] in LEAF:
            continue
        seen.add(t)
        jobs.append({"id": f"lay-{i:05d}", "what": "layout", "spec": sp, "windex": i, "synth": tier != "quick" or i % 3 == 0})
    jobs.append({"id": "enums", "what": "enum"})
    results, stats = run.run_jobs(job_fn, jobs, chunksize=2)
    skipped = [x for x in results if x.get("status") == "skipped"]
    results = [x for x in results if x.get("status") != "skipped"]
    rep.extra["skipped"] = len(skipped)
    rep.add(results, stats)
    # mutation twin: a wrong offset in the reference must be refuted
    sp = ("struct", [("a", ("u", 3)), ("b", ("s", 2))])
    L = build(sp)
    sig = Signal(L, name="sig")
    o = Signal(Shape(2, True), name="o")
    m = Module()
    m.d.comb += o.eq(sig.b)
    sim = symsim.SymSim(m)

    def scen():
        sim.reset()
        sim.sym_state("v")
        raw = sim.value(sig.as_value())
        sim.settle()
        return raw, sim.value(o)
    p, = explore(scen)
    s = z3.Solver()
    s.add(bool_term(p.value[1] != ref_leaf(p.value[0], 2, ("s", 2))))
    rep.twin("mutation: reference with field b at offset 2 instead of 3 must be refuted", s.check() == z3.sat)
    rep.source_files = FILES
    rep.functions = ["amaranth.lib.data.{StructLayout,UnionLayout,ArrayLayout,FlexibleLayout}", "amaranth.lib.data.Layout.const / from_bits", "amaranth.lib.data.Const.__init__/__getitem__/as_bits",
                     "amaranth.lib.data.View.__getitem__ / eq", "amaranth.lib.enum.EnumType.const / from_bits", "amaranth.lib.enum.FlagView.{__or__,__and__,__xor__,__invert__}",
                     "amaranth.hdl._ast.Const.__init__ (field normalisation)", "amaranth.sim._pyrtl compiled code of view reads and field assignments"]
    rep.bounds = {"layouts": len(jobs) - 1, "depth": "<= 3", "fields": "<= 4 per level", "field_width": "0..4, signed, enum fields", "total_size": "<= 12 (14) bits",
                  "outside": "layouts deeper than 3 levels or wider than the stated bound; EJECT / KEEP flags whose shape is wider than the bit length of the flags (Python complements within the flags' bit length, hardware within the shape); the in-synthesis clause runs through C04's translation validation for a share of the designs"}
    rep.stubs = ["amaranth.lib.data.operator/range, amaranth.hdl._ast.operator/int, amaranth.utils.operator (identity / arithmetic models on proxies)", "HSignalState", "if-converting interpreter"]
    rep.assumptions = []
    rep.rule = "hand-written corner layouts plus seeded random layout trees; obligations per layout: placement, from_bits/as_bits/Const[] for all raw patterns, const(fields), view reads, view field assignment"
    rep.explanation = ("The real layout classes are exercised with a symbolic underlying bit pattern and symbolic field values (forking symbolic execution with shims) and through "
                       "the compiled simulator code for views; z3 decides equality with the bit slices the documented placement rules give.")
    return rep.finish()
