"""C18 - I/O buffers apply direction, inversion and registering exactly per bit."""
import itertools
import random
import warnings

import z3

from vlib import run, symsim, rtlil_smt
from vlib.ts import as_bv
from vlib.run import PROVED, VIOLATION, INCONCLUSIVE, ERROR, UNREPRODUCED
from vlib.pysym import explore, timed_check, Inconclusive, Unsupported

from amaranth.hdl import Module, Signal, ClockDomain, IOPort, Cat
from amaranth.lib import io
from amaranth.back import rtlil

FILES = ["amaranth/lib/io.py", "amaranth/hdl/_ir.py", "amaranth/back/rtlil.py", "amaranth/sim/_pyrtl.py"]


# ---------------------------------------------------------------------------------------- port expressions
def make_port(spec, sim_ports):
    """spec: ('base', name, direction, width, invert tuple) | ('slice', p, a, b) | ('index', p, i) | ('inv', p) | ('add', p, q)."""
    k = spec[0]
    if k == "base":
        _, name, d, w, inv = spec
        if name in sim_ports:
            return sim_ports[name]
        if sim_ports.get("__real__"):
            p = io.SingleEndedPort(IOPort(w, name=name), invert=list(inv), direction=d)
        else:
            p = io.SimulationPort(d, w, invert=list(inv), name=name)
        sim_ports[name] = p
        return p
    if k == "slice":
        return make_port(spec[1], sim_ports)[slice(*spec[2:])]
    if k == "index":
        return make_port(spec[1], sim_ports)[spec[2]]
    if k == "inv":
        return ~make_port(spec[1], sim_ports)
    return make_port(spec[1], sim_ports) + make_port(spec[2], sim_ports)


def ref_bits(spec):
    """Reference port algebra: list of (base name, bit, inverted) per bit, and the direction."""
    k = spec[0]
    if k == "base":
        _, name, d, w, inv = spec
        return [(name, j, bool(inv[j])) for j in range(w)], d
    if k == "slice":
        b, d = ref_bits(spec[1])
        return b[slice(*spec[2:])], d
    if k == "index":
        b, d = ref_bits(spec[1])
        return [b[spec[2]]], d
    if k == "inv":
        b, d = ref_bits(spec[1])
        return [(n, j, not i) for (n, j, i) in b], d
    b1, d1 = ref_bits(spec[1])
    b2, d2 = ref_bits(spec[2])
    d = d1 if d1 == d2 else ("io" if "io" in (d1, d2) and False else _and_dir(d1, d2))
    return b1 + b2, d


def _and_dir(a, b):
    if a == b:
        return a
    if a == "io":
        return b
    if b == "io":
        return a
    return None       # input + output: not combinable


def show(spec):
    k = spec[0]
    if k == "base":
        return f"{spec[1]}({spec[2]},{spec[3]},inv={''.join('1' if x else '0' for x in spec[4])})"
    if k == "slice":
        return f"{show(spec[1])}[{'' if spec[2] is None else spec[2]}:{'' if spec[3] is None else spec[3]}{':' + str(spec[4]) if len(spec) > 4 and spec[4] is not None else ''}]"
    if k == "index":
        return f"{show(spec[1])}[{spec[2]}]"
    if k == "inv":
        return f"~{show(spec[1])}"
    return f"({show(spec[1])} + {show(spec[2])})"


def sim_job(job):
    pspec, bdir, ff = job["port"], job["bdir"], job["ff"]
    idom, odom, tickdom = job.get("idom"), job.get("odom"), job.get("tick", "sync")
    dom_kw = {k: v for k, v in (("i_domain", idom), ("o_domain", odom)) if v is not None}
    eff_i, eff_o = idom or "sync", odom or "sync"            # the named domains; "sync" when not named
    text = f"{'FFBuffer' if ff else 'Buffer'}({bdir!r}, {show(pspec)}{''.join(f', {k}={v!r}' for k, v in dom_kw.items())})" + (f", edge of {tickdom!r}" if dom_kw else "")
    base = {"id": job["id"], "program": text, "nontrivial": True, "kind": "simulation-port " + ("FFBuffer" if ff else "Buffer"),
            "symbolic": "o, oe, port inputs" + (", register stages" if ff else ""),
            "assertion": "port.o == o ^ mask, every port.oe bit == oe, i == (oe ? port.o : port.i) ^ mask (bidirectional) or port.i ^ mask, per bit of the composed port"
                         + ("; exactly one register stage per direction" if ff else "")}
    sports = {}
    try:
        port = make_port(pspec, sports)
    except (TypeError, ValueError, IndexError) as ex:
        return [dict(base, kind="unconstructible", status="skipped", detail=str(ex))]
    bits, pdir = ref_bits(pspec)
    algebra_bad = []
    if len(port) != len(bits):
        algebra_bad.append(f"len {len(port)} != {len(bits)}")
    if tuple(port.invert) != tuple(i for (_, _, i) in bits):
        algebra_bad.append(f"invert {port.invert} != {[i for (_, _, i) in bits]}")
    if pdir is not None and port.direction != io.Direction(pdir):
        algebra_bad.append(f"direction {port.direction} != {pdir}")
    ralg = dict(base, id=job["id"] + "-alg", kind="port algebra", nontrivial=False,
                assertion="width, direction and inversion mask of the composed port equal the bit-by-bit composition")
    if algebra_bad:
        return [dict(ralg, status=VIOLATION, detail=f"{show(pspec)}: " + "; ".join(algebra_bad), signature={"kind": "algebra"}, replay={"job": job})]
    out = [dict(ralg, status=PROVED)]
    top = Module()
    cds = {n: ClockDomain(n) for n in sorted({"sync", eff_i, eff_o, tickdom})}
    top.domains += list(cds.values())
    cd = cds[tickdom]
    try:
        buf = io.FFBuffer(bdir, port, **dom_kw) if ff else io.Buffer(bdir, port)
    except (ValueError, TypeError) as ex:
        return out + [dict(base, kind="unconstructible", status="skipped", detail=str(ex))]
    top.submodules.buf = buf
    w = len(port)
    o, oe, i = Signal(w, name="o"), Signal(name="oe"), Signal(w, name="i")
    if bdir != "i":
        top.d.comb += [buf.o.eq(o), buf.oe.eq(oe)]
    if bdir != "o":
        top.d.comb += i.eq(buf.i)
    with warnings.catch_warnings():
        warnings.simplefilter("ignore")
        sim = symsim.SymSim(top)

    def scen():
        sim.reset()
        sim.sym_state("v")
        sim.settle()
        vals = {"o": sim.value(o), "oe": sim.value(oe), "i": sim.value(i)}
        pv = {n: {k: (sim.value(getattr(p, k)) if getattr(p, "_" + k) is not None else None) for k in ("i", "o", "oe")} for n, p in sports.items()}
        post = None
        if ff:
            sim.tick(cd.clk)
            post = {"i": sim.value(i), "ports": {n: {k: (sim.value(getattr(p, k)) if getattr(p, "_" + k) is not None else None) for k in ("i", "o", "oe")}
                                                  for n, p in sports.items()}}
        return vals, pv, post
    p, = explore(scen, max_paths=4)
    if p.exc is not None:
        return out + [dict(base, status=ERROR, detail=f"exception: {type(p.exc).__name__}: {p.exc}")]
    vals, pv, post = p.value
    conds = []

    def bit(x, j):
        return (x >> j) & 1
    if not ff:
        for kbit, (pn, j, inv) in enumerate(bits):
            if bdir != "i":
                conds.append(bit(pv[pn]["o"], j) != (bit(vals["o"], kbit) ^ int(inv)))
                conds.append(bit(pv[pn]["oe"], j) != vals["oe"])
            if bdir == "i":
                conds.append(bit(vals["i"], kbit) != (bit(pv[pn]["i"], j) ^ int(inv)))
            if bdir == "io":
                from vlib.pysym import sym_ite
                src = sym_ite(bit(pv[pn]["oe"], j) != 0, bit(pv[pn]["o"], j), bit(pv[pn]["i"], j))
                conds.append(bit(vals["i"], kbit) != (src ^ int(inv)))
    else:
        # one register stage in the named domain: after an edge of that domain's clock the pad side shows the PREVIOUS fabric-side
        # values and vice versa; an edge of another domain's clock leaves the stage as it was
        from vlib.pysym import sym_ite
        for kbit, (pn, j, inv) in enumerate(bits):
            if bdir != "i":
                if eff_o == tickdom:
                    conds.append(bit(post["ports"][pn]["o"], j) != (bit(vals["o"], kbit) ^ int(inv)))
                    conds.append(bit(post["ports"][pn]["oe"], j) != vals["oe"])
                else:
                    conds.append(bit(post["ports"][pn]["o"], j) != bit(pv[pn]["o"], j))
                    conds.append(bit(post["ports"][pn]["oe"], j) != bit(pv[pn]["oe"], j))
            if bdir != "o" and eff_i != tickdom:
                conds.append(bit(post["i"], kbit) != bit(vals["i"], kbit))
            elif bdir == "i":
                conds.append(bit(post["i"], kbit) != (bit(pv[pn]["i"], j) ^ int(inv)))
            elif bdir == "io":
                src = sym_ite(bit(pv[pn]["oe"], j) != 0, bit(pv[pn]["o"], j), bit(pv[pn]["i"], j))
                conds.append(bit(post["i"], kbit) != (src ^ int(inv)))
    from vlib.pysym import bool_term
    conds = [bool_term(c) for c in conds if c is not False]
    if not conds:
        return out + [dict(base, status=PROVED)]
    s = z3.Solver()
    s.add(z3.Or(*conds))
    c = timed_check(s)
    if c == z3.unsat:
        return out + [dict(base, status=PROVED)]
    if c == z3.unknown:
        return out + [dict(base, status=INCONCLUSIVE, detail="solver unknown")]
    mdl = s.model()
    vals_c = {str(d): mdl[d].as_long() for d in mdl.decls()}
    rep = sim_concrete(job, vals_c)
    if rep:
        return out + [dict(base, status=VIOLATION, detail=f"{text} with {vals_c}: {rep}", signature={"kind": base["kind"], "bdir": bdir}, replay={"job": job, "model": vals_c})]
    return out + [dict(base, status=UNREPRODUCED, detail=f"{vals_c} did not reproduce")]


def sim_concrete(job, vals):
    """Replay with the real Simulator; returns a description of wrong bits or ''."""
    from amaranth.sim import Simulator
    pspec, bdir, ff = job["port"], job["bdir"], job["ff"]
    idom, odom, tickdom = job.get("idom"), job.get("odom"), job.get("tick", "sync")
    dom_kw = {k: v for k, v in (("i_domain", idom), ("o_domain", odom)) if v is not None}
    eff_i, eff_o = idom or "sync", odom or "sync"
    sports = {}
    with symsim.real_states():
        port = make_port(pspec, sports)
        bits, _ = ref_bits(pspec)
        top = Module()
        cds = {n: ClockDomain(n) for n in sorted({"sync", eff_i, eff_o, tickdom})}
        top.domains += list(cds.values())
        cd = cds[tickdom]
        buf = io.FFBuffer(bdir, port, **dom_kw) if ff else io.Buffer(bdir, port)
        top.submodules.buf = buf
        w = len(port)
        o, oe, i = Signal(w, name="o"), Signal(name="oe"), Signal(w, name="i")
        if bdir != "i":
            top.d.comb += [buf.o.eq(o), buf.oe.eq(oe)]
        if bdir != "o":
            top.d.comb += i.eq(buf.i)
        sim = Simulator(top)
        wrong = []

        def val(name):
            for k, v in vals.items():
                if k.split("_", 1)[-1] == name:
                    return v
            return 0

        async def tb(ctx):
            for sl in sim._engine._state.slots:
                sg = sl.signal
                if len(sg) and not any(sg is c.clk for c in cds.values()):
                    try:
                        ctx.set(sg, val(sg.name))
                    except Exception:
                        pass
            pre_i = {n: (ctx.get(p.i) if p._i is not None else 0) for n, p in sports.items()}
            pre_o = {n: (ctx.get(p.o) if p._o is not None else 0) for n, p in sports.items()}
            pre_oe = {n: (ctx.get(p.oe) if p._oe is not None else 0) for n, p in sports.items()}
            vo, voe = (ctx.get(o), ctx.get(oe)) if bdir != "i" else (0, 0)
            vi = ctx.get(i) if bdir != "o" else 0
            if ff:
                ctx.set(cd.clk, 1)
            for kbit, (pn, j, inv) in enumerate(bits):
                p = sports[pn]
                if bdir != "i" and ff and eff_o != tickdom:
                    if (ctx.get(p.o) >> j) & 1 != (pre_o[pn] >> j) & 1:
                        wrong.append(f"{pn}.o[{j}] changed at an edge of another domain")
                    if (ctx.get(p.oe) >> j) & 1 != (pre_oe[pn] >> j) & 1:
                        wrong.append(f"{pn}.oe[{j}] changed at an edge of another domain")
                elif bdir != "i":
                    if (ctx.get(p.o) >> j) & 1 != ((vo >> kbit) & 1) ^ int(inv):
                        wrong.append(f"{pn}.o[{j}]")
                    if (ctx.get(p.oe) >> j) & 1 != voe:
                        wrong.append(f"{pn}.oe[{j}]")
                if bdir != "o" and ff and eff_i != tickdom:
                    if (ctx.get(i) >> kbit) & 1 != (vi >> kbit) & 1:
                        wrong.append(f"i[{kbit}] changed at an edge of another domain")
                elif bdir == "i":
                    if (ctx.get(i) >> kbit) & 1 != ((pre_i[pn] >> j) & 1) ^ int(inv):
                        wrong.append(f"i[{kbit}]")
                elif bdir == "io":
                    src = ((pre_o[pn] >> j) & 1) if (pre_oe[pn] >> j) & 1 else ((pre_i[pn] >> j) & 1)
                    if (ctx.get(i) >> kbit) & 1 != src ^ int(inv):
                        wrong.append(f"i[{kbit}]")
        sim.add_testbench(tb)
        sim.run()
    return ", ".join(wrong)


# ---------------------------------------------------------------------------------------- real I/O ports
def real_job(job):
    w, inv, pkind, bdir = job["width"], job["invert"], job["pkind"], job["bdir"]
    text = f"Buffer({bdir!r}, {pkind}Port(width {w}, invert={''.join('1' if x else '0' for x in inv)})) -> RTLIL"
    base = {"id": job["id"], "program": text, "nontrivial": True, "kind": "real-port RTLIL",
            "symbolic": "o, oe, pad value", "assertion": "pad == o ^ mask while enabled (complement on the n side of a differential pair); i == pad ^ mask"}
    pad = IOPort(w, name="pad")
    if pkind == "SingleEnded":
        port = io.SingleEndedPort(pad, invert=list(inv), direction=bdir if job.get("pdir_same") else "io")
        pads = [pad]
    else:
        padn = IOPort(w, name="padn")
        port = io.DifferentialPort(pad, padn, invert=list(inv), direction=bdir if job.get("pdir_same") else "io")
        pads = [pad, padn]
    m = Module()
    m.submodules.buf = buf = io.Buffer(bdir, port)
    o, oe, i = Signal(w, name="o"), Signal(name="oe"), Signal(w, name="i")
    ports = list(pads)
    if bdir != "i":
        m.d.comb += [buf.o.eq(o), buf.oe.eq(oe)]
        ports += [o, oe]
    if bdir != "o":
        m.d.comb += i.eq(buf.i)
        ports.append(i)
    try:
        with warnings.catch_warnings():
            warnings.simplefilter("ignore")
            text_r = rtlil.convert(m, ports=ports, emit_src=False)
    except Exception as ex:
        return [dict(base, status=VIOLATION, detail=f"{text}: rtlil.convert raises {type(ex).__name__}: {ex}", signature={"kind": "convert-raises", "width": w},
                     replay={"job": job})]
    try:
        R = rtlil_smt.Design(text_r)
    except rtlil_smt.RtlilError as ex:
        return [dict(base, status=VIOLATION, detail=f"{text}: RTLIL not interpretable: {ex}", signature={"kind": "not-interpretable"}, replay={"job": job})]
    if w == 0:
        return [dict(base, status=PROVED, nontrivial=False)]
    zo, zoe = z3.BitVec("o", w), z3.BitVec("oe", 1)
    ins = {}
    if "\\o" in R.wires:
        ins["\\o"] = zo
    if "\\oe" in R.wires:
        ins["\\oe"] = zoe
    for wn in R.inputs:
        if wn not in ins and R.wires[wn]:
            ins[wn] = z3.BitVec("in_" + wn[1:], R.wires[wn])       # an input-only pad: any value
    ev = R.evaluator(ins, {"dff": {}, "mem": {}, "memrd": {}})
    mask = sum(1 << k for k, b in enumerate(inv) if b)
    conds = []
    try:
        if bdir != "i":
            padv = ev.wire("\\pad")
            conds.append(z3.And(zoe == 1, padv != (zo ^ z3.BitVecVal(mask, w))))
            if pkind == "Differential":
                padnv = ev.wire("\\padn")
                conds.append(z3.And(zoe == 1, padnv != ~(zo ^ z3.BitVecVal(mask, w))))
        if bdir != "o":
            iv = ev.wire("\\i")
            padv = ev.wire("\\pad")
            conds.append(iv != (padv ^ z3.BitVecVal(mask, w)))
    except rtlil_smt.RtlilError as ex:
        return [dict(base, status=VIOLATION, detail=f"{text}: RTLIL not interpretable: {ex}", signature={"kind": "not-interpretable"}, replay={"job": job})]
    # each pad bit is used by exactly one buffer cell
    users = {}
    for (name, kind, params, cports) in R.cells:
        if kind == "$tribuf":
            for (wname, b) in R._lhs_bits(cports["\\Y"]):
                users[(wname, b)] = users.get((wname, b), 0) + 1
    dup = [k for k, v in users.items() if v > 1]
    s = z3.Solver()
    s.add(z3.Or(*conds) if conds else z3.BoolVal(False))
    c = timed_check(s)
    if c == z3.unsat and not dup:
        return [dict(base, status=PROVED)]
    if c == z3.unknown:
        return [dict(base, status=INCONCLUSIVE, detail="solver unknown")]
    return [dict(base, status=VIOLATION, detail=f"{text}: " + (f"pad bits driven by several buffer cells: {dup}" if dup else f"RTLIL pad/fabric function differs: {s.model()}"),
                 signature={"kind": "real-port", "pkind": pkind, "bdir": bdir}, replay={"job": job})]


def real_expr_job(job):
    """Buffers on real ports built from slices, concatenations and inversions of two pads, possibly overlapping."""
    spec, bdir = job["port"], job["bdir"]
    text = f"Buffer({bdir!r}, {show(spec)}) on real pads -> RTLIL"
    base = {"id": job["id"], "program": text, "nontrivial": True, "kind": "real-port expression RTLIL", "symbolic": "o, oe, pad values",
            "assertion": "a pad bit used twice is rejected; otherwise pad bit == o bit ^ its inversion while enabled, i bit == pad bit ^ inversion, other pad bits untouched"}
    bits, d = ref_bits(spec)
    w = len(bits)
    dupl = len({(n, j) for n, j, _ in bits}) < w
    pads = {"__real__": True}
    try:
        port = make_port(spec, pads)
    except IndexError as ex:
        # a slice whose start lies beyond its stop is refused for every Amaranth value (Python would give an empty slice)
        return [dict(base, kind="unconstructible", status="skipped", detail=str(ex))]
    except Exception as ex:
        return [dict(base, status=VIOLATION, detail=f"{text}: building the port raises {type(ex).__name__}: {ex}", signature={"kind": "port-raises"}, replay={"job": job})]
    pads.pop("__real__")
    m = Module()
    m.submodules.buf = buf = io.Buffer(bdir, port)
    o, oe, i = Signal(w, name="o"), Signal(name="oe"), Signal(w, name="i")
    ports = [p._io for p in pads.values()]
    if bdir != "i":
        m.d.comb += [buf.o.eq(o), buf.oe.eq(oe)]
        ports += [o, oe]
    if bdir != "o":
        m.d.comb += i.eq(buf.i)
        ports.append(i)
    try:
        with warnings.catch_warnings():
            warnings.simplefilter("ignore")
            text_r = rtlil.convert(m, ports=ports, emit_src=False)
    except Exception as ex:
        if dupl and type(ex).__name__ == "DriverConflict":
            return [dict(base, status=PROVED, nontrivial=False)]
        return [dict(base, status=VIOLATION, detail=f"{text}: rtlil.convert raises {type(ex).__name__}: {ex}", signature={"kind": "convert-raises", "width": w},
                     replay={"job": job})]
    if dupl:
        twice = sorted({(n, j) for n, j, _ in bits if sum(1 for n2, j2, _ in bits if (n2, j2) == (n, j)) > 1})
        return [dict(base, status=VIOLATION, detail=f"{text}: pad bits {twice} are used by two buffer bits, yet the design is accepted", signature={"kind": "used-twice"},
                     replay={"job": job})]
    try:
        R = rtlil_smt.Design(text_r)
    except rtlil_smt.RtlilError as ex:
        return [dict(base, status=VIOLATION, detail=f"{text}: RTLIL not interpretable: {ex}", signature={"kind": "not-interpretable"}, replay={"job": job})]
    if w == 0:
        return [dict(base, status=PROVED, nontrivial=False)]
    zo, zoe = z3.BitVec("o", w), z3.BitVec("oe", 1)
    ins = {}
    if "\\o" in R.wires:
        ins["\\o"] = zo
    if "\\oe" in R.wires:
        ins["\\oe"] = zoe
    for wn in R.inputs:
        if wn not in ins and R.wires[wn]:
            ins[wn] = z3.BitVec("in_" + wn[1:], R.wires[wn])
    ev = R.evaluator(ins, {"dff": {}, "mem": {}, "memrd": {}})
    conds = []
    try:
        iv = ev.wire("\\i") if bdir != "o" else None
        for k, (n, j, inv) in enumerate(bits):
            padbit = ev.bit("\\" + n, j)
            ob = z3.Extract(k, k, zo) ^ z3.BitVecVal(int(inv), 1)
            if bdir != "i":
                conds.append(z3.And(zoe == 1, padbit != ob))
            if bdir != "o":
                conds.append(z3.Extract(k, k, iv) != (padbit ^ z3.BitVecVal(int(inv), 1)))
    except rtlil_smt.RtlilError as ex:
        return [dict(base, status=VIOLATION, detail=f"{text}: RTLIL not interpretable: {ex}", signature={"kind": "not-interpretable"}, replay={"job": job})]
    users = {}
    for (name, kind, params, cports) in R.cells:
        if kind == "$tribuf":
            for (wname, b) in R._lhs_bits(cports["\\Y"]):
                users[(wname, b)] = users.get((wname, b), 0) + 1
    dup = [k for k, v in users.items() if v > 1]
    # pad bits that are not part of the port expression stay untouched: no driver at all (or the top-level input itself)
    used = {(n, j) for n, j, _ in bits}
    extra = []
    for n, pp in pads.items():
        for j in range(len(pp._io)):
            drv = R.drivers.get(("\\" + n, j))
            if (n, j) not in used and drv is not None and drv[0] != "$input":
                extra.append((n, j))
    s = z3.Solver()
    s.add(z3.Or(*conds) if conds else z3.BoolVal(False))
    c = timed_check(s)
    if c == z3.unsat and not dup and not extra:
        return [dict(base, status=PROVED)]
    if c == z3.unknown:
        return [dict(base, status=INCONCLUSIVE, detail="solver unknown")]
    return [dict(base, status=VIOLATION, detail=f"{text}: " + (f"pad bits driven by several buffer cells: {dup}" if dup else f"pad bits driven although not part of the port: {extra}" if extra
                                                                    else f"RTLIL pad/fabric function differs: {s.model()}"),
                 signature={"kind": "real-port-expr", "bdir": bdir}, replay={"job": job})]


def gen_real_exprs(r, n):
    """Expressions over two pads; the same pad may occur in both operands of '+', so bits can overlap."""
    out = []
    for _ in range(n):
        d = r.choice(["i", "o", "io"])
        bases = [("base", nm, d, w_, tuple(r.random() < 0.5 for _ in range(w_))) for nm, w_ in (("pa", r.randint(1, 4)), ("pb", r.randint(0, 3)))]

        def piece():
            b = r.choice(bases)
            w_ = b[3]
            c = r.random()
            if c < 0.2 and w_ >= 2:
                # a slice of a slice: the offsets add up
                a = r.randint(0, w_ - 1)
                b1_ = r.randint(a + 1, w_)
                iw = b1_ - a
                a2 = r.randint(0, iw)
                e = ("slice", ("slice", b, a, b1_), a2, r.randint(a2, iw))
            elif c < 0.5:
                a = r.randint(0, w_)
                e = ("slice", b, a, r.randint(a, w_))
            elif c < 0.7 and w_:
                e = ("index", b, r.randrange(-w_, w_))
            elif c < 0.85:
                e = ("slice", b, r.choice([None, r.randint(-w_, w_)]), r.choice([None, r.randint(-w_, w_)]), r.choice([None, 2, -1]))
            else:
                e = b
            return ("inv", e) if r.random() < 0.3 else e
        e = piece()
        for _ in range(r.randint(0, 2)):
            e = ("add", e, piece())
        out.append(e)
    return out


def algebra_job(job):
    """Concrete, total over the finite direction domain: `+` of two ports of every kind takes the meet of the directions (a bidirectional
    operand adopts the other's direction, input + output is refused), in either operand order; slices and ~ keep the direction."""
    kind, d1, d2 = job["pkind"], job["d1"], job["d2"]
    text = f"{kind}Port({d1!r}, 2, invert=10) + {kind}Port({d2!r}, 1, invert=1)"
    base = {"id": job["id"], "program": text, "kind": "port algebra: directions", "nontrivial": d1 != d2,
            "assertion": "p + q has the meet of the two directions (ValueError for input + output), the concatenated inversion mask and the summed width; "
                         "slicing and inverting keep the direction"}

    def mk(d, w, inv, nm):
        if kind == "SingleEnded":
            return io.SingleEndedPort(IOPort(w, name=nm), invert=list(inv), direction=d)
        if kind == "Differential":
            return io.DifferentialPort(IOPort(w, name=nm + "_p"), IOPort(w, name=nm + "_n"), invert=list(inv), direction=d)
        return io.SimulationPort(d, w, invert=list(inv), name=nm)
    want = _and_dir(d1, d2)
    bad = []
    try:
        p, q = mk(d1, 2, (False, True), "pa"), mk(d2, 1, (True,), "pb")
        for a, b, inv in ((p, q, (False, True, True)), (q, p, (True, False, True))):
            try:
                c = a + b
            except ValueError:
                if want is not None:
                    bad.append("the concatenation is refused")
                continue
            if want is None:
                bad.append(f"input + output is accepted (direction {c.direction})")
            elif c.direction != io.Direction(want) or len(c) != 3 or tuple(c.invert) != inv:
                bad.append(f"direction {c.direction}, width {len(c)}, invert {tuple(c.invert)}; expected {want}, 3, {inv}")
        for nm, e in (("slice", p[0:1]), ("index", p[1]), ("invert", ~p), ("empty slice", p[1:1])):
            if e.direction != io.Direction(d1):
                bad.append(f"{nm} has direction {e.direction}")
    except Exception as ex:
        bad.append(f"raises {type(ex).__name__}: {ex}")
    if bad:
        return [dict(base, status=VIOLATION, detail=f"{text}: " + "; ".join(bad[:3]), signature={"kind": "algebra-direction", "pkind": kind}, replay={"job": job})]
    return [dict(base, status=PROVED)]


def compat_job(job):
    """Concrete, total over the finite direction domain: a buffer of direction b on a port of direction p is constructible iff
    p is bidirectional or p == b; every other combination is refused with ValueError."""
    kind, bcls, bdir, pdir = job["pkind"], job["bcls"], job["bdir"], job["pdir"]
    text = f"{bcls}({bdir!r}, {kind}Port(direction {pdir!r}, width 2))"
    base = {"id": job["id"], "program": text, "kind": "port/buffer direction combinations", "nontrivial": True,
            "assertion": "the buffer is constructible iff the port is bidirectional or has the buffer's direction; otherwise ValueError"}
    if kind == "SingleEnded":
        port = io.SingleEndedPort(IOPort(2, name="pa"), direction=pdir)
    elif kind == "Differential":
        port = io.DifferentialPort(IOPort(2, name="pa_p"), IOPort(2, name="pa_n"), direction=pdir)
    else:
        port = io.SimulationPort(pdir, 2, name="pa")
    legal = pdir == "io" or pdir == bdir
    try:
        buf = getattr(io, bcls)(bdir, port)
        got = "constructed"
        if buf.signature.direction != io.Direction(bdir):
            got = f"constructed with direction {buf.signature.direction}"
    except ValueError:
        got = "ValueError"
    except Exception as ex:
        got = f"{type(ex).__name__}: {ex}"
    want = "constructed" if legal else "ValueError"
    if got != want:
        return [dict(base, status=VIOLATION, detail=f"{text}: {got}, expected {want}", signature={"kind": "direction-combination", "bcls": bcls}, replay={"job": job})]
    return [dict(base, status=PROVED)]


def job_fn(job):
    if job["what"] == "compat":
        return compat_job(job)
    if job["what"] == "algebra":
        return algebra_job(job)
    if job["what"] == "sim":
        return sim_job(job)
    return real_expr_job(job) if job["what"] == "real-expr" else real_job(job)


def replay(path):
    import json
    with open(path) as f:
        d = json.load(f)
    r = d["replay"]
    job = r["job"]
    if job["what"] == "real":
        job["invert"] = tuple(job["invert"])
        x = real_job(job)[0]
        print(x.get("detail"))
        return 1 if x["status"] == VIOLATION else 0
    if job["what"] in ("algebra", "compat"):
        x = (algebra_job if job["what"] == "algebra" else compat_job)(job)[0]
        print(x.get("detail"))
        return 1 if x["status"] == VIOLATION else 0
    job["port"] = _tup(job["port"])
    if "model" in r:
        rep = sim_concrete(job, r["model"])
        print(d["program"], r["model"], "wrong:", rep)
        return 1 if rep else 0
    x = sim_job(job)
    for y in x:
        print(y["kind"], y["status"], y.get("detail"))
    return 1 if any(y["status"] == VIOLATION for y in x) else 0


def _tup(x):
    return tuple(_tup(y) for y in x) if isinstance(x, list) else x


def gen_ports(r, n):
    out = []
    for _ in range(n):
        def base(name, d=None):
            w = r.randint(0, 4)
            return ("base", name, d or r.choice(["i", "o", "io"]), w, tuple(r.random() < 0.5 for _ in range(w)))

        def expr(depth, name):
            if depth == 0 or r.random() < 0.3:
                return base(name)
            c = r.random()
            if c < 0.35:
                sub = expr(depth - 1, name)
                w = len(ref_bits(sub)[0])
                if r.random() < 0.5:
                    a = r.randint(0, w)
                    return ("slice", sub, a, r.randint(a, w))
                # Python slice semantics in full: negative and missing bounds, steps
                bound = lambda: r.choice([None, r.randint(-w - 1, w + 1)])
                return ("slice", sub, bound(), bound(), r.choice([None, None, 1, 2, -1, -2]))
            if c < 0.45:
                sub = expr(depth - 1, name)
                w = len(ref_bits(sub)[0])
                if w == 0:
                    return sub
                return ("index", sub, r.randrange(-w, w))
            if c < 0.7:
                return ("inv", expr(depth - 1, name))
            a = expr(depth - 1, name + "a")
            b = expr(depth - 1, name + "b")
            if _and_dir(ref_bits(a)[1], ref_bits(b)[1]) is None:
                return a
            return ("add", a, b)
        out.append(expr(3, "p"))
    return out


def main(tier, seed):
    rep = run.Report("C18", "other", tier, seed)
    from vlib.pysym.selfcheck import selfcheck
    rep.extra["pysym_selfcheck_comparisons"] = selfcheck(seed)
    r = random.Random(seed)
    jobs = []
    # exhaustive small: every width 0..3, every mask, every legal port/buffer direction pair, Buffer and FFBuffer
    for w in range(0, 4 if tier == "quick" else 5):
        for mask in range(1 << w):
            inv = tuple(bool((mask >> k) & 1) for k in range(w))
            for pdir in ("i", "o", "io"):
                for bdir in ("i", "o", "io"):
                    if (pdir == "i" and bdir != "i") or (pdir == "o" and bdir != "o"):
                        continue
                    for ff in (False, True):
                        if tier == "quick" and ff and w == 3 and mask % 3:
                            continue
                        jobs.append({"id": f"sim-{len(jobs):05d}", "what": "sim", "port": ("base", "p", pdir, w, inv), "bdir": bdir, "ff": ff})
    for pk in ("SingleEnded", "Differential", "Simulation"):
        for d1 in ("i", "o", "io"):
            for d2 in ("i", "o", "io"):
                jobs.append({"id": f"alg-{pk}-{d1}-{d2}", "what": "algebra", "pkind": pk, "d1": d1, "d2": d2})
    for pk in ("SingleEnded", "Differential", "Simulation"):
        for bcls in ("Buffer", "FFBuffer", "DDRBuffer"):
            for bdir in ("i", "o", "io"):
                for pdir in ("i", "o", "io"):
                    jobs.append({"id": f"compat-{bcls}-{pk}-{bdir}-{pdir}", "what": "compat", "pkind": pk, "bcls": bcls, "bdir": bdir, "pdir": pdir})
    # FFBuffer with named domains: every combination of named / defaulted input and output domain, an edge of each domain involved
    for w, inv in ((1, (True,)), (2, (False, True))) + (() if tier == "quick" else ((3, (True, True, False)),)):
        for pdir, bdir in (("i", "i"), ("o", "o"), ("io", "i"), ("io", "o"), ("io", "io")):
            for idom in ((None, "di", "sync") if bdir != "o" else (None,)):
                for odom in ((None, "do", "di", "sync") if bdir != "i" else (None,)):
                    if idom is None and odom is None:
                        continue
                    for tick in sorted({"sync", idom or "sync", odom or "sync"}):
                        jobs.append({"id": f"sim-{len(jobs):05d}", "what": "sim", "port": ("base", "p", pdir, w, inv), "bdir": bdir, "ff": True,
                                     "idom": idom, "odom": odom, "tick": tick})
    for pe in gen_ports(r, 150 if tier == "quick" else 3000):
        d = ref_bits(pe)[1]
        for bdir in (["i", "o", "io"] if d == "io" else [d]):
            jobs.append({"id": f"sim-{len(jobs):05d}", "what": "sim", "port": pe, "bdir": bdir, "ff": r.random() < 0.3})
    for w in range(0, 4):
        for mask in range(1 << w):
            inv = tuple(bool((mask >> k) & 1) for k in range(w))
            for pk in ("SingleEnded", "Differential"):
                for bdir in ("i", "o", "io"):
                    jobs.append({"id": f"real-{len(jobs):05d}", "what": "real", "width": w, "invert": inv, "pkind": pk, "bdir": bdir, "pdir_same": mask % 2 == 0})
    for pe in gen_real_exprs(r, 120 if tier == "quick" else 2500):
        d = ref_bits(pe)[1]
        for bdir in (["i", "o", "io"] if d == "io" else [d]):
            jobs.append({"id": f"realx-{len(jobs):05d}", "what": "real-expr", "port": pe, "bdir": bdir})
    results, stats = run.run_jobs(job_fn, jobs, chunksize=4)
    skipped = [x for x in results if x.get("status") == "skipped"]
    results = [x for x in results if x.get("status") != "skipped"]
    rep.extra["skipped"] = len(skipped)
    rep.add(results, stats)
    # mutation twin: a spec with the inversion forgotten must be refuted
    x = sim_job({"id": "twin", "what": "sim", "port": ("base", "p", "o", 2, (True, False)), "bdir": "o", "ff": False})
    rep.twin("sanity: inverted output port passes with the right spec", all(y["status"] == PROVED for y in x))
    sports = {}
    port = make_port(("base", "p", "o", 2, (True, False)), sports)
    top = Module()
    top.submodules.buf = buf = io.Buffer("o", port)
    o, oe = Signal(2, name="o"), Signal(name="oe")
    top.d.comb += [buf.o.eq(o), buf.oe.eq(oe)]
    sim = symsim.SymSim(top)

    def scen():
        sim.reset()
        sim.sym_state("v")
        sim.settle()
        return sim.value(o), sim.value(sports["p"].o)
    p, = explore(scen)
    from vlib.pysym import bool_term
    s = z3.Solver()
    s.add(bool_term(p.value[0] != p.value[1]))
    rep.twin("mutation: spec without the inversion mask must be refuted", s.check() == z3.sat)
    rep.source_files = FILES
    rep.functions = ["amaranth.lib.io.SimulationPort.{__getitem__,__invert__,__add__}", "amaranth.lib.io.SingleEndedPort / DifferentialPort", "amaranth.lib.io.Buffer.elaborate",
                     "amaranth.lib.io.FFBuffer.elaborate", "amaranth.hdl._ir (IOBufferInstance lowering)", "amaranth.back.rtlil ($tribuf, io connects)"]
    rep.bounds = {"simulation_ports": "all widths 0..3 (4 thorough) x all inversion masks x all legal direction pairs x {Buffer, FFBuffer}; plus seeded port expressions "
                  "(slice, index, ~, +; depth <= 3)", "real_ports": "widths 0..3, all masks, single-ended and differential, all buffer directions, via the emitted RTLIL",
                  "outside": "DDRBuffer data paths (only its direction checks), vendor platform overrides"}
    rep.stubs = ["HSignalState", "compile recorder", "if-converting interpreter", "vlib.rtlil_smt ($tribuf: z when disabled)"]
    rep.assumptions = []
    rep.rule = "one obligation per (port expression, buffer direction, registered or not); non-trivial when the port is at least 1 bit wide"
    rep.explanation = ("Buffers on simulation ports run through the compiled simulator code with symbolic o/oe/port inputs; z3 decides the per-bit equations against a reference port "
                       "algebra; buffers on real ports are read back from the emitted RTLIL.")
    return rep.finish()
