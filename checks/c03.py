"""C03 - clock domains, resets and control inserters behave as specified.

(a) edge semantics: several copies of generated single-domain designs are placed in domains with
    different clock edges / reset styles; all clock and reset levels are changed in one testbench write
    (every combination of old and new levels is enumerated, data stay symbolic) and every register must
    follow  ite(own active edge, step, ite(async reset rises, reset value, hold)).
(b) inserter / renamer laws as relations between the transition functions the real code yields for a
    design D and for wrapper(D):  EnableInserter, ResetInserter, DomainRenamer, nested."""
import itertools
import random
import warnings

import z3

from vlib import run, symsim, refstmt
from vlib.run import PROVED, VIOLATION, INCONCLUSIVE, ERROR, UNREPRODUCED
from vlib.gen import stmts as S
from vlib.pysym import (explore, bool_term, eval_in_model, is_sym, timed_check, sym_not, sym_ite, sym_and, sym_or,
                        fresh, Inconclusive, Unsupported)

from amaranth.hdl import (Module, Signal, ClockDomain, Elaboratable, EnableInserter, ResetInserter, DomainRenamer, Cat, Shape,
                          Fragment)
from amaranth.hdl._mem import MemoryData
from amaranth.lib.memory import Memory

FILES = ["amaranth/hdl/_cd.py", "amaranth/hdl/_xfrm.py", "amaranth/hdl/_ir.py", "amaranth/sim/_pyrtl.py", "amaranth/sim/pysim.py"]


def to_u(v, w):
    return v & ((1 << w) - 1)


def neq_term(a, b):
    if is_sym(a):
        return sym_not(a == b)
    if is_sym(b):
        return sym_not(b == a)
    return a != b


# ---------------------------------------------------------------------------------------- designs
class Core:
    """A generated single-domain design ('sync') with shared signal objects, a child module and a memory."""
    def __init__(self, seed, with_mem=True):
        r = random.Random(seed)
        gen = S.Programs(seed, W=3, nest=2, with_fsm=False)
        for _ in range(50):
            self.prog = gen.gen()
            regs = [n for n, v in self.prog["signals"].items() if v[3] == "sync"]
            self.reset_less = {n for n in regs if r.random() < 0.3}
            self.sigs = {}
            try:
                with warnings.catch_warnings():
                    warnings.simplefilter("ignore")
                    S.build(self.prog, define_domain=False, sigs=self.sigs, reset_less_signals=self.reset_less)   # creates the shared signals
                break
            except (SyntaxError, TypeError, ValueError, IndexError, NameError):
                continue      # not constructible: draw the next program of the same seeded stream
        self.with_mem = with_mem
        self.child_reg = Signal(3, name="child_reg", init=5)
        self.child_rl = Signal(2, name="child_rl", reset_less=True, init=1)
        self.cin = Signal(3, name="cin")
        if with_mem:
            self.md = MemoryData(shape=3, depth=2, init=[1, 6])
            self.mw_addr, self.mw_data, self.mw_en = Signal(1, name="mw_addr"), Signal(3, name="mw_data"), Signal(1, name="mw_en")
            self.mr_addr, self.mr_en = Signal(1, name="mr_addr"), Signal(1, name="mr_en")
            self.mr_data = Signal(3, name="mr_data")
        self.text = S.show(self.prog) + f"\n# reset_less: {sorted(self.reset_less)}; child regs child_reg, child_rl(reset_less); " + \
            ("memory 2x3 with write port and transparent sync read port" if with_mem else "no memory")

    def elaboratable(self):
        core = self

        class D(Elaboratable):
            def elaborate(self, platform):
                with warnings.catch_warnings():
                    warnings.simplefilter("ignore")
                    m, _, _ = S.build(core.prog, define_domain=False, sigs=core.sigs, reset_less_signals=core.reset_less)
                child = Module()
                child.d.sync += core.child_reg.eq(core.child_reg + core.cin)
                with child.If(core.cin[0]):
                    child.d.sync += core.child_rl.eq(core.child_rl + 1)
                m.submodules.child = child
                if core.with_mem:
                    mem = Memory(data=core.md)
                    m.submodules.mem = mem
                    wp = mem.write_port()
                    rp = mem.read_port(transparent_for=(wp,))
                    m.d.comb += [wp.addr.eq(core.mw_addr), wp.data.eq(core.mw_data), wp.en.eq(core.mw_en),
                                 rp.addr.eq(core.mr_addr), rp.en.eq(core.mr_en), core.mr_data.eq(rp.data)]
                return m
        return D()

    def state_elements(self):
        """[(key, kind)] kind: reg / reg_rl / row / rdata"""
        out = []
        for n, v in self.prog["signals"].items():
            if v[3] == "sync":
                out.append((("sig", n), "reg_rl" if n in self.reset_less else "reg"))
        out.append((("sig", "child_reg"), "reg"))
        out.append((("sig", "child_rl"), "reg_rl"))
        if self.with_mem:
            out.append((("row", 0), "row"))
            out.append((("row", 1), "row"))
            out.append((("rdata",), "rdata"))
        return out

    def never_assigned(self):
        """{register name: mask of the bits no statement of D assigns}.  Such bits never leave their initial value, neither in D nor
        under any wrapper (the inserters only add assignments of initial values), so states in which they hold anything else are
        unreachable and are excluded from the symbolic pre-state (an invariant, re-established by every step).  Example: a register whose
        only assignment is a zero-width part select."""
        drv = refstmt.StmtOracle(self.prog).driven
        out = {}
        for n, v in self.prog["signals"].items():
            if v[3] == "sync" and v[0]:
                miss = ((1 << v[0]) - 1) & ~drv.get(n, 0)
                if miss:
                    out[n] = miss
        return out

    def signal(self, name):
        if name == "child_reg":
            return self.child_reg
        if name == "child_rl":
            return self.child_rl
        return self.sigs[name]


def pin_never_assigned(sim, core):
    """Excludes the unreachable pre-states of Core.never_assigned from the symbolic state of a simulator containing the core."""
    for n, miss in core.never_assigned().items():
        sg = core.signal(n)
        w = len(sg)
        u = (to_u(sim.value(sg), w) & ~miss) | (sg.init & miss & ((1 << w) - 1))
        sim.poke(sg, sym_ite((u >> (w - 1)) & 1 != 0, u - (1 << w), u) if sg.shape().signed else u)


def pinned_value(core, sg, v):
    """The same on a concrete value v (unsigned bit pattern) of signal object sg."""
    for n, miss in core.never_assigned().items():
        if core.signal(n) is sg:
            return (v & ((1 << len(sg)) - 1) & ~miss) | (sg.init & miss & ((1 << len(sg)) - 1))
    return v


def namer(key):
    if isinstance(key, tuple):
        return f"mem_row{key[1]}"
    return f"v_{key.name}"


class Run:
    """One symbolic step of a (wrapped) core in a top module: returns old/new values of the state elements."""
    def __init__(self, core, wrap, domain="sync", domain_kwargs=None, controls=()):
        self.core = core
        top = Module()
        self.cd = ClockDomain(domain, **(domain_kwargs or {}))
        top.domains += self.cd
        top.submodules.d = wrap(core.elaboratable())
        with warnings.catch_warnings():
            warnings.simplefilter("ignore")
            self.sim = symsim.SymSim(top)
        names = [s.name for s in self.sim.signals()]
        dup = {n for n in names if names.count(n) > 1 and n}
        if dup:
            raise run_error(f"duplicate signal names {dup}")

    def read(self, key):
        sim, core = self.sim, self.core
        if key[0] == "sig":
            return sim.value(core.signal(key[1]))
        if key[0] == "row":
            return sim.mem_slot(core.md).data[key[1]]
        return sim.value(core.mr_data)

    def step(self, rst_value=None, clk_to=1):
        sim = self.sim
        sim.reset()
        rst_sig = self.cd.rst

        def nm(key):
            # the domain's reset is the same variable whatever the domain is called
            if rst_sig is not None and key is rst_sig:
                return "v_rst"
            return namer(key)
        sim.sym_state("v", namer=nm, clocks=[(self.cd.clk, 1 - clk_to)])
        pin_never_assigned(sim, self.core)
        if self.cd.rst is not None and rst_value is not None:
            sim.poke(self.cd.rst, rst_value)
        sim.settle()
        old = {k: self.read(k) for k, _ in self.core.state_elements()}
        rst = sim.value(self.cd.rst) if self.cd.rst is not None else 0
        sim.edge((self.cd.clk, clk_to))
        new = {k: self.read(k) for k, _ in self.core.state_elements()}
        return old, new, rst


def run_error(msg):
    return RuntimeError(msg)


# ---------------------------------------------------------------------------------------- (b) laws
def wrapper_stack(spec, ctrl):
    """spec: list of 'E','R' applied innermost first; ctrl: list of control signals."""
    def wrap(e):
        for kind, c in zip(spec, ctrl):
            e = (EnableInserter if kind == "E" else ResetInserter)({"sync": c})(e)
        return e
    return wrap


def law_obligation(job):
    seed, spec = job["seed"], job["spec"]
    core = Core(seed, with_mem=job.get("mem", True))
    inner, outer = spec[:-1], spec[-1]
    ctrl = [Signal(1, name=f"ctl{i}") for i in range(len(spec))]
    text = f"{'('.join(spec[::-1])}(D{')' * len(spec)} vs {'('.join(inner[::-1]) + '(' if inner else ''}D{')' * len(inner)}; D =\n{core.text}"
    base = {"id": job["id"], "program": text, "nontrivial": True,
            "symbolic": "all registers, memory rows, read-port register, inputs, control signals, domain reset"}
    kind = {"E": "EnableInserter law", "R": "ResetInserter law", "N": "DomainRenamer law", "Z": "domain reset law"}[outer]
    res = dict(base, kind=kind)
    try:
        if outer == "Z":
            # the design against itself: reset asserted versus de-asserted at the same edge from the same state
            ra = rb = Run(core, wrapper_stack(inner, ctrl))
        elif outer == "N":
            ra = Run(core, wrapper_stack(inner, ctrl))
            rb = Run(core, lambda e: DomainRenamer({"sync": "other"})(wrapper_stack(inner, ctrl)(e)), domain="other")
        else:
            ra = Run(core, wrapper_stack(inner, ctrl))
            rb = Run(core, wrapper_stack(spec, ctrl))
    except (SyntaxError, TypeError, ValueError, IndexError, NameError) as ex:
        return [dict(res, kind="unconstructible", status="skipped", detail=f"{type(ex).__name__}: {ex}")]
    c = ctrl[-1]

    def scen():
        if outer == "Z":
            oa, na, _ = ra.step(rst_value=0)
            ob, nb, _ = ra.step(rst_value=1)
            return oa, na, 0, ob, nb, 1, None, None
        oa, na, rst = ra.step()
        ob, nb, rstb = rb.step()
        extra = None
        if outer == "R":
            _, na1, _ = ra.step(rst_value=1)
            extra = na1
        cv = rb.sim.value(c) if outer != "N" else None
        return oa, na, rst, ob, nb, rstb, extra, cv
    try:
        paths = explore(scen, max_paths=8)
    except (Inconclusive, Unsupported) as e:
        return [dict(res, status=INCONCLUSIVE, detail=f"{type(e).__name__}: {e}")]
    if len(paths) != 1 or paths[0].exc is not None:
        return [dict(res, status=ERROR, detail=f"{len(paths)} paths; exc={paths[0].exc!r}")]
    oa, na, rst, ob, nb, rstb, extra, cv = paths[0].value
    diffs = []
    names = []
    for key, k in core.state_elements():
        resettable = k in ("reg", "rdata")
        if outer == "Z":
            # a reset-less register and a memory row ignore the reset; a resettable register takes its initial value on
            # the bits the domain drives and keeps the others
            if k == "rdata":
                continue
            if k == "reg":
                sg = core.signal(key[1])
                w = len(sg)
                msk = ra.sim.sync_mask.get(ra.sim.slot(sg), 0) & ((1 << w) - 1)
                u = (to_u(oa[key], w) & ~msk) | (sg.init & msk)
                want = sym_ite((u >> (w - 1)) & 1 != 0, u - (1 << w), u) if sg.shape().signed and w else u
            else:
                want = na[key]
            cond = True
        elif outer == "N":
            want = na[key]                      # same function of (state, inputs, reset): variables are shared by name
            cond = True
        elif outer == "E":
            en = cv != 0
            if k == "rdata":
                # the read-port register is examined with the domain reset de-asserted (its reset behaviour is not
                # stated by the property and differs between simulator and RTLIL: see C04)
                want, cond = sym_ite(en, na[key], oa[key]), rst == 0
            elif resettable:
                want, cond = sym_ite(rst != 0, na[key], sym_ite(en, na[key], oa[key])), True
            else:
                want, cond = sym_ite(en, na[key], oa[key]), True
        else:
            r = cv != 0
            if k == "rdata":
                want, cond = na[key], rst == 0
            elif k == "reg":
                want, cond = sym_ite(r, extra[key], na[key]), True
            else:
                want, cond = na[key], True
        ne = sym_and(cond, neq_term(nb[key], want))
        if ne is not False:
            diffs.append(bool_term(ne))
            names.append(key)
    if not diffs:
        return [dict(res, status=PROVED, assertion=kind)]
    s = z3.Solver()
    s.set("timeout", 180000)
    s.add(z3.Or(*diffs))
    r_ = timed_check(s)
    if r_ == z3.unsat:
        return [dict(res, status=PROVED, assertion=kind)]
    if r_ == z3.unknown:
        return [dict(res, status=INCONCLUSIVE, detail="solver unknown")]
    mdl = s.model()
    vals = {str(d): str(mdl[d]) for d in mdl.decls()}
    bad = [str(k) for k, d in zip(names, diffs) if z3.is_true(mdl.eval(d, model_completion=True))]
    rep = concrete_law(job, vals)
    if rep["differs"]:
        return [dict(res, status=VIOLATION, detail=f"{kind} fails on {bad}: {rep['detail']}", cex={"model": vals},
                     signature={"kind": kind, "elements": ",".join(sorted(set(b.split(',')[0] for b in bad)))},
                     replay={"job": job, "model": vals})]
    return [dict(res, status=UNREPRODUCED, detail=f"{kind}: symbolic difference on {bad} did not reproduce: {rep['detail']}")]


def concrete_law(job, vals):
    """Replay on the unmodified simulator: run both designs from the model's state and compare per the law."""
    from amaranth.sim import Simulator
    seed, spec = job["seed"], job["spec"]
    inner, outer = spec[:-1], spec[-1]
    core = Core(seed, with_mem=job.get("mem", True))
    ctrl = [Signal(1, name=f"ctl{i}") for i in range(len(spec))]

    def val(name, default=0):
        v = vals.get(name)
        if v is None:
            return default
        return int(v)

    def one(wrap, domain, force_rst=None):
        top = Module()
        cd = ClockDomain(domain)
        top.domains += cd
        top.submodules.d = wrap(core.elaboratable())
        out = {}
        with symsim.real_states():
            sim = Simulator(top)

            async def tb(ctx):
                from amaranth.hdl import Signal as Sg
                design_sigs = {s.name: s for s in _all_signals(sim)}
                for name, s in design_sigs.items():
                    if s is cd.clk or s is cd.rst or not len(s):
                        continue
                    v = val("v_" + name)
                    v = pinned_value(core, s, v)
                    if s.shape().signed and v >= (1 << (len(s) - 1)):
                        v -= 1 << len(s)
                    try:
                        ctx.set(s, v)
                    except Exception:
                        pass       # combinationally driven
                if core.with_mem:
                    for i in range(2):
                        ctx.set(core.md[i], val(f"mem_row{i}"))
                rst = force_rst if force_rst is not None else val("v_rst")
                ctx.set(cd.rst, rst)
                ctx.set(cd.clk, 0)
                old = {k: _read(ctx, core, k) for k, _ in core.state_elements()}
                ctx.set(cd.clk, 1)
                new = {k: _read(ctx, core, k) for k, _ in core.state_elements()}
                out.update(old=old, new=new, rst=rst)
            sim.add_testbench(tb)
            sim.run()
        return out
    if outer == "Z":
        a = one(wrapper_stack(inner, ctrl), "sync", force_rst=0)
        b = one(wrapper_stack(inner, ctrl), "sync", force_rst=1)
        probe = Run(core, wrapper_stack(inner, ctrl))
        differs = []
        for key, k in core.state_elements():
            if k == "rdata":
                continue
            if k == "reg":
                sg = core.signal(key[1])
                w = len(sg)
                msk = probe.sim.sync_mask.get(probe.sim.slot(sg), 0) & ((1 << w) - 1)
                u = ((a["old"][key] & ((1 << w) - 1)) & ~msk) | (sg.init & msk)
                want = u - (1 << w) if (sg.shape().signed and w and (u >> (w - 1)) & 1) else u
            else:
                want = a["new"][key]
            if b["new"][key] != want:
                differs.append((key, b["new"][key], want))
        return {"differs": bool(differs), "detail": f"old={a['old']} step with rst=0 {a['new']} step with rst=1 {b['new']} mismatches={differs}"}
    a = one(wrapper_stack(inner, ctrl), "sync")
    if outer == "N":
        b = one(lambda e: DomainRenamer({"sync": "other"})(wrapper_stack(inner, ctrl)(e)), "other")
    else:
        b = one(wrapper_stack(spec, ctrl), "sync")
    a1 = one(wrapper_stack(inner, ctrl), "sync", force_rst=1) if outer == "R" else None
    cv = val(f"v_ctl{len(spec) - 1}")
    differs = []
    for key, k in core.state_elements():
        rst = a["rst"]
        if outer == "N":
            want = a["new"][key]
        elif outer == "E":
            if k == "rdata" and rst:
                continue
            want = a["new"][key] if (cv or (rst and k == "reg")) else a["old"][key]
        else:
            if k == "rdata" and rst:
                continue
            want = a1["new"][key] if (cv and k == "reg") else a["new"][key]
        if b["new"][key] != want:
            differs.append((key, b["new"][key], want))
    return {"differs": bool(differs), "detail": f"control={cv} rst={a['rst']} old={a['old']} inner-step={a['new']} wrapped-step={b['new']} mismatches={differs}"}


def _all_signals(sim):
    out = []
    for s in sim._engine._state.slots:
        if hasattr(s, "signal"):
            out.append(s.signal)
    return out


def _read(ctx, core, key):
    if key[0] == "sig":
        return ctx.get(core.signal(key[1]))
    if key[0] == "row":
        return ctx.get(core.md[key[1]])
    return ctx.get(core.mr_data)


# ---------------------------------------------------------------------------------------- (a) edges
DOMAIN_KINDS = [
    {"clk_edge": "pos"}, {"clk_edge": "neg"}, {"clk_edge": "pos", "async_reset": True}, {"clk_edge": "neg", "async_reset": True},
    {"clk_edge": "pos", "reset_less": True},
]


def edge_obligation(job):
    """k cores in k domains; every combination of old/new clock and reset levels; data symbolic."""
    seeds, kinds = job["seeds"], job["kinds"]
    cores = [Core(s, with_mem=(i == 0)) for i, s in enumerate(seeds)]
    # make signal names unique per core
    for i, c in enumerate(cores):
        for n, sg in list(c.sigs.items()):
            sg.name = f"d{i}_{sg.name}"
        for sg in (c.child_reg, c.child_rl, c.cin):
            sg.name = f"d{i}_{sg.name}"
        if c.with_mem:
            for sg in (c.mw_addr, c.mw_data, c.mw_en, c.mr_addr, c.mr_en, c.mr_data):
                sg.name = f"d{i}_{sg.name}"
    text = "domains: " + "; ".join(f"d{i}: {DOMAIN_KINDS[k]}" for i, k in enumerate(kinds)) + "\n" + \
        "\n".join(f"-- core in d{i}:\n{c.text}" for i, c in enumerate(cores))
    base = {"id": job["id"], "program": text, "nontrivial": True, "kind": "edge semantics",
            "symbolic": "all registers, rows and inputs; clock/reset levels enumerated exhaustively (old x new)",
            "assertion": "register' == ite(own active edge, ite(reset, init, next), ite(async reset rises, reset value, old)); nothing else changes"}
    top = Module()
    cds = []
    for i, (c, k) in enumerate(zip(cores, kinds)):
        cd = ClockDomain(f"d{i}", **DOMAIN_KINDS[k])
        top.domains += cd
        cds.append(cd)
        top.submodules[f"core{i}"] = DomainRenamer({"sync": f"d{i}"})(c.elaboratable())
    try:
        with warnings.catch_warnings():
            warnings.simplefilter("ignore")
            sim = symsim.SymSim(top)
            refs = [Run(c, lambda e: e) for c in cores]          # each core alone in a posedge, sync-reset domain
    except (SyntaxError, TypeError, ValueError, IndexError, NameError) as ex:
        return [dict(base, kind="unconstructible", status="skipped", detail=f"{type(ex).__name__}: {ex}")]
    toggles = []
    for cd, k in zip(cds, kinds):
        toggles.append(("clk", cd))
        if DOMAIN_KINDS[k].get("async_reset"):
            toggles.append(("rst", cd))
    n = len(toggles)
    combos = list(itertools.product(range(1 << n), repeat=2))
    if len(combos) > job.get("max_events", 256):
        rnd = random.Random(job["id"])
        combos = rnd.sample(combos, job.get("max_events", 256))
    results = []
    status, detail, cex = PROVED, "", None
    nq = 0
    # reference transitions of each core alone (posedge, synchronous reset), with reset low and high:
    # computed once, over the same variable names the multi-domain design uses
    rp = explore(lambda: [(rf.step(rst_value=0)[1], rf.step(rst_value=1)[1]) for rf in refs], max_paths=4)
    if len(rp) != 1 or rp[0].exc is not None:
        return [dict(base, status=ERROR, detail=f"reference step: {len(rp)} paths, exc={rp[0].exc!r}")]
    ref_steps = rp[0].value
    for (oldv, newv) in combos:
        if status != PROVED:
            break

        def scen():
            sim.reset()
            sim.sym_state("v", namer=namer_multi(cores), clocks=[(t[1].clk, (oldv >> j) & 1) for j, t in enumerate(toggles) if t[0] == "clk"])
            for c in cores:
                pin_never_assigned(sim, c)
            for j, t in enumerate(toggles):
                if t[0] == "rst":
                    sim.poke(t[1].rst, (oldv >> j) & 1)
            sim.settle()
            old = [{k: _sread(sim, c, k) for k, _ in c.state_elements()} for c in cores]
            rsts = [sim.value(cd.rst) if cd.rst is not None else 0 for cd in cds]
            sigs = [(t[1].clk if t[0] == "clk" else t[1].rst) for t in toggles]
            sim.set(Cat(*sigs), newv)
            sim.engine.step_design()
            new = [{k: _sread(sim, c, k) for k, _ in c.state_elements()} for c in cores]
            steps = []
            for i, c in enumerate(cores):
                # reference transition of the core alone, under the reset level the domain sees after the event
                rv = 0
                if cds[i].rst is not None:
                    rv = rsts[i]
                    for j, t in enumerate(toggles):
                        if t[0] == "rst" and t[1] is cds[i]:
                            rv = (newv >> j) & 1
                s0, s1 = ref_steps[i]
                steps.append({k: sym_ite(rv != 0, s1[k], s0[k]) for k in s0})
            resets = [ref_steps[i][1] for i in range(len(cores))]
            return old, new, steps, resets
        try:
            paths = explore(scen, max_paths=64)
        except (Inconclusive, Unsupported) as e:
            status, detail = INCONCLUSIVE, f"{type(e).__name__}: {e}"
            break
        for p in paths:
            if p.exc is not None:
                status, detail = ERROR, f"exception: {type(p.exc).__name__}: {p.exc}"
                break
            old, new, steps, resets = p.value
            diffs, names = [], []
            for i, (c, cd, k) in enumerate(zip(cores, cds, kinds)):
                dk = DOMAIN_KINDS[k]
                pol = 1 if dk.get("clk_edge", "pos") == "pos" else 0
                ci = [j for j, t in enumerate(toggles) if t[0] == "clk" and t[1] is cd][0]
                oc, nc = (oldv >> ci) & 1, (newv >> ci) & 1
                active = oc != nc and nc == pol
                arise = False
                if dk.get("async_reset"):
                    ri = [j for j, t in enumerate(toggles) if t[0] == "rst" and t[1] is cd][0]
                    arise = ((oldv >> ri) & 1) == 0 and ((newv >> ri) & 1) == 1
                for key, ek in c.state_elements():
                    if ek == "rdata" and cd.rst is not None:
                        continue        # read-port register under reset: see C04 (simulator vs RTLIL)
                    if active:
                        want = steps[i][key]
                    elif arise and ek == "reg":
                        want = resets[i][key]
                    else:
                        want = old[i][key]
                    ne = neq_term(new[i][key], want)
                    if ne is not False:
                        diffs.append(bool_term(ne))
                        names.append((i, key, "active edge" if active else "async reset rise" if arise else "no event"))
            if not diffs:
                continue
            s = z3.Solver()
            s.set("timeout", 120000)
            for c_ in p.pc:
                s.add(c_)
            s.add(z3.Or(*diffs))
            nq += 1
            r_ = timed_check(s)
            if r_ == z3.unknown:
                status, detail = INCONCLUSIVE, "solver unknown"
                break
            if r_ == z3.sat:
                mdl = s.model()
                vals = {str(d): str(mdl[d]) for d in mdl.decls()}
                bad = [nm for nm, d in zip(names, diffs) if z3.is_true(mdl.eval(d, model_completion=True))]
                rep = concrete_edge(job, vals, oldv, newv, toggles_desc(toggles, cds))
                bad_real = [b for b in rep["changed_wrongly"]]
                cex = {"model": vals, "old_levels": oldv, "new_levels": newv, "toggles": toggles_desc(toggles, cds), "bad": [str(b) for b in bad]}
                if bad_real:
                    kinds_bad = sorted({b[2] + ":" + b[3] for b in bad_real})
                    status, detail = VIOLATION, (f"levels {toggles_desc(toggles, cds)} {oldv:0{n}b}->{newv:0{n}b}: " + rep["detail"])
                    cex["signature"] = {"kind": "edge", "what": ",".join(kinds_bad)}
                else:
                    status, detail = UNREPRODUCED, f"symbolic difference {bad} did not reproduce: {rep['detail']}"
                break
    res = dict(base, status=status, detail=detail, cex=cex)
    if status == VIOLATION:
        res["signature"] = cex.pop("signature")
        res["replay"] = {"job": job, "model": cex["model"], "old": cex["old_levels"], "new": cex["new_levels"]}
    res["events"] = len(combos)
    return [res]


def toggles_desc(toggles, cds):
    return [f"{t[1].name}.{t[0]}" for t in toggles]


def namer_multi(cores):
    def nm(key):
        if isinstance(key, tuple):
            return f"mem_row{key[1]}"
        return f"v_{key.name}"
    return nm


def _sread(sim, core, key):
    if key[0] == "sig":
        return sim.value(core.signal(key[1]))
    if key[0] == "row":
        return sim.mem_slot(core.md).data[key[1]]
    return sim.value(core.mr_data)


def concrete_edge(job, vals, oldv, newv, tdesc):
    """Replay: real simulator, one write of all clock/reset levels; report registers that changed without
    their own active edge / reset, and those that did not follow the single-domain reference."""
    from amaranth.sim import Simulator
    seeds, kinds = job["seeds"], job["kinds"]
    cores = [Core(s, with_mem=(i == 0)) for i, s in enumerate(seeds)]
    for i, c in enumerate(cores):
        for n, sg in list(c.sigs.items()):
            sg.name = f"d{i}_{sg.name}"
        for sg in (c.child_reg, c.child_rl, c.cin):
            sg.name = f"d{i}_{sg.name}"
        if c.with_mem:
            for sg in (c.mw_addr, c.mw_data, c.mw_en, c.mr_addr, c.mr_en, c.mr_data):
                sg.name = f"d{i}_{sg.name}"
    top = Module()
    cds = []
    for i, (c, k) in enumerate(zip(cores, kinds)):
        cd = ClockDomain(f"d{i}", **DOMAIN_KINDS[k])
        top.domains += cd
        cds.append(cd)
        top.submodules[f"core{i}"] = DomainRenamer({"sync": f"d{i}"})(c.elaboratable())
    toggles = []
    for cd, k in zip(cds, kinds):
        toggles.append(("clk", cd))
        if DOMAIN_KINDS[k].get("async_reset"):
            toggles.append(("rst", cd))

    def val(name):
        v = vals.get(name)
        return 0 if v is None else int(v)
    out = {}
    with symsim.real_states():
        sim = Simulator(top)

        async def tb(ctx):
            for s in _all_signals(sim):
                if any(s is cd.clk or s is cd.rst for cd in cds) or not len(s):
                    continue
                v = val("v_" + s.name)
                for c in cores:
                    v = pinned_value(c, s, v)
                if s.shape().signed and v >= (1 << (len(s) - 1)):
                    v -= 1 << len(s)
                try:
                    ctx.set(s, v)
                except Exception:
                    pass
            for i in range(2):
                ctx.set(cores[0].md[i], val(f"mem_row{i}"))
            for cd in cds:
                if cd.rst is not None:
                    ctx.set(cd.rst, val("v_" + cd.rst.name))
            sigs = [(t[1].clk if t[0] == "clk" else t[1].rst) for t in toggles]
            ctx.set(Cat(*sigs), oldv)
            old = [{k: _read(ctx, c, k) for k, _ in c.state_elements()} for c in cores]
            ctx.set(Cat(*sigs), newv)
            new = [{k: _read(ctx, c, k) for k, _ in c.state_elements()} for c in cores]
            out.update(old=old, new=new)
        sim.add_testbench(tb)
        sim.run()
    wrong = []
    for i, (c, cd, k) in enumerate(zip(cores, cds, kinds)):
        dk = DOMAIN_KINDS[k]
        pol = 1 if dk.get("clk_edge", "pos") == "pos" else 0
        ci = [j for j, t in enumerate(toggles) if t[0] == "clk" and t[1] is cd][0]
        active = ((oldv >> ci) & 1) != ((newv >> ci) & 1) and ((newv >> ci) & 1) == pol
        arise = False
        if dk.get("async_reset"):
            ri = [j for j, t in enumerate(toggles) if t[0] == "rst" and t[1] is cd][0]
            arise = ((oldv >> ri) & 1) == 0 and ((newv >> ri) & 1) == 1
        for key, ek in c.state_elements():
            if ek == "rdata" and cd.rst is not None:
                continue
            changed = out["old"][i][key] != out["new"][i][key]
            if not active and not (arise and ek == "reg") and changed:
                wrong.append((i, str(key), ek, "changed without its own active edge" + (" at an async reset rise" if arise else "")))
    return {"changed_wrongly": wrong, "detail": f"old={out['old']} new={out['new']} wrongly changed: {wrong}"}


# ---------------------------------------------------------------------------------------- extra designs
def _levels_loop(sim, toggles, body):
    """Enumerate every (old, new) level combination of `toggles` (1-bit signals)."""
    n = len(toggles)
    for oldv in range(1 << n):
        for newv in range(1 << n):
            yield oldv, newv


def special_obligation(job, concrete=None):
    """Hand-built designs for corners the generated cores do not contain:
      late-bound : ClockSignal()/ResetSignal() in a parent whose child defines a domain of the same name;
      split      : one register whose halves live in two domains (one with asynchronous reset);
      rename-multi: DomainRenamer with a map whose targets are also sources (swap / chain) around a hierarchy with a Memory."""
    kind = job["kind"]
    base = {"id": job["id"], "nontrivial": True, "kind": kind, "symbolic": "register values and inputs; clock/reset levels enumerated (old x new)"}
    from amaranth.hdl import ClockSignal, ResetSignal
    top = Module()
    regs = []        # (signal, clk, rst or None, async?, polarity, next-fn(old value, inputs) , init, mask)
    if kind == "late-bound":
        cd = ClockDomain("sync")
        top.domains += cd
        o_clk, o_rst, p, q, din = Signal(name="o_clk"), Signal(name="o_rst"), Signal(3, name="p", init=2), Signal(3, name="q", init=5), Signal(3, name="din")
        top.d.comb += [o_clk.eq(ClockSignal("sync")), o_rst.eq(ResetSignal("sync"))]
        top.d.sync += p.eq(p + din)
        child = Module()
        ccd = ClockDomain("sync", clk_edge=job.get("edge", "pos"), async_reset=job.get("async", False))
        child.domains += ccd
        child.d.sync += q.eq(q ^ din)
        if job.get("child_uses_cs"):
            o2 = Signal(name="o2")
            child.d.comb += o2.eq(ClockSignal("sync"))
        top.submodules.child = child
        text = f"parent: sync domain, o_clk = ClockSignal('sync'), o_rst = ResetSignal('sync'), p += din; child defines its own 'sync' ({job.get('edge', 'pos')}edge, async={job.get('async', False)}), q ^= din"
        toggles = [cd.clk, ccd.clk] + ([ccd.rst] if job.get("async") else [])
        aliases = [(o_clk, cd.clk), (o_rst, cd.rst)] + ([(o2, ccd.clk)] if job.get("child_uses_cs") else [])
        regs = [(p, cd, lambda v, e: (v + e["din"]) & 7, 0b111), (q, ccd, lambda v, e: (v ^ e["din"]) & 7, 0b111)]
        ins = {"din": din}
    elif kind == "split":
        da = ClockDomain("a", async_reset=True)
        db = ClockDomain("b", async_reset=job.get("b_async", False), clk_edge=job.get("edge", "pos"))
        top.domains += [da, db]
        s = Signal(Shape(8, job.get("signed", False)), name="s", init=job.get("init", 0x5A) - (256 if job.get("signed") and job.get("init", 0x5A) >= 128 else 0))
        din = Signal(4, name="din")
        top.d.a += s[0:4].eq(s[0:4] + din)
        top.d.b += s[4:8].eq(s[4:8] ^ din)
        text = f"s: {'signed' if job.get('signed') else 'unsigned'}(8) init={s.init}; s[0:4] += din in domain a (async reset); s[4:8] ^= din in domain b ({job.get('edge', 'pos')}edge, async={job.get('b_async', False)})"
        toggles = [da.clk, db.clk, da.rst] + ([db.rst] if job.get("b_async") else [])
        aliases = []
        regs = [(s, da, lambda v, e: (v & 0xF0) | (((v & 0xF) + e["din"]) & 0xF), 0x0F), (s, db, lambda v, e: (v & 0x0F) | ((((v >> 4) ^ e["din"]) & 0xF) << 4), 0xF0)]
        ins = {"din": din}
    elif kind == "multi-control":
        # one ResetInserter / EnableInserter controlling SEVERAL domains of the wrapped module at once
        da, db = ClockDomain("a", reset_less=True), ClockDomain("b", reset_less=True, clk_edge=job.get("edge", "pos"))
        top.domains += [da, db]
        x, y, z = Signal(3, name="x", init=5), Signal(3, name="y", init=1), Signal(2, name="z", init=2)
        u = Signal(4, name="u", init=0xA, reset_less=True)      # reset-less and split between the two domains: no inserted reset touches it
        din = Signal(3, name="din")
        ra, rb, ea, eb = (Signal(1, name=n) for n in ("ra", "rb", "ea", "eb"))

        class Inner2(Elaboratable):
            def elaborate(self, platform):
                m = Module()
                m.d.a += x.eq(x + din)
                m.d.b += y.eq(y ^ din)
                m.d.a += u[0:2].eq(u[0:2] + 1)
                m.d.b += u[2:4].eq(u[2:4] + din[0:2])
                sub = Module()
                sub.d.b += z.eq(z + 1)
                m.submodules.sub = sub
                return m
        order = job.get("order", "RE")
        e_ = Inner2()
        for kind_ in order[::-1]:
            e_ = (ResetInserter({"a": ra, "b": rb}) if kind_ == "R" else EnableInserter({"a": ea, "b": eb}))(e_)
        top.submodules.inner = e_

        def ctl(step, rsig, esig, init):
            # reset outermost ("RE"): reset wins over a de-asserted enable; enable outermost ("ER"): a disabled register holds
            def fn(v, e):
                if order == "R":
                    return sym_ite(e[rsig] != 0, init, step(v, e))
                if order == "E":
                    return sym_ite(e[esig] != 0, step(v, e), v)
                if order == "RE":
                    return sym_ite(e[rsig] != 0, init, sym_ite(e[esig] != 0, step(v, e), v))
                return sym_ite(e[esig] != 0, sym_ite(e[rsig] != 0, init, step(v, e)), v)
            return fn
        def ctl_rl(step, esig):
            def fn(v, e):
                return sym_ite(e[esig] != 0, step(v, e), v) if "E" in order else step(v, e)
            return fn
        from vlib.pysym import sym_ite
        names_ = {"R": "ResetInserter({a: ra, b: rb})", "E": "EnableInserter({a: ea, b: eb})"}
        text = "(".join(names_[c_] for c_ in order) + "(D" + ")" * len(order) + f"; D: x += din in a, y ^= din in b, child z += 1 in b ({job.get('edge', 'pos')}edge), reset-less u: u[0:2] += 1 in a, u[2:4] += din in b"
        toggles = [da.clk, db.clk]
        aliases = []
        regs = [(x, da, ctl(lambda v, e: (v + e["din"]) & 7, "ra", "ea", 5), 7), (y, db, ctl(lambda v, e: (v ^ e["din"]) & 7, "rb", "eb", 1), 7),
                (z, db, ctl(lambda v, e: (v + 1) & 3, "rb", "eb", 2), 3),
                (u, da, ctl_rl(lambda v, e: (v & 0xC) | (((v & 3) + 1) & 3), "ea"), 0x3),
                (u, db, ctl_rl(lambda v, e: (v & 0x3) | (((((v >> 2) & 3) + (e["din"] & 3)) & 3) << 2), "eb"), 0xC)]
        ins = {"din": din, "ra": ra, "rb": rb, "ea": ea, "eb": eb}
    else:
        mapping = job["map"]
        doms = {n: ClockDomain(n) for n in ("sync", "b", "c")}
        top.domains += list(doms.values())
        a, bq, din = Signal(3, name="a", init=1), Signal(3, name="bq", init=6), Signal(3, name="din")
        cq = Signal(3, name="cq", init=4)          # a second domain inside the same module: many-to-one maps merge statement lists
        md = MemoryData(shape=3, depth=2, init=[3, 4])
        waddr, wen, raddr, rdata = Signal(1, name="waddr"), Signal(1, name="wen"), Signal(1, name="raddr"), Signal(3, name="rdata")

        class Inner(Elaboratable):
            def elaborate(self, platform):
                m = Module()
                m.d.sync += a.eq(a + din)
                m.d.b += cq.eq(cq ^ din)
                sub = Module()
                sub.d.b += bq.eq(bq - din)
                m.submodules.sub = sub
                mem = Memory(data=md)
                m.submodules.mem = mem
                wp = mem.write_port(domain="sync")
                rp = mem.read_port(domain="b")
                m.d.comb += [wp.addr.eq(waddr), wp.data.eq(din), wp.en.eq(wen), rp.addr.eq(raddr), rp.en.eq(1), rdata.eq(rp.data)]
                return m
        top.submodules.inner = DomainRenamer(dict(mapping))(Inner())
        fa, fb = mapping.get("sync", "sync"), mapping.get("b", "b")
        text = f"DomainRenamer({mapping}) around: a += din in 'sync' and cq ^= din in 'b' (same module), bq -= din in 'b' (child), Memory write port in 'sync', read port in 'b'"
        toggles = [doms["sync"].clk, doms["b"].clk, doms["c"].clk]
        aliases = []
        regs = [(a, doms[fa], lambda v, e: (v + e["din"]) & 7, 7), (bq, doms[fb], lambda v, e: (v - e["din"]) & 7, 7),
                (cq, doms[fb], lambda v, e: (v ^ e["din"]) & 7, 7)]
        ins = {"din": din, "waddr": waddr, "wen": wen, "raddr": raddr}
        memspec = (md, doms[fa], doms[fb], rdata)
    base["program"] = text
    base["assertion"] = "each register half / memory port reacts to the active edge (and asynchronous reset) of exactly the domain it ends up in, with the documented reset behaviour; ClockSignal/ResetSignal alias their own domain"
    try:
        with warnings.catch_warnings():
            warnings.simplefilter("ignore")
            sim = symsim.SymSim(top) if concrete is None else symsim.SymSim(top, merge=False, hstate=False)
    except Exception as ex:
        return [dict(base, status=VIOLATION, detail=f"{text}: does not elaborate/simulate: {type(ex).__name__}: {ex}", signature={"kind": kind, "what": "construction"},
                     replay={"job": job, "special": True})]
    n = len(toggles)
    from vlib.pysym import sym_ite, bool_term
    for oldv in (range(1 << n) if concrete is None else [concrete[0]]):
        for newv in (range(1 << n) if concrete is None else [concrete[1]]):
            def lvl(sig, v):
                for j, t in enumerate(toggles):
                    if t is sig:
                        return (v >> j) & 1
                return None

            def scen():
                sim.reset()
                if concrete is None:
                    sim.sym_state("v", clocks=[(t, (oldv >> j) & 1) for j, t in enumerate(toggles) if sim.is_clock(t)])
                else:
                    for sl in sim.state.slots:
                        if hasattr(sl, "signal"):
                            for kk, vv in concrete[2].items():
                                if kk.split("_", 1)[-1] == sl.signal.name and not any(sl.signal is t for t in toggles):
                                    w_ = len(sl.signal)
                                    vv &= (1 << w_) - 1
                                    if sl.signal.shape().signed and w_ and vv >> (w_ - 1):
                                        vv -= 1 << w_
                                    sl.curr = sl.next = vv
                        else:
                            for i_ in range(len(sl.data)):
                                for kk, vv in concrete[2].items():
                                    if kk.endswith(f"_mem{i_}"):
                                        sl.data[i_] = vv
                    for j, t in enumerate(toggles):
                        if sim.is_clock(t):
                            sim.poke(t, (oldv >> j) & 1)
                for j, t in enumerate(toggles):
                    if not sim.is_clock(t):
                        sim.poke(t, (oldv >> j) & 1)
                sim.settle()
                env = {k: sim.value(sg) for k, sg in ins.items()}
                old = {id(r[0]): sim.value(r[0]) for r in regs}
                rsts = {id(r[1]): (sim.value(r[1].rst) if r[1].rst is not None else 0) for r in regs}
                mem_old = list(sim.mem_slot(memspec[0]).data) + [sim.value(memspec[3])] if kind == "rename-multi" else None
                sim.set(Cat(*toggles), newv)
                sim.engine.step_design()
                pairs = []
                for (al, src) in aliases:
                    want = lvl(src, newv)
                    if want is None:
                        want = sim.value(src)
                    pairs.append((f"{al.name} aliases {src.name}", sim.value(al), want))
                # registers: fold the domains' effects (each owns `mask` bits)
                for sg in {id(r[0]): r[0] for r in regs}.values():
                    v0 = old[id(sg)]
                    u0 = v0 & ((1 << len(sg)) - 1)
                    want = u0
                    for (rs, cd_, fn, mask) in regs:
                        if rs is not sg:
                            continue
                        pol = 1 if cd_.clk_edge == "pos" else 0
                        oc, nc = lvl(cd_.clk, oldv), lvl(cd_.clk, newv)
                        active = oc != nc and nc == pol
                        rl = lvl(cd_.rst, newv) if cd_.rst is not None else 0
                        if rl is None:
                            rl = rsts[id(cd_)]
                        arise = cd_.async_reset and lvl(cd_.rst, oldv) == 0 and lvl(cd_.rst, newv) == 1
                        initu = sg.init & ((1 << len(sg)) - 1)
                        if active:
                            stepped = fn(u0, env)
                            part = sym_ite(rl != 0, initu, stepped) & mask
                            want = (want & ~mask) | part
                        elif arise:
                            want = (want & ~mask) | (initu & mask)
                    got = sim.value(sg) & ((1 << len(sg)) - 1)
                    pairs.append((f"register {sg.name}", got, want))
                if kind == "rename-multi":
                    md_, dw_, dr_, rdata_ = memspec
                    rows = list(sim.mem_slot(md_).data)
                    w_active = lvl(dw_.clk, oldv) == 0 and lvl(dw_.clk, newv) == 1
                    r_active = lvl(dr_.clk, oldv) == 0 and lvl(dr_.clk, newv) == 1
                    for i in range(2):
                        want = sym_ite(sym_and(w_active, sym_and(env["wen"] != 0, env["waddr"] == i)), env["din"], mem_old[i]) if w_active else mem_old[i]
                        pairs.append((f"memory row {i} (write port must follow the renamed domain)", rows[i], want))
                    rd_want = sym_ite(env["raddr"] == 0, mem_old[0], mem_old[1]) if r_active else mem_old[2]
                    if not (w_active and r_active):
                        pairs.append(("read port register (must follow the renamed domain)", sim.value(rdata_), rd_want))
                return pairs
            if concrete is not None:
                return [nm for nm, got, want in scen() if got != want]
            try:
                paths = explore(scen, max_paths=64)
            except (Inconclusive, Unsupported) as e:
                return [dict(base, status=INCONCLUSIVE, detail=f"{type(e).__name__}: {e}")]
            for p in paths:
                if p.exc is not None:
                    return [dict(base, status=ERROR, detail=f"exception: {type(p.exc).__name__}: {p.exc}")]
                diffs, names = [], []
                for nm, got, want in p.value:
                    ne = neq_term(got, want)
                    if ne is not False:
                        diffs.append(bool_term(ne))
                        names.append(nm)
                if not diffs:
                    continue
                s = z3.Solver()
                s.set("timeout", 120000)
                for c in p.pc:
                    s.add(c)
                s.add(z3.Or(*diffs))
                r_ = timed_check(s)
                if r_ == z3.unknown:
                    return [dict(base, status=INCONCLUSIVE, detail="solver unknown")]
                if r_ == z3.sat:
                    mdl = s.model()
                    bad = [nm for nm, d in zip(names, diffs) if z3.is_true(mdl.eval(d, model_completion=True))]
                    vals = {str(d): mdl[d].as_long() for d in mdl.decls()}
                    tn = [t.name for t in toggles]
                    # replay on the unmodified engine (real state classes, native generated code) with plain ints
                    with symsim.real_states():
                        bad_real = special_obligation(job, concrete=(oldv, newv, vals))
                    if not bad_real:
                        return [dict(base, status=UNREPRODUCED, detail=f"{text}: levels {oldv:0{n}b}->{newv:0{n}b} values {vals}: {bad} did not reproduce")]
                    bad = bad_real
                    return [dict(base, status=VIOLATION, detail=f"{text}: levels {tn} {oldv:0{n}b}->{newv:0{n}b}, values {vals}: wrong: {bad}",
                                 cex={"model": vals, "old": oldv, "new": newv}, signature={"kind": kind, "what": ",".join(sorted(set(b.split(' ')[0] for b in bad)))},
                                 replay={"job": job, "special": True, "old": oldv, "new": newv, "model": vals})]
    return [dict(base, status=PROVED, events=(1 << n) ** 2)]


def job_fn(job):
    if job["what"] == "special":
        return special_obligation(job)
    return law_obligation(job) if job["what"] == "law" else edge_obligation(job)


def replay(path):
    import json
    with open(path) as f:
        d = json.load(f)
    r = d["replay"]
    if r.get("special"):
        with symsim.real_states():
            bad = special_obligation(r["job"], concrete=(r.get("old", 0), r.get("new", 0), r.get("model", {})))
        print(d["program"])
        print(f"levels {r.get('old')} -> {r.get('new')}, values {r.get('model')}: wrong on the real engine: {bad}")
        return 1 if bad else 0
    if r["job"]["what"] == "law":
        rep = concrete_law(r["job"], r["model"])
        print(rep["detail"])
        return 1 if rep["differs"] else 0
    rep = concrete_edge(r["job"], r["model"], r["old"], r["new"], None)
    print(rep["detail"])
    return 1 if rep["changed_wrongly"] else 0


def main(tier, seed):
    rep = run.Report("C03", "other", tier, seed)
    from vlib.pysym.selfcheck import selfcheck
    rep.extra["pysym_selfcheck_comparisons"] = selfcheck(seed)
    jobs = []
    ncores = 8 if tier == "quick" else 120
    stacks = [["Z"], ["E"], ["R"], ["N"], ["E", "E"], ["R", "R"], ["R", "E"], ["E", "R"], ["E", "N"], ["R", "N"]]
    if tier != "quick":
        stacks += [list(p) for p in itertools.product("ER", repeat=3)] + [["E", "R", "N"], ["R", "E", "N"]]
    for k in range(ncores):
        for st in stacks:
            jobs.append({"id": f"law-{seed + k}-{''.join(st)}", "what": "law", "seed": seed * 1000 + k, "spec": st, "mem": k % 3 != 2})
    r = random.Random(seed)
    nedge = 12 if tier == "quick" else 150
    for k in range(nedge):
        nd = r.choice([1, 2, 2, 3])
        kinds = [r.randrange(len(DOMAIN_KINDS)) for _ in range(nd)]
        if k < len(DOMAIN_KINDS):
            kinds[0] = k
        jobs.append({"id": f"edge-{k:03d}", "what": "edge", "seeds": [seed * 1000 + 500 + k * 3 + j for j in range(nd)], "kinds": kinds,
                     "max_events": 64 if tier == "quick" else 256})
    for k, (edge, asy, cs) in enumerate([("pos", False, False), ("neg", False, True), ("pos", True, True), ("neg", True, False)]):
        jobs.append({"id": f"special-late-bound-{k}", "what": "special", "kind": "late-bound", "edge": edge, "async": asy, "child_uses_cs": cs})
    for k, (sg, init, basy, edge) in enumerate([(False, 0x5A, False, "pos"), (True, 0xC3, False, "neg"), (False, 0xFF, True, "pos"), (True, 0x81, True, "pos")]):
        jobs.append({"id": f"special-split-{k}", "what": "special", "kind": "split", "signed": sg, "init": init, "b_async": basy, "edge": edge})
    for k, (order, edge) in enumerate([("RE", "pos"), ("ER", "pos"), ("RE", "neg"), ("R", "pos"), ("E", "pos")]):
        jobs.append({"id": f"special-multi-control-{k}", "what": "special", "kind": "multi-control", "order": order, "edge": edge})
    for k, mp in enumerate([{"sync": "b", "b": "sync"}, {"sync": "b", "b": "c"}, {"sync": "c"}, {"b": "c", "sync": "b"}, {"b": "sync"}, {"sync": "c", "b": "c"}, {"sync": "b"}]):
        jobs.append({"id": f"special-rename-multi-{k}", "what": "special", "kind": "rename-multi", "map": mp})
    results, stats = run.run_jobs(job_fn, jobs)
    skipped = [x for x in results if x.get("status") == "skipped"]
    results = [x for x in results if x.get("status") != "skipped"]
    rep.extra["unconstructible_programs_skipped"] = len(skipped)
    rep.extra["unconstructible_samples"] = [x["detail"] for x in skipped[:5]]
    rep.add(results, stats)
    rep.extra["edge_events_enumerated"] = sum(x.get("events", 0) for x in results)
    # mutation twin: the enable law with the roles of `en` swapped must be refuted
    core = Core(seed * 1000 + 1)
    c = Signal(1, name="ctl0")
    ra, rb = Run(core, lambda e: e), Run(core, lambda e: EnableInserter({"sync": c})(e))

    def scen():
        oa, na, rst = ra.step(rst_value=0)
        ob, nb, _ = rb.step(rst_value=0)
        return oa, na, nb, rb.sim.value(c)
    p, = explore(scen)
    oa, na, nb, cv = p.value
    diffs = [bool_term(neq_term(nb[k], sym_ite(cv != 0, oa[k], na[k]))) for k, _ in core.state_elements()
             if neq_term(nb[k], sym_ite(cv != 0, oa[k], na[k])) is not False]
    s = z3.Solver()
    s.add(z3.Or(*diffs) if diffs else z3.BoolVal(False))
    rep.twin("mutation: enable law with en inverted must be refuted", s.check() == z3.sat)
    rep.source_files = FILES
    rep.functions = ["amaranth.hdl._xfrm.{ResetInserter,EnableInserter,DomainRenamer,DomainLowerer}", "amaranth.hdl._cd.ClockDomain",
                     "amaranth.hdl._ir.Fragment.prepare / _propagate_domains", "amaranth.sim._pyrtl._FragmentCompiler.__call__ (edge_waker, reset block, memory bodies)",
                     "amaranth.sim.pysim.PySimEngine.set_value/step_design", "amaranth.sim.pysim._PyEngineState.commit", "amaranth.sim._pyeval.eval_assign"]
    rep.bounds = {"law_designs": ncores, "wrapper_stacks": ["".join(s) for s in stacks], "edge_designs": nedge, "domains": "1..3 of kinds "
                  + str(DOMAIN_KINDS), "events": "all (old, new) level combinations of every clock and async reset (sampled above 64/256)",
                  "outside": "gated/derived clocks; simultaneous change of a synchronous reset with its clock; reset behaviour of memory read-port registers (C04)"}
    rep.stubs = ["HSignalState", "HMemoryState", "compile recorder", "if-converting interpreter"]
    rep.assumptions = ["state elements are matched across the two designs of a law by signal identity (shared Signal objects)"]
    rep.rule = "law: (design seed, wrapper stack); edge: (design seeds, domain kinds); each obligation quantifies over all data"
    rep.explanation = ("Relational checking: the real transformers and the real simulator compiler produce transition functions for D and "
                       "wrapper(D) (or for a multi-domain top and its cores alone); z3 decides the stated relation for all states and inputs; "
                       "clock/reset levels are enumerated concretely.")
    return rep.finish()
