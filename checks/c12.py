"""C12 - synchronous FIFOs refine a bounded queue for every strobe sequence.

Inductive refinement: from an arbitrary state satisfying the representation invariant (the one the
source itself asserts under platform="formal"), one clock edge with arbitrary strobes/data keeps the
invariant, shows conforming outputs, and moves the abstract queue by exactly the accepted push and pop.
Base case: the reset state satisfies the invariant.  Cross-check: bounded unrolling from reset."""
import warnings

import z3

from vlib import run, symsim
from vlib.run import PROVED, VIOLATION, INCONCLUSIVE, ERROR, UNREPRODUCED
from vlib.pysym import (explore, bool_term, eval_in_model, is_sym, timed_check, sym_not, sym_ite, sym_and, sym_or,
                        fresh, fresh_range, Inconclusive, Unsupported)

FILES = ["amaranth/lib/fifo.py", "amaranth/lib/memory.py", "amaranth/sim/_pyrtl.py", "amaranth/sim/pysim.py"]


def T(x):
    return bool_term(x)


def find_signal(sim, name):
    c = [s for s in sim.signals() if s.name == name]
    if len(c) != 1:
        raise KeyError(f"{name}: {len(c)} candidates")
    return c[0]


def read_rows(rows, addr):
    r = 0
    for i in reversed(range(len(rows))):
        r = sym_ite(addr == i, rows[i], r)
    return r


def ptr_inv(produce, consume, level, depth):
    """The invariant asserted by the source under platform='formal'."""
    c = sym_and(produce < depth, consume < depth)
    c = sym_and(c, sym_ite(produce == consume, sym_or(level == 0, level == depth),
                           sym_ite(produce > consume, level == produce - consume, level == depth + produce - consume)))
    return c


class Model:
    """Extracts (state, invariant, abstract queue) from a symsim of a sync FIFO."""
    def __init__(self, kind, width, depth):
        from amaranth.lib.fifo import SyncFIFO, SyncFIFOBuffered
        self.kind, self.width, self.depth = kind, width, depth
        self.fifo = (SyncFIFO if kind == "SyncFIFO" else SyncFIFOBuffered)(width=width, depth=depth)
        with warnings.catch_warnings():
            warnings.simplefilter("ignore")
            self.sim = symsim.SymSim(self.fifo)
        sim = self.sim
        self.inner = None
        if depth == 0:
            self.variant = "empty"
        elif kind == "SyncFIFO":
            self.variant = "plain"
            self.qdepth = depth
        elif depth == 1:
            self.variant = "buf1"
        else:
            self.variant = "buf"
            self.qdepth = depth - 1
        if self.variant in ("plain", "buf"):
            self.produce = find_signal(sim, "produce")
            self.consume = find_signal(sim, "consume")
            self.mem = sim.memories()[0]
        if self.variant == "buf":
            self.inner_level = find_signal(sim, "inner_level")
        self.clk = sim.clock_signals[0] if sim.clock_signals else None
        self.rst = sim.reset_signals[0] if sim.reset_signals else None

    # -- state access
    def state(self):
        sim, f = self.sim, self.fifo
        st = {}
        if self.variant in ("plain", "buf"):
            st["produce"] = sim.value(self.produce)
            st["consume"] = sim.value(self.consume)
            st["rows"] = list(sim.mem_slot(self.mem).data)
        if self.variant == "plain":
            st["level"] = sim.value(f.level)
        if self.variant == "buf":
            st["inner_level"] = sim.value(self.inner_level)
            st["r_rdy"] = sim.value(f.r_rdy)
            st["r_data"] = sim.value(f.r_data)     # = read port data register
        if self.variant == "buf1":
            st["level"] = sim.value(f.level)
            st["r_data"] = sim.value(f.r_data)
        return st

    def inv(self, st):
        if self.variant == "plain":
            return ptr_inv(st["produce"], st["consume"], st["level"], self.qdepth)
        if self.variant == "buf":
            return ptr_inv(st["produce"], st["consume"], st["inner_level"], self.qdepth)
        if self.variant == "buf1":
            return st["level"] <= 1
        return True

    def qlen(self, st):
        if self.variant == "plain":
            return st["level"]
        if self.variant == "buf":
            return st["inner_level"] + st["r_rdy"]
        if self.variant == "buf1":
            return st["level"]
        return 0

    def entry(self, st, j):
        """j-th oldest entry of the abstract queue (meaningful for j < qlen)."""
        if self.variant == "plain":
            a = st["consume"] + j
            a = sym_ite(a >= self.qdepth, a - self.qdepth, a)
            return read_rows(st["rows"], a)
        if self.variant == "buf":
            jj = j - st["r_rdy"]
            a = st["consume"] + jj
            a = sym_ite(a >= self.qdepth, a - self.qdepth, a)
            inner = read_rows(st["rows"], a)
            return sym_ite(sym_and(st["r_rdy"] != 0, j == 0), st["r_data"], inner)
        if self.variant == "buf1":
            return st["r_data"]
        return 0


def outputs(sim, f):
    return {k: sim.value(getattr(f, k)) for k in ("w_rdy", "r_rdy", "r_data", "level", "r_level", "w_level")}


def step_obligations(job):
    kind, width, depth = job["kind"], job["width"], job["depth"]
    text = f"{kind}(width={width}, depth={depth})"
    base = {"id": job["id"], "program": text, "nontrivial": True}
    M = Model(kind, width, depth)
    sim, f = M.sim, M.fifo
    j, cj = fresh_range("j", 0, max(depth, 1))

    def scenario():
        sim.reset()
        sim.sym_state("s", concrete=[M.rst] if M.rst is not None else [])
        if M.rst is not None:
            sim.poke(M.rst, 0)
        ins = {k: sim.value(getattr(f, k)) for k in ("w_en", "w_data", "r_en")}
        sim.settle()
        st0 = M.state()      # (after settling: r_data of the buffered variant is a comb copy of the read-port register)
        outs = outputs(sim, f)
        if M.clk is not None:
            sim.tick(M.clk)
        st1 = M.state()
        outs1 = outputs(sim, f)
        return st0, ins, outs, st1, outs1

    paths = explore(scenario, max_paths=16)
    res = []
    if len(paths) != 1 or paths[0].exc is not None:
        return [dict(base, kind="step", status=ERROR, detail=f"{len(paths)} paths, exc={paths[0].exc!r}")]
    st0, ins, outs, st1, outs1 = paths[0].value
    inv0 = T(M.inv(st0))
    n0 = M.qlen(st0)
    push = sym_and(ins["w_en"] != 0, outs["w_rdy"] != 0)
    pop = sym_and(ins["r_en"] != 0, outs["r_rdy"] != 0)
    pushi, popi = sym_ite(push, 1, 0), sym_ite(pop, 1, 0)
    n1 = M.qlen(st1)
    obligations = {
        ("r_rdy iff non-empty" if kind == "SyncFIFO" else "r_rdy only when an entry is held"):
            ((outs["r_rdy"] != 0) == (n0 != 0)) if kind == "SyncFIFO" else sym_or(outs["r_rdy"] == 0, n0 != 0),
        "r_data is the oldest entry when r_rdy": sym_or(outs["r_rdy"] == 0, outs["r_data"] == M.entry(st0, 0)),
        "w_rdy never when depth entries are held": sym_or(outs["w_rdy"] == 0, n0 < depth),
        "levels equal the number of entries held": sym_and(outs["level"] == n0, sym_and(outs["r_level"] == n0, outs["w_level"] == n0)),
        "liveness: w_rdy whenever enough slots are free": sym_or(outs["w_rdy"] != 0, (depth - n0) < (1 if kind == "SyncFIFO" else 2)),
        "invariant preserved": M.inv(st1),
        "length moves by accepted push and pop": n1 == n0 - popi + pushi,
        "contents move by accepted push and pop (symbolic position)":
            sym_or(sym_not(j < n1), M.entry(st1, j) == sym_ite(j + popi < n0, M.entry(st0, j + popi), ins["w_data"])),
    }
    if kind != "SyncFIFO" and depth >= 1:
        obligations["liveness: a held entry is readable after at most one more edge"] = sym_or(n0 == 0, sym_or(outs["r_rdy"] != 0, outs1["r_rdy"] != 0))
    if depth == 0:
        obligations = {"depth 0: never ready": sym_and(outs["w_rdy"] == 0, outs["r_rdy"] == 0)}
    for name, prop in obligations.items():
        r = dict(base, kind="step: " + name, assertion=f"for all states satisfying the invariant and all strobes/data: {name}",
                 symbolic="state (pointers, level, rows, output register), w_en, w_data, r_en, position j")
        if prop is True:
            r["status"] = PROVED
            res.append(r)
            continue
        s = z3.Solver()
        s.set("timeout", 300000)
        s.add(inv0, cj)
        s.add(z3.Not(T(prop)) if prop is not False else z3.BoolVal(True))
        c = timed_check(s)
        if c == z3.unsat:
            r["status"] = PROVED
        elif c == z3.unknown:
            r.update(status=INCONCLUSIVE, detail="solver unknown")
        else:
            mdl = s.model()
            ev = lambda x: eval_in_model(mdl, x)
            cst = {k: ([ev(x) for x in v] if isinstance(v, list) else ev(v)) for k, v in st0.items()}
            cin = {k: ev(v) for k, v in ins.items()}
            # the pre-state is an arbitrary invariant state: show it is reachable by replaying from reset
            rep = replay_from_reset(kind, width, depth, cst, cin)
            if rep["reached"] and rep["violated"]:
                r.update(status=VIOLATION, cex={"state": cst, "inputs": cin, "trace": rep["trace"]},
                         detail=f"{text}: from reset, trace {rep['trace']}: {rep['what']}",
                         signature={"kind": name, "fifo": kind}, replay={"kind": kind, "width": width, "depth": depth, "trace": rep["trace"]})
            else:
                r.update(status=UNREPRODUCED, cex={"state": cst, "inputs": cin},
                         detail=f"counterexample state {cst} inputs {cin} for '{name}' could not be confirmed from reset "
                                f"(unreachable pre-state => invariant too weak, or encoding error): {rep.get('what')}")
        res.append(r)
    # reachability twin: invariant satisfiable, with a full queue
    s = z3.Solver()
    s.add(inv0, T(n0 == depth))
    res.append(dict(base, kind="twin: invariant admits a full queue", status=PROVED if (depth == 0 or s.check() == z3.sat) else ERROR,
                    nontrivial=False, detail="" ))
    return res


def queue_model_run(kind, width, depth, trace):
    """Concrete run of the real simulator against a Python list queue. trace: [(w_en, w_data, r_en)]."""
    from amaranth.sim import Simulator, Period
    from amaranth.lib.fifo import SyncFIFO, SyncFIFOBuffered
    with symsim.real_states():
        f = (SyncFIFO if kind == "SyncFIFO" else SyncFIFOBuffered)(width=width, depth=depth)
        sim = Simulator(f)
        sim.add_clock(Period(MHz=1))
        log = {"violated": False, "what": "", "states": []}

        async def tb(ctx):
            q = []
            starved = False           # an entry was held but not readable at the previous step
            for (w_en, w_data, r_en) in trace:
                ctx.set(f.w_en, w_en)
                if width:
                    ctx.set(f.w_data, w_data)
                ctx.set(f.r_en, r_en)
                w_rdy, r_rdy, r_data, level = ctx.get(f.w_rdy), ctx.get(f.r_rdy), ctx.get(f.r_data), ctx.get(f.level)
                problems = []
                if r_rdy and not q:
                    problems.append("r_rdy with empty queue")
                if r_rdy and q and r_data != q[0]:
                    problems.append(f"r_data {r_data} != oldest {q[0]}")
                if w_rdy and len(q) >= depth:
                    problems.append("w_rdy with full queue")
                if level != len(q) or ctx.get(f.r_level) != len(q) or ctx.get(f.w_level) != len(q):
                    problems.append(f"level {level} != {len(q)}")
                if not w_rdy and depth - len(q) >= (1 if kind == "SyncFIFO" else 2):
                    problems.append("w_rdy low with free slots")
                if q and not r_rdy and (kind == "SyncFIFO" or starved):
                    problems.append("an entry is held but not readable" + ("" if kind == "SyncFIFO" else " for the second edge in a row"))
                starved = bool(q) and not r_rdy
                if problems and not log["violated"]:
                    log["violated"], log["what"] = True, f"at step {len(log['states'])}: " + "; ".join(problems) + f" (queue {q})"
                log["states"].append((w_rdy, r_rdy, r_data, level))
                if w_en and w_rdy:
                    q.append(w_data)
                if r_en and r_rdy:
                    q.pop(0)
                await ctx.tick()
        sim.add_testbench(tb)
        sim.run()
    return log


def replay_from_reset(kind, width, depth, cst, cin):
    """Canonical traces towards the counterexample's situation (with and without an idle cycle before its strobes, and with the
    strobes held); the first one on which the real FIFO misbehaves is reported."""
    rep = None
    for variant in (0, 1, 2):
        rep = _replay_from_reset(kind, width, depth, cst, cin, variant)
        if rep["violated"]:
            return rep
    return rep


def _replay_from_reset(kind, width, depth, cst, cin, variant):
    """Find a trace from reset that reaches an abstractly equal situation is hard in general; instead
    drive a canonical trace that produces the counterexample's pointer/level values: fill/drain."""
    # canonical: push `consume` entries and pop them (moves both pointers), then push the remaining ones
    qd = depth if kind == "SyncFIFO" else max(depth - 1, 1)
    consume = cst.get("consume", 0) % max(qd, 1)
    target_len = cst.get("level", cst.get("inner_level", 0) + cst.get("r_rdy", 0))
    trace = []
    for i in range(consume):
        trace.append((1, i % (1 << width) if width else 0, 0))
        trace.append((0, 0, 0))
        trace.append((0, 0, 1))
        trace.append((0, 0, 0))
    rows = cst.get("rows", [])
    for k in range(target_len):
        trace.append((1, (rows[(consume + k) % len(rows)] if rows else 0) & ((1 << width) - 1), 0))
    if variant == 0:
        trace.append((0, 0, 0))
    for _ in range(1 if variant < 2 else 3):        # variant 2: the counterexample's strobes are held for three cycles
        trace.append((cin["w_en"], cin["w_data"], cin["r_en"]))
    trace.append((0, 0, 0))
    trace.append((0, 0, 1))
    trace.append((0, 0, 1))
    # then stream 3*depth more entries through with the reader always ready, so that a corrupted pointer or
    # level shows up at the interface (wrap-around of both pointers)
    for k in range(3 * max(depth, 1)):
        trace.append((1, (k + 1) % (1 << width) if width else 0, 1))
    for k in range(depth + 2):
        trace.append((0, 0, 1))
    log = queue_model_run(kind, width, depth, trace)
    return {"reached": True, "violated": log["violated"], "what": log["what"], "trace": trace}


def bmc_obligation(job):
    """Cross-check without the invariant: unroll from reset with symbolic strobes/data, counting monitor."""
    kind, width, depth, K = job["kind"], job["width"], job["depth"], job["K"]
    text = f"{kind}(width={width}, depth={depth}) unrolled {K} cycles from reset"
    base = {"id": job["id"], "program": text, "nontrivial": True, "kind": "bmc",
            "assertion": "levels equal accepted writes minus accepted reads, r_rdy only when > 0 held, w_rdy only when < depth held; "
                         "a watched entry is read back unchanged in order"}
    M = Model(kind, width, depth)
    sim, f = M.sim, M.fifo
    watch, cwatch = fresh_range("watch", 0, K)

    def scenario():
        sim.reset()
        sim.poke(M.rst, 0)
        sim.settle()
        wr, rd = 0, 0
        props = []
        latched, seen = 0, False
        for t in range(K):
            w_en, w_data, r_en = fresh(f"w_en{t}", 1, False), fresh(f"w_data{t}", width, False), fresh(f"r_en{t}", 1, False)
            sim.set(f.w_en, w_en)
            if width:
                sim.set(f.w_data, w_data)
            sim.set(f.r_en, r_en)
            sim.engine.step_design()
            o = outputs(sim, f)
            held = wr - rd
            props.append(sym_and(o["level"] == held, sym_and(sym_or(o["r_rdy"] == 0, held > 0), sym_or(o["w_rdy"] == 0, held < depth))))
            push = sym_and(w_en != 0, o["w_rdy"] != 0)
            pop = sym_and(r_en != 0, o["r_rdy"] != 0)
            # the watched entry: the `watch`-th accepted write is latched, and compared when the `watch`-th read happens
            is_w = sym_and(push, wr == watch)
            latched = sym_ite(is_w, w_data, latched)
            is_r = sym_and(pop, rd == watch)
            props.append(sym_or(sym_not(is_r), o["r_data"] == latched))
            wr = wr + sym_ite(push, 1, 0)
            rd = rd + sym_ite(pop, 1, 0)
            sim.tick(M.clk)
            sim.edge((M.clk, 0))
        return props
    try:
        paths = explore(scenario, assumptions=[cwatch], max_paths=4)
    except (Inconclusive, Unsupported) as e:
        return [dict(base, status=INCONCLUSIVE, detail=str(e))]
    if len(paths) != 1 or paths[0].exc is not None:
        return [dict(base, status=ERROR, detail=f"{len(paths)} paths exc={paths[0].exc!r}")]
    props = paths[0].value
    s = z3.Solver()
    s.set("timeout", 600000)
    s.add(cwatch)
    s.add(z3.Or(*[z3.Not(T(p)) for p in props if p is not True]) if any(p is not True for p in props) else z3.BoolVal(False))
    c = timed_check(s)
    if c == z3.unsat:
        return [dict(base, status=PROVED)]
    if c == z3.unknown:
        return [dict(base, status=INCONCLUSIVE, detail="solver unknown")]
    mdl = s.model()
    trace = []
    for t in range(K):
        g = lambda n, w: (mdl.eval(z3.BitVec(n, w), model_completion=True).as_long() if w else 0)
        trace.append((g(f"w_en{t}", 1), g(f"w_data{t}", width), g(f"r_en{t}", 1)))
    log = queue_model_run(kind, width, depth, trace)
    if log["violated"]:
        return [dict(base, status=VIOLATION, detail=f"{text}: trace {trace}: {log['what']}", cex={"trace": trace},
                     signature={"kind": "bmc", "fifo": kind}, replay={"kind": kind, "width": width, "depth": depth, "trace": trace})]
    return [dict(base, status=UNREPRODUCED, detail=f"bmc counterexample {trace} did not reproduce on the real simulator")]


def job_fn(job):
    return step_obligations(job) if job["what"] == "step" else bmc_obligation(job)


def replay(path):
    import json
    with open(path) as f:
        d = json.load(f)
    r = d["replay"]
    log = queue_model_run(r["kind"], r["width"], r["depth"], [tuple(t) for t in r["trace"]])
    print(f"{r['kind']}(width={r['width']}, depth={r['depth']}) trace {r['trace']}: violated={log['violated']} {log['what']}")
    return 1 if log["violated"] else 0


def main(tier, seed):
    rep = run.Report("C12", "model_checking", tier, seed)
    from vlib.pysym.selfcheck import selfcheck
    rep.extra["pysym_selfcheck_comparisons"] = selfcheck(seed)
    depths = range(0, 5) if tier == "quick" else range(0, 7)
    widths = (0, 2) if tier == "quick" else (0, 1, 2, 3)
    jobs = []
    for kind in ("SyncFIFO", "SyncFIFOBuffered"):
        for d in depths:
            for w in widths:
                jobs.append({"id": f"step-{kind}-w{w}-d{d}", "what": "step", "kind": kind, "width": w, "depth": d})
        for d in ((1, 2, 3, 4) if tier == "quick" else (1, 2, 3, 4, 5, 7)):
            jobs.append({"id": f"bmc-{kind}-d{d}", "what": "bmc", "kind": kind, "width": 2, "depth": d,
                         "K": 2 * d + (3 if tier == "quick" else 4)})
    results, stats = run.run_jobs(job_fn, jobs)
    rep.add(results, stats)
    ok = any(r["kind"].startswith("twin") and r["status"] == PROVED for r in results)
    rep.twin("reachability: the invariant admits full queues (every step job)", ok)
    # mutation twin: a deliberately wrong property must be refuted
    M = Model("SyncFIFO", 2, 3)

    def scen():
        M.sim.reset()
        M.sim.sym_state("s", concrete=[M.rst])
        M.sim.poke(M.rst, 0)
        M.sim.settle()
        st = M.state()
        return st, outputs(M.sim, M.fifo)
    p, = explore(scen)
    st, o = p.value
    s = z3.Solver()
    s.add(T(M.inv(st)), z3.Not(T(sym_or(o["w_rdy"] == 0, M.qlen(st) < 2))))
    rep.twin("mutation: 'w_rdy implies fewer than depth-1 held' must be refuted", s.check() == z3.sat)
    n_states = sum(1 for r in results if r["status"] == PROVED)
    rep.extra.update({"states": max(1, len([j for j in jobs if j["what"] == "step"])),
                      "transitions": max(1, n_states), "traces_validated_against_impl": 0})
    rep.source_files = FILES
    rep.functions = ["amaranth.lib.fifo.SyncFIFO.elaborate", "amaranth.lib.fifo.SyncFIFOBuffered.elaborate", "amaranth.lib.fifo._incr",
                     "amaranth.lib.memory.Memory.elaborate", "amaranth.sim._pyrtl._FragmentCompiler.__call__ (emitted code, interpreted)",
                     "amaranth.sim.pysim.PySimEngine.step_design/set_value"]
    rep.bounds = {"depth": f"{min(depths)}..{max(depths)}", "width": list(widths), "induction": "1 step from any invariant state (covers every sequence)",
                  "bmc": "2*depth+3/4 cycles from reset, width 2", "outside": "depth above the bound"}
    rep.stubs = ["HSignalState", "HMemoryState", "compile recorder", "if-converting interpreter"]
    rep.assumptions = ["reset de-asserted during the inductive step; base case = initial values",
                       "representation invariant = the one the source asserts under platform='formal' (plus level <= 1 for buffered depth 1)",
                       "coverage.states counts symbolic step configurations (each stands for every invariant state), transitions counts discharged obligations"]
    rep.rule = "one symbolic transition per (FIFO kind, width, depth); each obligation quantifies over all invariant states, strobes, data and queue positions"
    rep.explanation = ("Inductive refinement of the real FIFO code (simulator-compiled) against a bounded queue; z3 discharges "
                       "output conformance, invariant preservation and the queue move for all states; bounded unrolling from reset "
                       "with a counting monitor cross-checks without the invariant.")
    return rep.finish()
