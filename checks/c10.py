"""C10 - shape casting and constant normalisation are exact and minimal."""
import contextlib
import operator as _operator
import types
import warnings

import z3

from vlib import run
from vlib.prove import prove
from vlib.pysym import (SymInt, SymBool, fresh, fresh_range, fresh_bool, sym_ite, sym_and, sym_or, sym_not, is_sym,
                        as_symint, bool_term, explore)
from vlib import refsem

import amaranth.utils as au
import amaranth.hdl._ast as ast_mod
from amaranth.hdl._ast import Shape, Const, Cat, Signal, signed, unsigned
from amaranth.hdl._mem import MemoryData

FILES = ["amaranth/hdl/_ast.py", "amaranth/utils.py", "amaranth/hdl/_mem.py"]


# ------------------------------------------------------------------------------------------ shims
def _index(x):
    if is_sym(x):
        return as_symint(x) if type(x) is SymBool else x
    return _operator.index(x)


class _OperatorShim:
    def __getattr__(self, name):
        return getattr(_operator, name)


_opshim = _OperatorShim()
_opshim.index = _index


class _IntMeta(type):
    def __instancecheck__(cls, obj):
        return isinstance(obj, int)

    def __call__(cls, x=0, *a, **k):
        if is_sym(x):
            return as_symint(x) if type(x) is SymBool else x
        return int(x, *a, **k)


class IntShim(metaclass=_IntMeta):
    from_bytes = int.from_bytes


class SymRange:
    """Model of range(start, stop, step) with symbolic fields, per CPython's definition."""
    def __init__(self, start, stop, step):
        self.start, self.stop, self.step = start, stop, step

    def __len__(self):
        raise TypeError("use the shimmed len()")

    def length(self):
        a, b, s = self.start, self.stop, self.step
        up = sym_ite(b > a, (b - a + s - 1) // sym_ite(s > 0, s, 1), 0)
        dn = sym_ite(a > b, (a - b - s - 1) // sym_ite(s < 0, -s, 1), 0)
        return sym_ite(s > 0, up, dn)

    def __getitem__(self, i):
        n = self.length()
        if i == 0:
            return self.start
        if i == -1:
            return self.start + (n - 1) * self.step
        raise IndexError(i)


def _len(x):
    if isinstance(x, SymRange):
        return x.length()
    return len(x)


@contextlib.contextmanager
def shims(range_model=False):
    saved = {}

    def bind(mod, name, val):
        saved[(mod, name)] = mod.__dict__.get(name, _MISSING)
        setattr(mod, name, val)
    bind(au, "operator", _opshim)
    bind(ast_mod, "operator", _opshim)
    bind(ast_mod, "int", IntShim)
    if range_model:
        bind(ast_mod, "range", SymRange)
        bind(ast_mod, "len", _len)
    try:
        with warnings.catch_warnings():
            warnings.simplefilter("ignore")
            yield
    finally:
        for (mod, name), val in saved.items():
            if val is _MISSING:
                delattr(mod, name)
            else:
                setattr(mod, name, val)


_MISSING = object()


def validate_range_model():
    """The SymRange model against the builtin on a concrete grid."""
    n = 0
    for a in range(-6, 7):
        for b in range(-6, 7):
            for s in (-5, -3, -2, -1, 1, 2, 3, 7):
                r = range(a, b, s)
                m = SymRange(a, b, s)
                assert m.length() == len(r), (a, b, s)
                if len(r):
                    assert m[0] == r[0] and m[-1] == r[-1], (a, b, s)
                n += 1
    return n


# ------------------------------------------------------------------------------------------ specs
def fits(v, w, s):
    """v representable in Shape(w, s) (w int-like)."""
    if s is True:
        return sym_and(v >= -(1 << (w - 1)), v < (1 << (w - 1)))
    if s is False:
        return sym_and(v >= 0, v < (1 << w))
    return sym_ite(s, sym_and(v >= -(1 << sym_ite(w > 0, w - 1, 0)), v < (1 << sym_ite(w > 0, w - 1, 0))),
                   sym_and(v >= 0, v < (1 << w)))


def obligations(tier):
    B = 64     # (both tiers: the symbolic runs are cheap, and 2**49 is where float shortcuts start to round)
    RB = 16 if tier == "quick" else 24
    obs = []

    def add(oid, kind, program, inputs, assume, runf, post, **kw):
        obs.append(dict(oid=oid, kind=kind, program=program, inputs=inputs, assume=assume, run=runf, post=post, **kw))

    # --- bits_for / ceil_log2 / exact_log2
    n, c = fresh_range("n", -(1 << B), 1 << B)

    def post_bits_for(i, r, exc):
        v = i["n"]
        if exc is not None:
            return False
        pos = sym_and(v > 0, sym_and(v < (1 << r), v >= (1 << (r - 1))))
        zero = sym_and(v == 0, r == 1)
        neg = sym_and(v < 0, sym_and(v >= -(1 << (r - 1)), sym_or(r == 1, v < -(1 << sym_ite(r > 1, r - 2, 0)))))
        return sym_and(r >= 1, sym_or(pos, sym_or(zero, neg)))
    add("bits_for", "bits_for", f"bits_for(n), |n| <= 2^{B}", {"n": n}, [c], lambda n: au.bits_for(n), post_bits_for,
        concrete=lambda n: au.bits_for(n))

    def post_bits_for_s(i, r, exc):
        v = i["n"]
        if exc is not None:
            return False
        ok = sym_and(v >= -(1 << (r - 1)), v < (1 << (r - 1)))
        minimal = sym_or(r == 1, sym_not(sym_and(v >= -(1 << sym_ite(r > 1, r - 2, 0)), v < (1 << sym_ite(r > 1, r - 2, 0)))))
        return sym_and(r >= 1, sym_and(ok, minimal))
    add("bits_for_signed", "bits_for", f"bits_for(n, require_sign_bit=True), |n| <= 2^{B}", {"n": n}, [c],
        lambda n: au.bits_for(n, True), post_bits_for_s)

    def post_clog2(i, r, exc):
        v = i["n"]
        if exc is not None:
            return sym_and(isinstance(exc, ValueError), v < 0)
        return sym_and(v >= 0, sym_and(r >= 0, sym_and((1 << r) >= v, sym_or(r == 0, (1 << sym_ite(r > 0, r - 1, 0)) < v))))
    add("ceil_log2", "log2", f"ceil_log2(n), |n| <= 2^{B}", {"n": n}, [c], lambda n: au.ceil_log2(n), post_clog2)

    def post_elog2(i, r, exc):
        v = i["n"]
        pow2 = sym_and(v > 0, (v & (v - 1)) == 0)
        if exc is not None:
            return sym_and(isinstance(exc, ValueError), sym_not(pow2))
        return sym_and(pow2, (1 << r) == v)
    add("exact_log2", "log2", f"exact_log2(n), |n| <= 2^{B}", {"n": n}, [c], lambda n: au.exact_log2(n), post_elog2)

    # --- Const(v, shape): unique value congruent mod 2^w inside the shape's range
    v, cv = fresh_range("v", -(1 << B), 1 << B)
    w, cw = fresh_range("w", 0, 64)
    for sg in (False, True):
        def run_const(v, w, sg=sg):
            return Const(v, Shape(w, sg)).value

        def post_const(i, r, exc, sg=sg):
            if exc is not None:
                return False
            vv, ww = i["v"], i["w"]
            two_w = 1 << ww
            inrange = fits(r, ww, sg)
            congruent = ((r - vv) & (two_w - 1)) == 0
            return sym_and(inrange, congruent)
        add(f"const_{'s' if sg else 'u'}", "const", f"Const(v, {'signed' if sg else 'unsigned'}(w)).value, |v| <= 2^{B}, w in 0..64",
            {"v": v, "w": w}, [cv, cw] + ([w.term >= 1] if sg else []), run_const, post_const)

    # --- Const(v) with default shape: narrowest shape, value preserved
    def run_const0(v):
        k = Const(v)
        return (k.value, k.shape().width, k.shape().signed)

    def post_const0(i, r, exc):
        if exc is not None:
            return False
        val, ww, sg = r
        vv = i["v"]
        want_signed = vv < 0
        ok = sym_and(val == vv, sym_and(sym_truthy(sg) == want_signed, fits(vv, ww, want_signed)))
        minimal = sym_or(ww == 1, sym_not(fits(vv, sym_ite(ww > 1, ww - 1, 1), want_signed)))
        return sym_and(ok, sym_and(ww >= 1, minimal))
    add("const_default", "const", f"Const(v) default shape, |v| <= 2^{B}", {"v": v}, [cv], run_const0, post_const0)

    # --- Shape.cast(range(a, b, s))
    a, ca = fresh_range("a", -(1 << RB), 1 << RB)
    b, cb = fresh_range("b", -(1 << RB), 1 << RB)
    for name, stepv, cs in ([("step=1", 1, [])] +
                            [(f"step={k}", k, []) for k in (-1, 2, 3, -2, 5)] +
                            [("step symbolic", None, None)]):
        if stepv is None:
            st, cst = fresh_range("s", -(1 << (RB // 2)), 1 << (RB // 2))
            cs = [cst, st.term != 0]
            inputs = {"a": a, "b": b, "s": st}
        else:
            inputs = {"a": a, "b": b, "s": stepv}

        def run_range(a, b, s):
            if is_sym(a) or is_sym(b) or is_sym(s):
                sh = Shape.cast(SymRange(a, b, s))
            else:
                sh = Shape.cast(range(a, b, s))
            return (sh.width, sh.signed)

        def post_range(i, r, exc):
            if exc is not None:
                return False
            ww, sg = r
            m = SymRange(i["a"], i["b"], i["s"])
            n = m.length()
            first, last = i["a"], i["a"] + (n - 1) * i["s"]
            empty = n == 0
            only0 = sym_and(n > 0, sym_and(first == 0, last == 0))
            want_signed = sym_and(n > 0, sym_or(first < 0, last < 0))
            sgb = sym_truthy(sg)
            suff = sym_and(fits(first, ww, sgb), fits(last, ww, sgb))
            wm1 = sym_ite(ww > 1, ww - 1, sym_ite(sgb, 1, 0))
            minimal = sym_or(sym_ite(sgb, ww == 1, ww == 0),
                             sym_not(sym_and(fits(first, wm1, sgb), fits(last, wm1, sgb))))
            nonzero_case = sym_and(sgb == want_signed, sym_and(suff, minimal))
            zero_case = sym_and(ww == 0, sym_not(sgb))
            return sym_ite(sym_or(empty, only0), zero_case, nonzero_case)
        add(f"range_cast[{name}]", "range", f"Shape.cast(range(a, b, {name})), |a|,|b| <= 2^{RB}", inputs, [ca, cb] + cs,
            run_range, post_range, shims=lambda: shims(range_model=True),
            concrete=lambda a, b, s: run_range(a, b, s), timeout_ms=300000)

    # --- enum casting: 1..3 members with symbolic values
    EB = 20
    for k in (0, 1, 2, 3):
        ms = []
        cons = []
        for j in range(k):
            x, cx = fresh_range(f"m{j}", -(1 << EB), 1 << EB)
            ms.append(x)
            cons.append(cx)

        def run_enum(**kw):
            members = [types.SimpleNamespace(value=kw[f"m{j}"]) for j in range(len(kw))]
            sh = Shape._cast_plain_enum(members)
            return (sh.width, sh.signed)

        def post_enum(i, r, exc):
            if exc is not None:
                return False
            ww, sg = r
            vals = [i[f"m{j}"] for j in range(len(i))]
            sgb = sym_truthy(sg)
            if not vals:
                return sym_and(ww == 0, sym_not(sgb))
            # "each member counts with the shape it has as a constant, 0 being one unsigned bit":
            # the result is the narrowest shape containing every member's own constant shape
            anyneg = False
            for x in vals:
                anyneg = sym_or(anyneg, x < 0)
            want_w = 0
            for x in vals:
                xs = as_symint(x) if is_sym(x) else x
                neg = x < 0
                wx = sym_ite(neg, (~xs).bit_length() + 1, sym_ite(x == 0, 1, xs.bit_length()))
                wx = sym_ite(sym_and(anyneg, sym_not(neg)), wx + 1, wx)
                want_w = sym_ite(wx > want_w, wx, want_w)
            suff = True
            for x in vals:
                suff = sym_and(suff, fits(x, ww, sgb))
            return sym_and(sgb == anyneg, sym_and(ww == want_w, suff))
        add(f"enum_cast[{k}]", "enum", f"Shape._cast_plain_enum of {k} members, |value| <= 2^{EB}",
            {f"m{j}": ms[j] for j in range(k)}, cons, run_enum, post_enum)

    # --- Const.cast of Cat / Slice of constants == bit-level evaluation
    shapes3 = [((3, False), (2, True), (4, False)), ((0, False), (3, True), (1, True)), ((4, True), (4, True), (0, False)),
               ((1, False), (8, True), (2, False))]
    for idx, shs in enumerate(shapes3):
        vs = {f"c{j}": fresh(f"c{j}_{idx}", w_, s_) for j, (w_, s_) in enumerate(shs)}

        def run_cat(shs=shs, **kw):
            parts = [Const(kw[f"c{j}"], Shape(w_, s_)) for j, (w_, s_) in enumerate(shs)]
            k = Const.cast(Cat(*parts))
            return (k.value, k.shape().width, k.shape().signed)

        def post_cat(i, r, exc, shs=shs):
            if exc is not None:
                return False
            val, ww, sg = r
            want, off = 0, 0
            for j, (w_, s_) in enumerate(shs):
                want = want | (refsem.to_unsigned(i[f"c{j}"], w_) << off)
                off += w_
            return sym_and(val == want, sym_and(ww == off, sym_not(sym_truthy(sg))))
        add(f"const_cast_cat[{idx}]", "const_cast", f"Const.cast(Cat(consts {shs}))", vs, [], run_cat, post_cat)
    for idx, ((w_, s_), (lo, hi)) in enumerate([((6, False), (1, 4)), ((6, True), (2, 6)), ((5, True), (0, 0)), ((8, True), (3, 8)),
                                                ((4, False), (4, 4)), ((4, True), (0, 4)), ((3, False), (0, 3)), ((1, True), (0, 1)),
                                                ((5, True), (0, 4)), ((5, True), (None, None))]):
        if lo is None:
            lo, hi = 0, w_          # written as [:] below
        x = fresh(f"k_{idx}", w_, s_)

        def run_slice(k, w_=w_, s_=s_, lo=lo, hi=hi):
            kk = Const.cast(Const(k, Shape(w_, s_))[lo:hi] if (lo, hi) != (0, w_) or w_ % 2 else Const(k, Shape(w_, s_))[:])
            return (kk.value, kk.shape().width, kk.shape().signed)

        def post_slice(i, r, exc, w_=w_, lo=lo, hi=hi):
            if exc is not None:
                return False
            val, ww, sg = r
            want = (refsem.to_unsigned(i["k"], w_) >> lo) & refsem.mask(hi - lo)
            return sym_and(val == want, sym_and(ww == hi - lo, sym_not(sym_truthy(sg))))
        add(f"const_cast_slice[{idx}]", "const_cast", f"Const.cast(C(k,{'s' if s_ else 'u'}{w_})[{lo}:{hi}])", {"k": x}, [],
            run_slice, post_slice)

    # --- Signal(shape, init=v).init and MemoryData rows wrap like Const(v, shape)
    iv, civ = fresh_range("iv", -(1 << 20), 1 << 20)
    for (w_, s_) in [(0, False), (1, False), (5, False), (1, True), (5, True), (8, True)]:
        def run_init(iv, w_=w_, s_=s_):
            return ast_mod._get_init_value(iv, Shape(w_, s_))

        def post_init(i, r, exc, w_=w_, s_=s_):
            if exc is not None:
                return False
            return r == refsem.in_shape(i["iv"], w_, s_)
        add(f"signal_init[{'s' if s_ else 'u'}{w_}]", "init", f"_get_init_value(v, {'signed' if s_ else 'unsigned'}({w_})) (Signal init)",
            {"iv": iv}, [civ], run_init, post_init, concrete=lambda iv, w_=w_, s_=s_: Signal(Shape(w_, s_), init=iv).init)

        def run_mem(iv, w_=w_, s_=s_):
            init = MemoryData.Init([0, 0], shape=Shape(w_, s_), depth=2)
            init[1] = iv
            return init._raw[1]
        add(f"memory_init[{'s' if s_ else 'u'}{w_}]", "init", f"MemoryData.Init row = v, shape {'signed' if s_ else 'unsigned'}({w_})",
            {"iv": iv}, [civ], run_mem, post_init)

        def run_mem_slice(iv, w_=w_, s_=s_):
            init = MemoryData.Init([0, 0, 0], shape=Shape(w_, s_), depth=3)
            init[1:3] = [iv, 0]                      # slice assignment wraps like single-row assignment
            return init._raw[1]
        add(f"memory_init_slice[{'s' if s_ else 'u'}{w_}]", "init", f"MemoryData.Init rows [1:3] = [v, 0], shape {'signed' if s_ else 'unsigned'}({w_})",
            {"iv": iv}, [civ], run_mem_slice, post_init)

        def run_mem_ctor(iv, w_=w_, s_=s_):
            return MemoryData.Init([0, iv], shape=Shape(w_, s_), depth=2)._raw[1]
        add(f"memory_init_ctor[{'s' if s_ else 'u'}{w_}]", "init", f"MemoryData.Init([0, v]), shape {'signed' if s_ else 'unsigned'}({w_})",
            {"iv": iv}, [civ], run_mem_ctor, post_init)

    # --- an initial value given as a constant EXPRESSION (Const of another shape, Cat, slice of a constant) is wrapped into the
    #     target shape like the integer it denotes
    for idx, ((tw, ts), (cw, cs)) in enumerate([((4, True), (4, False)), ((4, False), (4, True)), ((4, True), (6, False)), ((5, False), (3, True)),
                                                ((3, True), (3, True)), ((1, True), (1, False)), ((8, True), (8, False)), ((6, False), (8, True))]):
        cv = fresh(f"ce_{idx}", cw, cs)

        def post_cinit(i, r, exc, tw=tw, ts=ts, cw=cw, cs=cs):
            if exc is not None:
                return False
            return r == refsem.in_shape(i["cv"], tw, ts)

        def run_cinit(cv, tw=tw, ts=ts, cw=cw, cs=cs):
            return ast_mod._get_init_value(Const(cv, Shape(cw, cs)), Shape(tw, ts))
        add(f"signal_init_const[{idx}]", "init", f"Signal({'s' if ts else 'u'}{tw}, init=Const(v, {'s' if cs else 'u'}{cw})).init", {"cv": cv}, [], run_cinit, post_cinit,
            concrete=lambda cv, tw=tw, ts=ts, cw=cw, cs=cs: Signal(Shape(tw, ts), init=Const(cv, Shape(cw, cs))).init)

        def post_uinit(i, r, exc, tw=tw, ts=ts, cw=cw, cs=cs):
            if exc is not None:
                return False
            return r == refsem.in_shape(refsem.to_unsigned(i["cv"], cw), tw, ts)      # Cat / slices are unsigned values

        def run_cat_init(cv, tw=tw, ts=ts, cw=cw, cs=cs):
            k = Const(cv, Shape(cw, cs))
            return ast_mod._get_init_value(Cat(k[:cw // 2], k[cw // 2:]), Shape(tw, ts))
        add(f"signal_init_cat[{idx}]", "init", f"Signal({'s' if ts else 'u'}{tw}, init=Cat(low half, high half of Const(v, {'s' if cs else 'u'}{cw}))).init", {"cv": cv}, [],
            run_cat_init, post_uinit)

        def run_slice_init(cv, tw=tw, ts=ts, cw=cw, cs=cs):
            return ast_mod._get_init_value(Const(cv, Shape(cw, cs))[0:cw], Shape(tw, ts))
        add(f"signal_init_slice[{idx}]", "init", f"Signal({'s' if ts else 'u'}{tw}, init=Const(v, {'s' if cs else 'u'}{cw})[0:{cw}]).init", {"cv": cv}, [],
            run_slice_init, post_uinit)

        def run_mem_cinit(cv, tw=tw, ts=ts, cw=cw, cs=cs):
            return MemoryData.Init([0, Const(cv, Shape(cw, cs))], shape=Shape(tw, ts), depth=2)._raw[1]
        add(f"memory_init_const[{idx}]", "init", f"MemoryData.Init([0, Const(v, {'s' if cs else 'u'}{cw})]), shape {'s' if ts else 'u'}{tw}", {"cv": cv}, [],
            run_mem_cinit, post_cinit)

    # --- Signal(range(...), init=v) raises exactly when v is outside the range
    for rg in [range(0, 10), range(-3, 4), range(2, 16, 3), range(5, -5, -2), range(0, 1), range(0, 0), range(-8, -2)]:
        x, cx = fresh_range("iv", -40, 40)

        def run_rinit(iv, rg=rg):
            return ast_mod._get_init_value(iv, rg)

        def post_rinit(i, r, exc, rg=rg):
            inside = False
            for e in rg:
                inside = sym_or(inside, i["iv"] == e)
            if exc is not None:
                return sym_and(isinstance(exc, ast_mod.SyntaxError), sym_not(inside))
            sh = Shape.cast(rg)
            return sym_and(inside, r == refsem.in_shape(i["iv"], sh.width, sh.signed))
        add(f"range_init[{rg}]", "init", f"Signal({rg}, init=v).init", {"iv": x}, [cx], run_rinit, post_rinit,
            concrete=lambda iv, rg=rg: Signal(rg, init=iv).init)
    return obs


def sym_truthy(x):
    """bool/SymBool/int-like -> SymBool/bool without forking."""
    from vlib.pysym import sym_truth
    return sym_truth(x)


def run_obligation(job):
    obs = obligations(job["tier"])
    ob = obs[job["index"]]
    kw = dict(ob)
    oid = kw.pop("oid")
    kind = kw.pop("kind")
    program = kw.pop("program")
    sh = kw.pop("shims", None) or (lambda: shims())
    return [prove(oid, kind, program, shims=sh, **kw)]


def replay(path):
    import json
    with open(path) as f:
        d = json.load(f)
    r = d["replay"]
    for tier in ("quick", "thorough"):
        for ob in obligations(tier):
            if ob["oid"] == r["oid"]:
                fn = ob.get("concrete") or ob["run"]
                try:
                    res, exc = fn(**r["inputs"]), None
                except Exception as e:
                    res, exc = None, e
                ok = ob["post"](r["inputs"], res, exc)
                print(f"{ob['program']} with {r['inputs']}: result {res!r} exception {exc!r}; property holds: {bool(ok)}")
                return 0 if ok else 1
    print("obligation not found")
    return 3


def twin_checks(rep):
    # mutation twin: bits_for must NOT satisfy an off-by-one spec
    n, c = fresh_range("n", -1000, 1000)

    def post_wrong(i, r, exc):
        v = i["n"]
        return sym_or(v <= 0, v < (1 << (r - 1)))      # claims one bit fewer suffices: false
    with_shims = lambda: shims()
    res = prove("twin", "twin", "bits_for off-by-one", {"n": n}, [c], lambda n: au.bits_for(n), post_wrong, shims=with_shims)
    rep.twin("mutation: off-by-one bits_for spec must be refuted with a reproducing input", res["status"] == "violation",
             str(res.get("detail")))
    nrm = validate_range_model()
    rep.extra["range_model_grid_points"] = nrm
    # reachability twin: the assertion `false` must fail
    res = prove("twin2", "twin", "false", {"n": n}, [c], lambda n: au.bits_for(n), lambda i, r, e: False, shims=with_shims)
    rep.twin("reachability: `false` is refuted (harness reaches the assertion)", res["status"] == "violation")


def main(tier, seed):
    rep = run.Report("C10", "other", tier, seed)
    from vlib.pysym.selfcheck import selfcheck
    rep.extra["pysym_selfcheck_comparisons"] = selfcheck(seed)
    n = len(obligations(tier))
    jobs = [{"id": f"ob-{i:03d}", "index": i, "tier": tier} for i in range(n)]
    results, stats = run.run_jobs(run_obligation, jobs)
    rep.add(results, stats)
    twin_checks(rep)
    rep.source_files = FILES
    rep.functions = ["amaranth.utils.ceil_log2", "amaranth.utils.exact_log2", "amaranth.utils.bits_for", "amaranth.hdl._ast.Shape.cast",
                     "amaranth.hdl._ast.Shape._cast_plain_enum", "amaranth.hdl._ast.Shape.__init__", "amaranth.hdl._ast.Const.__init__",
                     "amaranth.hdl._ast.Const.cast", "amaranth.hdl._ast.Value.cast", "amaranth.hdl._ast._get_init_value",
                     "amaranth.hdl._mem.MemoryData.Init.__setitem__"]
    rep.bounds = {"integers": "|n| <= 2^48 (quick) / 2^64 (thorough)", "const_width": "0..64 symbolic", "range_bounds": "|a|,|b| <= 2^16 / 2^24, "
                  "steps {1,-1,2,3,-2,5} and symbolic |s| <= 2^8 / 2^12", "enum": "0..3 members, |value| <= 2^20",
                  "const_cast": "3-part Cat and slices of constants of width <= 8, all values", "init": "|v| <= 2^20; ranges of <= 16 elements",
                  "outside": "integers beyond the stated magnitude; enumerations with more than 3 members"}
    rep.stubs = ["amaranth.utils.operator / amaranth.hdl._ast.operator -> operator.index identity on proxies",
                 "amaranth.hdl._ast.int -> identity on proxies (isinstance still true for ints)",
                 "amaranth.hdl._ast.range/len -> SymRange model (range-cast obligations only; validated on a concrete grid each run)"]
    rep.assumptions = ["the SymRange model (len, [0], [-1]) is CPython's definition of range"]
    rep.rule = "one obligation per (function, shape/step configuration); non-trivial when at least one argument is symbolic"
    rep.explanation = ("The real functions run on z3 proxy integers (forking on every branch); each path's result is checked "
                       "against a sufficiency+minimality / congruence specification by z3 for all argument values in the bound.")
    rep.exhaustive = False
    return rep.finish()
