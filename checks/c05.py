"""C05 - testbench reads and writes agree with what a circuit would compute."""
import warnings

import z3

from vlib import run, symsim
from vlib.run import PROVED, VIOLATION, INCONCLUSIVE, ERROR, UNREPRODUCED
from vlib.gen import expr as G
from vlib.gen import targets as T
from vlib.pysym import (explore, bool_term, eval_in_model, is_sym, timed_check, sym_not, Inconclusive, Unsupported)
from checks import c01

FILES = ["amaranth/sim/_pyeval.py", "amaranth/sim/_async.py", "amaranth/sim/pysim.py", "amaranth/hdl/_mem.py",
         "amaranth/sim/_pyrtl.py"]


def neq_term(a, b):
    if is_sym(a):
        return sym_not(a == b)
    if is_sym(b):
        return sym_not(b == a)
    return a != b


# --------------------------------------------------------------------------------------- reads
def check_read(job):
    prog = job["prog"]
    text = G.show(prog)
    res = {"id": job["id"], "kind": "read", "program": text, "nontrivial": False,
           "assertion": "eval_value(expr) (testbench read) == value of a comb signal assigned expr"}
    try:
        with warnings.catch_warnings():
            warnings.simplefilter("ignore")
            m, sigs, e, o = c01.build_design(prog)
    except (TypeError, IndexError, ValueError, SyntaxError) as ex:
        return [dict(res, status="skipped", detail=str(ex))]
    sim = symsim.SymSim(m)
    leaves = G.collect_leaves(prog)
    res["symbolic"] = {n: f"{'signed' if s else 'unsigned'}({w})" for n, (w, s) in leaves.items()}

    def scenario():
        sim.reset()
        sim.sym_state("v")
        env = {n: sim.value(s) for n, s in sigs.items()}
        sim.settle()
        circ = sim.value(o)
        tb = sim.engine.get_value(e)       # real eval_value on the same state
        return env, circ, tb

    paths = explore(scenario, max_paths=512)
    status, detail, cex = PROVED, "", None
    reach = 0
    for p in paths:
        if p.exc is not None:
            # the real evaluator raised on a feasible path: take a witness and replay it
            s = z3.Solver()
            for c in p.pc:
                s.add(c)
            if timed_check(s) != z3.sat:
                continue
            mdl = s.model()
            vals = {n: eval_in_model(mdl, v) for n, v in sim.vars.items() if not isinstance(n, tuple)}
            vals = {getattr(k, "name", str(k)): v for k, v in vals.items()}
            real = c01.concrete_sim_value(prog, vals)
            cex = {"inputs": vals, "real_circuit": real["o"], "real_testbench_get": real["e"]}
            if real["o"] != real["e"]:
                status = VIOLATION
                detail = f"{text} with {vals}: circuit gives {real['o']}, ctx.get {real['e']}"
            else:
                status, detail = ERROR, f"exception on path: {type(p.exc).__name__}: {p.exc} (not reproduced)"
            break
        env, circ, tb = p.value
        reach += 1
        ne = neq_term(circ, tb)
        if ne is False:
            continue
        s = z3.Solver()
        s.set("timeout", 120000)
        for c in p.pc:
            s.add(c)
        s.add(bool_term(ne))
        r = timed_check(s)
        if r == z3.unknown:
            status, detail = INCONCLUSIVE, "solver unknown"
            break
        if r == z3.sat:
            mdl = s.model()
            vals = {n: eval_in_model(mdl, v) for n, v in env.items()}
            real = c01.concrete_sim_value(prog, vals)
            cex = {"inputs": vals, "real_circuit": real["o"], "real_testbench_get": real["e"]}
            if real["o"] != real["e"]:
                status = VIOLATION
                detail = f"{text} with {vals}: circuit gives {real['o']}, ctx.get gives {real['e']}"
            else:
                status = UNREPRODUCED
                detail = (f"symbolic: circuit {eval_in_model(mdl, circ)} vs get {eval_in_model(mdl, tb)}; real: "
                          f"{real} for {vals}")
            break
    if status == PROVED and reach == 0:
        status, detail = ERROR, "vacuous: no feasible path"
    res.update(status=status, detail=detail, cex=cex, nontrivial=any(w > 0 for w, _ in leaves.values()))
    if status == VIOLATION and str(cex.get("real_testbench_get", "")).startswith("raised"):
        res["signature"] = {"kind": "read-raises", "op": prog[0], "program": text}
        res["replay"] = {"what": "read", "prog": prog, "inputs": cex["inputs"]}
        return [res]
    if status == VIOLATION:
        res["signature"] = {"kind": "read", "op": prog[0], "program": text}
        res["replay"] = {"what": "read", "prog": prog, "inputs": cex["inputs"]}
    return [res]


# --------------------------------------------------------------------------------------- writes
def build_write_design(tgt, vsigned, vw, row=None):
    """The circuit assignment target.eq(v).  With `row`, that leaf is ALSO present as row 1 of a memory of the same shape, and
    `target_tb` is the same target expression built over the memory row (a row is assignable from testbenches only)."""
    from amaranth.hdl import Module, Signal, ClockDomain, Shape
    leaves = T.collect(tgt)
    sigs = {n: Signal(Shape(w, s), name=n) for n, (w, s) in leaves.items()}
    target = T.build(tgt, sigs)
    v = Signal(Shape(vw, vsigned), name="v")
    m = Module()
    m.domains.sync = cd = ClockDomain(reset_less=True)
    m.d.sync += target.eq(v)
    if row is None:
        return m, sigs, target, v, cd
    from amaranth.hdl._mem import MemoryData
    from amaranth.lib.memory import Memory
    w, sgn = leaves[row]
    md = MemoryData(shape=Shape(w, sgn), depth=2, init=[0, 0])
    m.submodules.mem = mem = Memory(data=md)
    rp = mem.read_port(domain="comb")
    ra, rd = Signal(1, name="ra_"), Signal(Shape(w, sgn), name="rd_")
    m.d.comb += [rp.addr.eq(ra), rd.eq(rp.data)]
    tb_sigs = dict(sigs)
    tb_sigs[row] = md[1]
    return m, sigs, target, v, cd, md, T.build(tgt, tb_sigs)


def concrete_write(tgt, vsigned, vw, state, value, row=None):
    """Replay on the unmodified simulator: returns (after circuit edge, after ctx.set)."""
    from amaranth.sim import Simulator, Period
    out = []
    with symsim.real_states():
        for mode in ("circuit", "testbench"):
            md = None
            if row is None:
                m, sigs, target, v, cd = build_write_design(tgt, vsigned, vw)
            else:
                m, sigs, target, v, cd, md, target_tb = build_write_design(tgt, vsigned, vw, row)
            sim = Simulator(m)
            sim.add_clock(Period(MHz=1))
            got = {}

            async def tb(ctx, mode=mode, sigs=sigs, target=target, v=v, got=got, md=md):
                for n, s in sigs.items():
                    if len(s):
                        ctx.set(s, state.get(n, 0))
                if md is not None and len(sigs[row]):
                    ctx.set(md[1], state.get(row, 0))
                if mode == "circuit":
                    ctx.set(v, value)
                    await ctx.tick()
                else:
                    ctx.set(target if md is None else target_tb, value)
                for n, s in sigs.items():
                    got[n] = ctx.get(md[1]) if (md is not None and n == row and mode == "testbench") else ctx.get(s)
            sim.add_testbench(tb)
            sim.run()
            out.append(got)
    return out


def check_write(job):
    tgt, vsigned = job["tgt"], job["vsigned"]
    row = job.get("row")
    text = T.show(tgt) + (" <= signed v" if vsigned else " <= unsigned v") + (f"   [leaf {row} is a memory row on the testbench side]" if row else "")
    res = {"id": job["id"], "kind": "write", "program": text, "nontrivial": True,
           "assertion": "slots after eval_assign(target, v) == slots after the circuit assignment target.eq(v) at an edge"}
    vw = T.width_of(tgt) + 2
    try:
        with warnings.catch_warnings():
            warnings.simplefilter("ignore")
            md = target_tb = None
            if row is None:
                m, sigs, target, v, cd = build_write_design(tgt, vsigned, vw)
            else:
                m, sigs, target, v, cd, md, target_tb = build_write_design(tgt, vsigned, vw, row)
            sim = symsim.SymSim(m)
    except (TypeError, IndexError, ValueError, SyntaxError) as ex:
        return [dict(res, status="skipped", detail=f"{type(ex).__name__}: {ex}")]
    res["symbolic"] = {**{n: f"{'signed' if s else 'unsigned'}({w})" for n, (w, s) in T.collect(tgt).items()},
                       "v": f"{'signed' if vsigned else 'unsigned'}({vw})"}

    def circuit():
        sim.reset()
        sim.sym_state("v")
        env = {n: sim.value(s) for n, s in sigs.items()}
        val = sim.value(v)
        sim.settle()
        sim.tick(cd.clk)
        return env, val, {n: sim.value(s) for n, s in sigs.items()}

    def testbench():
        sim.reset()
        sim.sym_state("v")
        val = sim.value(v)
        if md is not None:
            sim.mem_slot(md).data[1] = sim.value(sigs[row])      # the row starts with the same (symbolic) value as the signal
        sim.settle()
        sim.engine.set_value(target if md is None else target_tb, val)
        sim.engine.step_design()
        return {n: (sim.mem_slot(md).data[1] if (md is not None and n == row) else sim.value(s)) for n, s in sigs.items()}

    cpaths = explore(circuit, max_paths=4)
    if len(cpaths) != 1 or cpaths[0].exc is not None:
        return [dict(res, status=ERROR, detail=f"circuit side: {len(cpaths)} paths, exc={cpaths[0].exc!r}")]
    env, val, after_c = cpaths[0].value
    tpaths = explore(testbench, max_paths=4096)
    status, detail, cex = PROVED, "", None
    for p in tpaths:
        if p.exc is not None:
            status, detail = ERROR, f"exception on testbench path: {type(p.exc).__name__}: {p.exc}"
            break
        after_t = p.value
        diffs = []
        for n in sigs:
            ne = neq_term(after_c[n], after_t[n])
            if ne is not False:
                diffs.append(bool_term(ne))
        if not diffs:
            continue
        s = z3.Solver()
        s.set("timeout", 120000)
        for c in p.pc:
            s.add(c)
        s.add(z3.Or(*diffs))
        r = timed_check(s)
        if r == z3.unknown:
            status, detail = INCONCLUSIVE, "solver unknown"
            break
        if r == z3.sat:
            mdl = s.model()
            st = {n: eval_in_model(mdl, x) for n, x in env.items()}
            vv = eval_in_model(mdl, val)
            real_c, real_t = concrete_write(tgt, vsigned, vw, st, vv, row)
            cex = {"state": st, "value": vv, "after_circuit": real_c, "after_ctx_set": real_t}
            if real_c != real_t:
                status = VIOLATION
                detail = f"{text}: state {st}, v={vv}: circuit -> {real_c}, ctx.set -> {real_t}"
            else:
                status = UNREPRODUCED
                detail = f"symbolic disagreement did not reproduce: state {st}, v={vv}, real both {real_c}"
            break
    res.update(status=status, detail=detail, cex=cex)
    if status == VIOLATION:
        res["signature"] = {"kind": "write", "shape": _shape_of(tgt), "program": text}
        res["replay"] = {"what": "write", "tgt": tgt, "vsigned": vsigned, "vw": vw, "state": cex["state"], "value": cex["value"], "row": row}
    return [res]


def _shape_of(t):
    """Nesting skeleton of a target, e.g. bit_select(slice(sig))."""
    if t[0] == "sig":
        return "sig"
    if t[0] in ("cat", "array"):
        return t[0] + "(" + ",".join(_shape_of(p) for p in t[1]) + ")"
    return t[0] + "(" + _shape_of(t[1]) + ")"


def check_job(job):
    return check_read(job) if job["what"] == "read" else check_write(job)


def replay(path):
    import json
    with open(path) as f:
        d = json.load(f)
    r = d["replay"]
    if r.get("what") in ("memory", "signal"):
        from vlib import hstate_proof
        return hstate_proof.replay(r)
    if r["what"] == "read":
        real = c01.concrete_sim_value(r["prog"], r["inputs"])
        print(f"{G.show(r['prog'])} inputs {r['inputs']}: circuit {real['o']}, ctx.get {real['e']}")
        return 1 if real["o"] != real["e"] else 0
    c, t = concrete_write(r["tgt"], r["vsigned"], r["vw"], r["state"], r["value"], r.get("row"))
    print(f"{T.show(r['tgt'])} state {r['state']} value {r['value']}: circuit -> {c}, ctx.set -> {t}")
    return 1 if c != t else 0


def _is_base_leaf(t, name):
    """The leaf occurs as a written base (not as an index of a part-select / array)."""
    k = t[0]
    if k == "sig":
        return t[1] == name
    if k in ("slice", "as_signed", "as_unsigned"):
        return _is_base_leaf(t[1], name)
    if k in ("bit_select", "word_select"):
        return _is_base_leaf(t[1], name) and not _mentions(t[2], name)
    if k == "cat":
        return any(_is_base_leaf(p, name) for p in t[1]) and all(_is_base_leaf(p, name) or not _mentions(p, name) for p in t[1])
    if k == "array":
        return any(_is_base_leaf(p, name) for p in t[1]) and not _mentions(t[2], name)
    return False


def _mentions(t, name):
    return name in T.collect(t)


def row_twice_targets():
    m8 = ["sig", "m", 8, False]
    k = ["sig", "k", 2, False]
    return [["cat", [["slice", m8, 4, 8], ["slice", m8, 0, 4]]],
            ["cat", [["slice", m8, 0, 3], ["sig", "x", 2, False], ["slice", m8, 3, 8]]],
            ["cat", [["bit_select", m8, k, 2], ["slice", m8, 6, 8]]],
            ["slice", ["cat", [["slice", m8, 2, 6], ["slice", m8, 0, 2]]], 1, 5]]


def twin_checks(rep):
    # mutation twin: compare the testbench read of e with a circuit computing e+1 -> must be refuted
    prog = ["xor", ["sig", "a", 3, False], ["sig", "b", 2, True]]
    from amaranth.hdl import Module, Signal
    sigs = G.make_signals(G.collect_leaves(prog))
    e = G.build(prog, sigs)
    o = Signal((e + 1).shape())
    m = Module()
    m.d.comb += o.eq(e + 1)
    sim = symsim.SymSim(m)

    def scen():
        sim.reset()
        sim.sym_state("v")
        sim.settle()
        return sim.value(o), sim.engine.get_value(e)
    found = False
    for p in explore(scen):
        circ, tb = p.value
        s = z3.Solver()
        for c in p.pc:
            s.add(c)
        s.add(bool_term(neq_term(circ, tb)))
        found |= s.check() == z3.sat
    rep.twin("mutation: circuit computing e+1 must disagree with ctx.get(e)", found)


def main(tier, seed):
    rep = run.Report("C05", "other", tier, seed)
    from vlib.pysym.selfcheck import selfcheck
    rep.extra["pysym_selfcheck_comparisons"] = selfcheck(seed)
    if tier == "quick":
        W, aW, nrand, depth, ntgt = 3, 2, 800, 2, 500
    else:
        W, aW, nrand, depth, ntgt = 4, 3, 12000, 3, 12000
    jobs, seen = [], set()

    def add(p, tag):
        t = G.show(p)
        if t not in seen and p[0] not in ("sig", "const"):
            seen.add(t)
            jobs.append({"id": f"{tag}-{len(jobs):05d}", "what": "read", "prog": p})
    for p in G.depth1(W, aW):
        add(p, "rd1")
    for p in G.depth2(full=(tier != "quick")) + G.extension_programs() + G.reflected_programs():
        add(p, "rd2")
    gen = G.RandomExprs(seed + 1, W, aW)
    for i in range(nrand):
        add(gen.gen(depth), f"rr{depth}")
    nread = len(jobs)
    tg = T.Targets(seed, W=4)
    tseen = set()
    tlist = list(T.corner_targets())
    for i in range(ntgt):
        tlist.append(tg.gen(3 if i % 2 else 2))
    for t in tlist:
        for vs in (False, True):
            key = (T.show(t), vs)
            if key in tseen:
                continue
            tseen.add(key)
            jobs.append({"id": f"wr-{len(jobs):05d}", "what": "write", "tgt": t, "vsigned": vs})
            # the same target with one of its leaves living in a memory row (testbench side)
            leaves = [n for n, (w_, s_) in T.collect(t).items() if w_ > 0 and _is_base_leaf(t, n)]
            if leaves and not vs:
                jobs.append({"id": f"wr-{len(jobs):05d}", "what": "write", "tgt": t, "vsigned": vs, "row": leaves[len(jobs) % len(leaves)]})
    # one row reached twice by a single write
    for t in row_twice_targets():
        jobs.append({"id": f"wr-{len(jobs):05d}", "what": "write", "tgt": t, "vsigned": False, "row": "m"})
    results, stats = run.run_jobs(check_job, jobs, chunksize=4)
    skipped = [r for r in results if r.get("status") == "skipped"]
    results = [r for r in results if r.get("status") != "skipped"]
    rep.extra["unconstructible_programs_skipped"] = len(skipped)
    rep.add(results, stats)
    # the symbolic runs use the H state classes: their equivalence with the genuine _PySignalState / _PyMemoryState
    # (masked updates, queued partial row writes, commit) is part of this check's claim
    from vlib import hstate_proof
    hjobs = [{"id": f"hstate-{i}", "spec": sp} for i, sp in enumerate(hstate_proof.all_obligations(tier))]
    hres, hstats = run.run_jobs(hstate_proof.run_one, hjobs)
    rep.add(hres, hstats)
    # "values of shape-castable objects round-trip through from_bits / const": ctx.set then ctx.get on the genuine Simulator for
    # every member of signed / unsigned enumerations and for layout fields (shared with C15)
    from checks import c15
    rep.add([dict(x, id="c05-" + x["id"]) for x in c15.enum_job({}) if x["id"] == "testbench-roundtrip"], None)
    twin_checks(rep)
    rep.source_files = FILES
    rep.functions = ["amaranth.sim._pyeval.eval_value", "amaranth.sim._pyeval._eval_matches", "amaranth.sim._pyeval._eval_assign_inner",
                     "amaranth.sim._pyeval.eval_assign", "amaranth.sim.pysim.PySimEngine.get_value/set_value/step_design",
                     "amaranth.sim._pyrtl._RHSValueCompiler.*", "amaranth.sim._pyrtl._LHSValueCompiler.*",
                     "amaranth.sim._pyrtl._StatementCompiler.on_Assign", "amaranth.sim._pyrtl._FragmentCompiler.__call__"]
    rep.bounds = {"read_programs": nread, "write_programs": len(jobs) - nread, "max_leaf_width": W, "expr_depth": depth,
                  "target_depth": 3, "target_leaf_width": 4, "written_value": "symbolic, width(target)+2 bits, signed and unsigned",
                  "outside": "Const.cast normalisation of the written Python value (identity on ints; C10), shape-castable "
                             "from_bits/const round trip (C15), memory rows (C11)"}
    rep.stubs = ["HSignalState", "compile recorder", "generated run() executed by the if-converting interpreter; "
                 "_pyeval functions executed natively by CPython with forking on symbolic branches"]
    rep.assumptions = ["circuit equivalent of a testbench write = the same assignment in a reset-less sync domain at its edge",
                       "array indices on the read side are in range"]
    rep.rule = ("read: expression programs as in C01; write: hand-chosen nested targets plus seeded random target trees, each "
                "with a signed and an unsigned written value; non-trivial when the symbolic input space has >= 2 values")
    rep.explanation = ("Two real interpreters are compared by z3 for all states/values: the tree-walking evaluator used by "
                       "testbenches (_pyeval) and the code _pyrtl compiles for circuits.")
    return rep.finish()
