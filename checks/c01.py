"""C01 - operators compute exact integer results in shapes that never overflow."""
import os
import time
import warnings

import z3

from vlib import run, refsem
from vlib.run import PROVED, VIOLATION, INCONCLUSIVE, ERROR, UNREPRODUCED
from vlib.gen import expr as G
from vlib.pysym import (explore, sym_eq_term, bool_term, eval_in_model, is_sym, timed_check, fresh, Inconclusive,
                        Unsupported, SymInt, sym_not)
from vlib import symsim

FILES = ["amaranth/hdl/_ast.py", "amaranth/sim/_pyrtl.py", "amaranth/sim/pysim.py", "amaranth/utils.py",
         "amaranth/hdl/_xfrm.py", "amaranth/hdl/_ir.py"]


def build_design(prog):
    from amaranth.hdl import Module, Signal
    leaves = G.collect_leaves(prog)
    sigs = G.make_signals(leaves)
    e = G.build(prog, sigs)
    sh = e.shape()
    o = Signal(sh, name="o")
    m = Module()
    m.d.comb += o.eq(e)
    return m, sigs, e, o


def concrete_sim_value(prog, values):
    """Replay on the unmodified simulator through the public API."""
    from amaranth.sim import Simulator
    with symsim.real_states():
        m, sigs, e, o = build_design(prog)
        sim = Simulator(m)
        got = {}

        async def tb(ctx):
            for n, s in sigs.items():
                if len(s):
                    ctx.set(s, values.get(n, 0))
            got["o"] = ctx.get(o)
            try:
                got["e"] = ctx.get(e)
            except Exception as ex:  # reported, not swallowed: the caller compares "e" with "o"
                got["e"] = f"raised {type(ex).__name__}: {ex}"
        sim.add_testbench(tb)
        sim.run()
    return got


def check_program(job):
    prog = job["prog"]
    text = G.show(prog)
    res = {"id": job["id"], "kind": "value", "program": text, "symbolic": None, "nontrivial": False}
    leaves = G.collect_leaves(prog)
    # reference shape first (also decides well-formedness)
    try:
        _, rshape = refsem.ref_eval(prog, G._ZeroEnv())
        ref_ok = True
    except refsem.RefError as e:
        ref_ok, rshape = False, None
    try:
        with warnings.catch_warnings():
            warnings.simplefilter("ignore")
            m, sigs, e, o = build_design(prog)
    except (TypeError, IndexError, ValueError, SyntaxError) as ex:
        # not constructible: outside the family (the property quantifies over expressions that exist)
        return [dict(res, kind="unconstructible", status="skipped", detail=f"{type(ex).__name__}: {ex}")]
    if not ref_ok:
        res.update(status=ERROR, detail="reference rejects a program Amaranth accepts")
        return [res]
    out = []
    # O2: shape equals the documented one
    sh = e.shape()
    r2 = dict(res, kind="shape", assertion=f"shape() == {'signed' if rshape[1] else 'unsigned'}({rshape[0]})",
              nontrivial=True)
    if (sh.width, bool(sh.signed)) == (rshape[0], bool(rshape[1])):
        r2["status"] = PROVED
    else:
        r2.update(status=VIOLATION, detail=f"shape() is {sh!r}, documented {rshape}",
                  cex={"shape": repr(sh), "documented": list(rshape)},
                  signature={"kind": "shape", "op": prog[0]})
    out.append(r2)
    # O1: value
    sim = symsim.SymSim(m)

    def scenario():
        sim.reset()
        sim.sym_state("v")
        env = {}
        for n, s in sigs.items():
            env[n] = sim.value(s)
        sim.settle()
        got = sim.value(o)
        want, wshape = refsem.ref_eval(prog, env)
        assume = refsem.array_in_range_assumptions(prog, env)
        return env, got, want, assume

    paths = explore(scenario, max_paths=64)
    n_sym = sum(1 for n, (w, s) in leaves.items() if w > 0)
    res["symbolic"] = {n: f"{'signed' if s else 'unsigned'}({w})" for n, (w, s) in leaves.items()}
    res["assertion"] = "simulated comb signal o == reference value (exact Python integer semantics)"
    status, detail, cex = PROVED, "", None
    reach = False
    for p in paths:
        if p.exc is not None:
            status, detail = ERROR, f"exception on path: {type(p.exc).__name__}: {p.exc}"
            break
        env, got, want, assume = p.value
        s = z3.Solver()
        s.set("timeout", 120000)
        for c in p.pc:
            s.add(c)
        for a in assume:
            s.add(bool_term(a))
        if not reach:
            if timed_check(s) == z3.sat:
                reach = True
        neq = sym_not((got == want) if is_sym(got) else (want == got)) if (is_sym(got) or is_sym(want)) else (got != want)
        if neq is False:
            continue
        s.add(bool_term(neq))
        r = timed_check(s)
        if r == z3.unknown:
            status, detail = INCONCLUSIVE, "solver unknown"
            break
        if r == z3.sat:
            mdl = s.model()
            vals = {n: eval_in_model(mdl, v) for n, v in env.items()}
            exp = eval_in_model(mdl, want)
            sim_sym = eval_in_model(mdl, got)
            real = concrete_sim_value(prog, vals)
            cex = {"inputs": vals, "expected": exp, "symbolic_sim": sim_sym, "real_sim_circuit": real["o"],
                   "real_sim_testbench_get": real["e"]}
            if real["o"] != exp:
                status = VIOLATION
                detail = f"{text} with {vals}: circuit gives {real['o']}, Python semantics give {exp}"
            else:
                status = UNREPRODUCED
                detail = f"symbolic run gave {sim_sym}, real simulator {real['o']}, expected {exp} for {vals}"
            break
    if status == PROVED and not reach:
        status, detail = ERROR, "vacuous: no feasible path"
    res.update(status=status, detail=detail, cex=cex, nontrivial=n_sym > 0)
    if status == VIOLATION:
        res["signature"] = {"kind": "value", "op": prog[0], "program": text}
        res["replay"] = {"prog": prog, "inputs": cex["inputs"], "expected": cex["expected"]}
    out.append(res)
    return out


def twin_checks(rep):
    """Mutation twin: a perturbed oracle must yield a counterexample; reachability is per obligation."""
    prog = ["add", ["sig", "a", 3, False], ["sig", "b", 2, True]]
    m, sigs, e, o = build_design(prog)
    sim = symsim.SymSim(m)

    def scen():
        sim.reset()
        sim.sym_state("v")
        env = {n: sim.value(s) for n, s in sigs.items()}
        sim.settle()
        return sim.value(o), refsem.ref_eval(prog, env)[0]
    p, = explore(scen)
    got, want = p.value
    s = z3.Solver()
    s.add(bool_term(sym_not(got == want + 1)))
    rep.twin("mutation: oracle+1 must be refuted", s.check() == z3.sat)
    s = z3.Solver()
    s.add(bool_term(sym_not(got == want)))
    rep.twin("sanity: unperturbed oracle holds on the twin program", s.check() == z3.unsat)


def replay(path):
    import json
    with open(path) as f:
        d = json.load(f)
    r = d["replay"]
    real = concrete_sim_value(r["prog"], r["inputs"])
    print(f"program {G.show(r['prog'])} inputs {r['inputs']}: real simulator circuit value {real['o']}, "
          f"expected {r['expected']}")
    return 1 if real["o"] != r["expected"] else 0


def main(tier, seed):
    rep = run.Report("C01", "other", tier, seed)
    from vlib.pysym.selfcheck import selfcheck
    n = selfcheck(seed)
    rep.extra["pysym_selfcheck_comparisons"] = n
    if tier == "quick":
        W, aW, nrand, depth = 3, 2, 1500, 2
    else:
        W, aW, nrand, depth = 5, 3, 20000, 3
    progs = G.depth1(W, aW)
    gen = G.RandomExprs(seed, W, aW)
    seen = set()
    jobs = []
    for p in progs:
        t = G.show(p)
        if t not in seen:
            seen.add(t)
            jobs.append({"id": f"d1-{len(jobs):05d}", "prog": p})
    for p in G.depth2(full=(tier != "quick")) + G.extension_programs() + G.reflected_programs() + G.proxy_programs():
        t = G.show(p)
        if t not in seen:
            seen.add(t)
            jobs.append({"id": f"d2-{len(jobs):05d}", "prog": p})
    nd1 = len(jobs)
    for i in range(nrand):
        d = depth if (tier == "quick" or i % 3) else 2
        p = gen.gen(d)
        t = G.show(p)
        if t not in seen and p[0] not in ("sig", "const"):
            seen.add(t)
            jobs.append({"id": f"r{d}-{len(jobs):05d}", "prog": p})
    results, stats = run.run_jobs(check_program, jobs, chunksize=8)
    skipped = [r for r in results if r.get("status") == "skipped"]
    results = [r for r in results if r.get("status") != "skipped"]
    rep.extra["unconstructible_programs_skipped"] = len(skipped)
    rep.extra["unconstructible_samples"] = [f"{r['program']}: {r['detail']}" for r in skipped[:5]]
    rep.add(results, stats)
    twin_checks(rep)
    rep.source_files = FILES
    rep.functions = ["amaranth.hdl._ast.Value.<operators>", "amaranth.hdl._ast.Operator.shape", "amaranth.hdl._ast.Shape._unify",
                     "amaranth.hdl._ast.{Slice,Part,Concat,SwitchValue,ArrayProxy}.shape", "amaranth.hdl._ast._normalize_patterns",
                     "amaranth.sim._pyrtl._RHSValueCompiler.*", "amaranth.sim._pyrtl._LHSValueCompiler.on_Signal",
                     "amaranth.sim._pyrtl._FragmentCompiler.__call__ (emitted run() source, interpreted)",
                     "amaranth.sim._pyrtl._ValueCompiler.helpers (sign, zdiv, zmod)",
                     "amaranth.sim.pysim.PySimEngine.step_design", "amaranth.sim.pysim._PyEngineState.commit"]
    rep.bounds = {"max_leaf_width": W, "max_shift_amount_width": aW, "depth1_programs": nd1,
                  "random_programs": len(jobs) - nd1, "random_depth": depth,
                  "outside": "widths above the bound at value level, out-of-range Array indices, depth above the bound"}
    rep.stubs = ["HSignalState (update/commit with structural change detection)", "compile recorder in amaranth.sim._pyrtl",
                 "generated run() executed by vlib.pysym.interp (if-conversion), helpers interpreted from source"]
    rep.assumptions = ["array indices are in range (property: in-range array indexing)",
                       "bounds as listed under coverage.bounds"]
    rep.rule = ("programs: every operator x every leaf shape combination up to the width bound (depth 1, exhaustive) plus "
                "seeded random trees; an obligation is non-trivial when at least one leaf has width > 0 (so the solver "
                "quantifies over >= 2 values) and its path set is reachable; distinct by (program text, kind)")
    rep.explanation = ("For each program the real front end builds the expression, the real _pyrtl compiler emits run(), "
                       "which is executed on z3-backed proxy integers; z3 decides sim(o) != reference for all leaf values. "
                       "Shape obligations compare Value.shape() with the documented table.")
    rep.exhaustive = False
    return rep.finish()
