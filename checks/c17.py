"""C17 - clock-domain-crossing primitives meet their latency and pulse contracts."""
import warnings

import z3

from vlib import run, symsim
from vlib.ts import TransitionSystem, as_bv
from vlib.run import PROVED, VIOLATION, INCONCLUSIVE, ERROR, UNREPRODUCED
from vlib.pysym import explore, Inconclusive, Unsupported, timed_check

from amaranth.hdl import Module, Signal, ClockDomain, Shape
from amaranth.lib.cdc import FFSynchronizer, AsyncFFSynchronizer, ResetSynchronizer, PulseSynchronizer

FILES = ["amaranth/lib/cdc.py", "amaranth/hdl/_ir.py", "amaranth/sim/_pyrtl.py", "amaranth/sim/pysim.py"]


def decide(res, solver, on_sat):
    c = timed_check(solver)
    if c == z3.unsat:
        return dict(res, status=PROVED)
    if c == z3.unknown:
        return dict(res, status=INCONCLUSIVE, detail="solver unknown")
    return on_sat(solver.model())


# ------------------------------------------------------------------------------------------ FFSynchronizer
def ff_job(job):
    width, stages, init, reset_less = job["width"], job["stages"], job["init"], job["reset_less"]
    signed_, ow = job.get("signed", False), job.get("owidth", width)
    text = f"FFSynchronizer(width={width}, stages={stages}, init={init}, reset_less={reset_less})" + (f" signed input, output signed({ow})" if signed_ else "")
    base = {"id": job["id"], "program": text, "nontrivial": True}
    from amaranth.hdl import Shape
    i, o = Signal(Shape(width, signed_), name="i"), Signal(Shape(ow, signed_), name="o")
    ext = (lambda t: z3.SignExt(ow - width, t) if signed_ else z3.ZeroExt(ow - width, t)) if ow > width else (lambda t: t)
    top = Module()
    cd = ClockDomain("sync")
    other = ClockDomain("other")
    top.domains += [cd, other]
    top.submodules.ffs = FFSynchronizer(i, o, init=init, reset_less=reset_less, stages=stages)
    dummy = Signal(2, name="dummy")
    top.d.other += dummy.eq(dummy + 1)
    with warnings.catch_warnings():
        warnings.simplefilter("ignore")
        sim = symsim.SymSim(top)
    ts = TransitionSystem(sim, {"o": [cd.clk], "x": [other.clk]}, observe=[o], inputs=[i, cd.rst, other.rst])
    stages_n = [f"x_stage{k}" for k in range(stages)]
    out = []
    # one-step shift law from an arbitrary state
    st = ts.symbolic_state()
    ins = ts.fresh_inputs(0)
    nxt = ts.step(st, ins, 0, ["o", "x"])
    rst = ins.get("x_rst")
    want = {}
    prev = ins["x_i"]
    for k in range(stages):
        w = prev
        if not reset_less:
            w = z3.If(rst == 1, z3.BitVecVal(init & ((1 << width) - 1), width), w)
        want[stages_n[k]] = w
        prev = st[stages_n[k]]
    r = dict(base, kind="shift-register law", assertion="at an output-domain edge stage0 takes i and stage k takes stage k-1 (init under reset unless reset_less); "
             "o is the last stage; an edge of another domain changes nothing", symbolic="all stages, i, reset")
    s = z3.Solver()
    nx2 = ts.step(st, ins, 1, ["o", "x"])
    conds = [nxt[n] != want[n] for n in stages_n] + [nx2[n] != st[n] for n in stages_n] + [ts.observe("o", st, ins) != ext(st[stages_n[-1]])]
    s.add(z3.Or(*conds))
    out.append(decide(r, s, lambda m: ff_cex(r, job, m)))
    # bounded latency from the initial state: o after edge t equals i sampled at edge t - stages + 1 ... (reset de-asserted)
    K = stages + 3
    st = ts.initial_state()
    seq = []
    conds = []
    for t in range(K):
        ins = ts.fresh_inputs(t)
        if "x_rst" in ins:
            ins["x_rst"] = z3.BitVecVal(0, 1)
        seq.append(ins["x_i"])
        conds.append(ts.observe("o", st, ins) != ext(seq[t - stages] if t - stages >= 0 else z3.BitVecVal(init & ((1 << width) - 1), width)))
        st = ts.step(st, ins, 0, ["o", "x"])
    r = dict(base, kind="latency", assertion=f"from the initial state: before edge t the output shows the input sampled at edge t-{stages} "
             f"(the initial value for t < {stages}), for t < {K}", symbolic=f"input at each of {K} edges")
    s = z3.Solver()
    s.add(z3.Or(*conds))
    out.append(decide(r, s, lambda m: ff_cex(r, job, m, [m.eval(x, model_completion=True).as_long() for x in seq])))
    return out


def ff_cex(res, job, model, seq=None):
    """Replay on the real simulator: drive a sequence and compare with the delayed input."""
    from amaranth.sim import Simulator, Period
    width, stages, init, reset_less = job["width"], job["stages"], job["init"], job["reset_less"]
    signed_, ow = job.get("signed", False), job.get("owidth", width)
    from amaranth.hdl import Shape
    seq = seq or [(k * 5 + 3) % (1 << width) for k in range(stages + 3)]
    if signed_:
        seq = [v - (1 << width) if v >= 1 << (width - 1) else v for v in seq]
    with symsim.real_states():
        i, o = Signal(Shape(width, signed_)), Signal(Shape(ow, signed_))
        m = Module()
        m.submodules.ffs = FFSynchronizer(i, o, init=init, reset_less=reset_less, stages=stages)
        sim = Simulator(m)
        sim.add_clock(Period(MHz=1))
        got = []

        async def tb(ctx):
            for v in seq:
                ctx.set(i, v)
                got.append(ctx.get(o))
                await ctx.tick()
        sim.add_testbench(tb)
        sim.run()
    want = [(seq[t - stages] if t >= stages else (init if signed_ else init & ((1 << width) - 1))) for t in range(len(seq))]
    if got != want:
        return dict(res, status=VIOLATION, detail=f"{res['program']}: input {seq} gives output {got}, expected {want}",
                    signature={"kind": res["kind"], "primitive": "FFSynchronizer"}, replay={"what": "ff", "job": job, "seq": seq})
    return dict(res, status=UNREPRODUCED, detail=f"counterexample {seq} did not reproduce (got {got})")


# ------------------------------------------------------------------------------------------ AsyncFFSynchronizer / ResetSynchronizer
def async_job(job):
    stages, edge, kind = job["stages"], job["edge"], job["kind"]
    text = f"{kind}(stages={stages}" + (f", async_edge={edge!r})" if kind == "AsyncFFSynchronizer" else ")")
    base = {"id": job["id"], "program": text, "nontrivial": True}
    between = job.get("between", False)      # a second input level per clock period, applied between the edges
    K = stages + (2 if between else 4)
    oedge = job.get("oedge", "pos")          # the output domain's active clock edge
    if oedge != "pos":
        text += f" in a domain with clk_edge={oedge!r}"
        base["program"] = text
    hi, lo = (1, 0) if oedge == "pos" else (0, 1)

    def build():
        i = Signal(1, name="i")
        top = Module()
        cd = ClockDomain("sync", clk_edge=oedge)
        top.domains += cd
        if kind == "AsyncFFSynchronizer":
            o = Signal(1, name="o")
            top.submodules.s = AsyncFFSynchronizer(i, o, stages=stages, async_edge=edge)
        else:
            top.submodules.s = ResetSynchronizer(i, stages=stages)
            o = cd.rst
        return top, i, o, cd
    top, i, o, cd = build()
    try:
        with warnings.catch_warnings():
            warnings.simplefilter("ignore")
            sim = symsim.SymSim(top)
    except Exception as ex:
        if oedge != "pos" and type(ex).__name__ == "DomainRequirementFailed":
            # the primitive refuses an output domain it cannot serve (RequirePosedge): nothing is released at a wrong edge
            return [dict(base, kind="assert-async/release-after-stages (falling-edge output domain)", status=PROVED, nontrivial=False,
                         assertion="a falling-edge output domain is either refused or served with the release counted in its own active edges", outcome="refused")]
        raise
    active = 1 if (edge == "pos" or kind != "AsyncFFSynchronizer") else 0
    from vlib.pysym import fresh, sym_ite, sym_and, sym_not, bool_term, eval_in_model
    # symbolic input level before each of K clock edges; reference: flops all 1 while asserted, shift in 0 at each edge
    ivs = [fresh(f"i{t}", 1, False) for t in range(K * (2 if between else 1))]

    def scen():
        sim.reset()
        if oedge != "pos":
            sim.edge((cd.clk, lo))
        sim.settle()
        ref = [1] * stages
        conds = []
        for t in range(K):
            iv = ivs[2 * t] if between else ivs[t]
            sim.set(i, iv)
            sim.engine.step_design()
            asserted = (iv == active)
            ref = [sym_ite(asserted, 1, x) for x in ref]
            conds.append(sim.value(o) != ref[-1])
            if oedge == "pos":
                sim.tick(cd.clk)
                sim.edge((cd.clk, 0))
            else:
                sim.edge((cd.clk, hi))           # the active (falling) edge ...
                ref_after = [sym_ite(asserted, 1, x) for x in [0] + ref[:-1]]
                conds.append(sim.value(o) != ref_after[-1])
                sim.edge((cd.clk, lo))           # ... and the inactive one, which must change nothing
            ref = [sym_ite(asserted, 1, x) for x in [0] + ref[:-1]]
            conds.append(sim.value(o) != ref[-1])
            if between:
                # a level that no clock edge sees: asserting it still sets every stage, releasing it changes nothing by itself
                iv2 = ivs[2 * t + 1]
                sim.set(i, iv2)
                sim.engine.step_design()
                ref = [sym_ite(iv2 == active, 1, x) for x in ref]
                conds.append(sim.value(o) != ref[-1])
        return conds
    r = dict(base, kind="assert-async/release-after-stages" + (" (levels between edges)" if between else ""),
             symbolic=f"input level before each of {K} clock edges" + (" and between them" if between else ""),
             assertion="output == reference chain: all stages set as soon as the input is asserted (no clock needed), a 0 shifted in at every clock edge while released")
    try:
        paths = explore(scen, max_paths=20000)
    except (Inconclusive, Unsupported) as e:
        return [dict(r, status=INCONCLUSIVE, detail=f"{type(e).__name__}: {e}")]
    for p in paths:
        if p.exc is not None:
            return [dict(r, status=ERROR, detail=f"exception: {type(p.exc).__name__}: {p.exc}")]
        bad = [bool_term(c) for c in p.value if c is not False]
        if not bad:
            continue
        s = z3.Solver()
        for c in p.pc:
            s.add(c)
        s.add(z3.Or(*bad))
        c = timed_check(s)
        if c == z3.unknown:
            return [dict(r, status=INCONCLUSIVE, detail="solver unknown")]
        if c == z3.sat:
            seq = [eval_in_model(s.model(), x) for x in ivs]
            return [async_cex(r, job, seq)]
    return [dict(r, status=PROVED, paths=len(paths))]


def async_cex(res, job, seq):
    from amaranth.sim import Simulator
    stages, edge, kind = job["stages"], job["edge"], job["kind"]
    between = job.get("between", False)
    active = 1 if (edge == "pos" or kind != "AsyncFFSynchronizer") else 0
    oedge = job.get("oedge", "pos")
    hi, lo = (1, 0) if oedge == "pos" else (0, 1)
    with symsim.real_states():
        i = Signal(1)
        top = Module()
        cd = ClockDomain("sync", clk_edge=oedge)
        top.domains += cd
        if kind == "AsyncFFSynchronizer":
            o = Signal(1)
            top.submodules.s = AsyncFFSynchronizer(i, o, stages=stages, async_edge=edge)
        else:
            top.submodules.s = ResetSynchronizer(i, stages=stages)
            o = cd.rst
        sim = Simulator(top)
        got, want = [], []

        async def tb(ctx):
            ref = [1] * stages
            if oedge != "pos":
                ctx.set(cd.clk, lo)
            for k_, v in enumerate(seq):
                ctx.set(i, v)
                if v == active:
                    ref = [1] * stages
                got.append(ctx.get(o))
                want.append(ref[-1])
                if between and k_ % 2 == 1:
                    continue                      # the level applied between two edges
                ctx.set(cd.clk, hi)
                ref = ([1] * stages) if v == active else ([0] + ref[:-1])
                got.append(ctx.get(o))
                want.append(ref[-1])
                ctx.set(cd.clk, lo)
                got.append(ctx.get(o))
                want.append(ref[-1])
        sim.add_testbench(tb)
        sim.run()
    if got != want:
        return dict(res, status=VIOLATION, detail=f"{res['program']}: input levels {seq}: output {got}, expected {want}",
                    signature={"kind": res["kind"], "primitive": kind}, replay={"what": "async", "job": job, "seq": seq})
    return dict(res, status=UNREPRODUCED, detail=f"counterexample {seq} did not reproduce")


# ------------------------------------------------------------------------------------------ PulseSynchronizer
def pulse_job(job):
    stages, K = job["stages"], job["K"]
    text = f"PulseSynchronizer(stages={stages}), schedule of {K} steps over {{i-edge, o-edge, both}} + drain"
    base = {"id": job["id"], "program": text, "nontrivial": True}
    top = Module()
    di, do = ClockDomain("idom"), ClockDomain("odom")
    top.domains += [di, do]
    ps = PulseSynchronizer("idom", "odom", stages=stages)
    top.submodules.ps = ps
    with warnings.catch_warnings():
        warnings.simplefilter("ignore")
        sim = symsim.SymSim(top)
    ts = TransitionSystem(sim, {"i": [di.clk], "o": [do.clk], "both": [di.clk, do.clk]}, observe=[ps.o], inputs=[ps.i, di.rst, do.rst])
    order = ["i", "o", "both"]
    st = ts.initial_state()
    D = stages + 3
    choices, ivals = [], []
    n_in = z3.BitVecVal(0, 8)
    n_out = z3.BitVecVal(0, 8)
    prev_o_high = z3.BoolVal(False)
    double = []
    pulse_at = []
    for t in range(K + D):
        ins = ts.fresh_inputs(t)
        for k in ("x_rst",):
            if k in ins:
                ins[k] = z3.BitVecVal(0, 1)
        for k in list(ins):
            if k.endswith("rst"):
                ins[k] = z3.BitVecVal(0, 1)
        if t < K:
            ch = z3.BitVec(f"choice{t}", 2)
            iv = ins["x_i"]
        else:
            ch = z3.BitVecVal(1, 2)
            iv = z3.BitVecVal(0, 1)
            ins["x_i"] = iv
        choices.append(ch)
        ivals.append(iv)
        i_edge = z3.Or(ch == 0, ch == 2)
        o_edge = z3.Or(ch == 1, ch == 2)
        is_pulse = z3.And(i_edge, iv == 1)
        pulse_at.append(is_pulse)
        o_now = ts.observe("o", st, ins) == 1
        n_in = z3.If(is_pulse, n_in + 1, n_in)
        n_out = z3.If(z3.And(o_edge, o_now), n_out + 1, n_out)
        double.append(z3.And(o_edge, o_now, prev_o_high))
        prev_o_high = z3.If(o_edge, o_now, prev_o_high)
        st = ts.step(st, ins, z3.If(z3.ULE(ch, 2), ch, z3.BitVecVal(2, 2)), order)
    # assumption: an output-clock edge falls between consecutive input pulses
    assume = []
    o_edge_at = [z3.Or(c == 1, c == 2) for c in choices]
    for a in range(K):
        for b in range(a + 1, K):
            between = z3.Or(*[o_edge_at[u] for u in range(a + 1, b + 1)])
            none_between = z3.Not(z3.Or(*[pulse_at[u] for u in range(a + 1, b)])) if b > a + 1 else z3.BoolVal(True)
            assume.append(z3.Implies(z3.And(pulse_at[a], pulse_at[b], none_between), between))
    for c in choices[:K]:
        assume.append(z3.ULE(c, 2))
    r = dict(base, kind="one output pulse per input pulse", symbolic=f"schedule ({K} x 3 choices) and input level at every step",
             assertion="after a drain window the number of output-clock edges that see o=1 equals the number of input pulses, and o is never high at two consecutive output edges")
    s = z3.Solver()
    s.set("timeout", 600000)
    for a in assume:
        s.add(a)
    # (two input pulses one output edge apart give two single-cycle output pulses in adjacent cycles: what
    #  is counted is output-clock cycles with o high, which must equal the number of input pulses)
    s.add(n_in != n_out)

    def on_sat(m):
        sched = [m.eval(c, model_completion=True).as_long() for c in choices]
        iv = [m.eval(x, model_completion=True).as_long() for x in ivals]
        return pulse_cex(r, job, sched, iv)
    return [decide(r, s, on_sat)]


def pulse_cex(res, job, sched, iv):
    from amaranth.sim import Simulator
    from amaranth.hdl import Cat
    stages = job["stages"]
    with symsim.real_states():
        top = Module()
        di, do = ClockDomain("idom"), ClockDomain("odom")
        top.domains += [di, do]
        ps = PulseSynchronizer("idom", "odom", stages=stages)
        top.submodules.ps = ps
        sim = Simulator(top)
        cnt = {"in": 0, "out": 0, "double": False}

        async def tb(ctx):
            prev = 0
            for ch, v in zip(sched, iv):
                ctx.set(ps.i, v)
                o = ctx.get(ps.o)
                if ch in (0, 2) and v:
                    cnt["in"] += 1
                if ch in (1, 2):
                    if o:
                        cnt["out"] += 1
                        if prev:
                            cnt["double"] = True
                    prev = o
                clks = {0: [di.clk], 1: [do.clk], 2: [di.clk, do.clk]}[min(ch, 2)]
                ctx.set(Cat(*clks), (1 << len(clks)) - 1)
                ctx.set(Cat(*clks), 0)
        sim.add_testbench(tb)
        sim.run()
    if cnt["in"] != cnt["out"]:
        return dict(res, status=VIOLATION, detail=f"{res['program']}: schedule {sched} inputs {iv}: {cnt['in']} input pulses, {cnt['out']} output pulses, "
                    f"double-width={cnt['double']}", signature={"kind": "pulse", "primitive": "PulseSynchronizer"},
                    replay={"what": "pulse", "job": job, "sched": sched, "iv": iv})
    return dict(res, status=UNREPRODUCED, detail=f"schedule {sched} inputs {iv} did not reproduce: {cnt}")


def job_fn(job):
    return {"ff": ff_job, "async": async_job, "pulse": pulse_job}[job["what"]](job)


def replay(path):
    import json
    with open(path) as f:
        d = json.load(f)
    r = d["replay"]
    res = {"program": d["program"], "kind": d["kind"]}
    if r["what"] == "ff":
        x = ff_cex(res, r["job"], None, r["seq"])
    elif r["what"] == "async":
        x = async_cex(res, r["job"], r["seq"])
    else:
        x = pulse_cex(res, r["job"], r["sched"], r["iv"])
    print(x.get("detail"))
    return 1 if x["status"] == VIOLATION else 0


def main(tier, seed):
    rep = run.Report("C17", "model_checking", tier, seed)
    from vlib.pysym.selfcheck import selfcheck
    rep.extra["pysym_selfcheck_comparisons"] = selfcheck(seed)
    jobs = []
    widths = (1, 3) if tier == "quick" else (1, 2, 3, 4, 8)
    for w in widths:
        for st in (2, 3, 4) if tier == "quick" else (2, 3, 4, 5, 6):
            for rl in (True, False):
                init = (5 * st + w) % (1 << w)
                jobs.append({"id": f"ff-w{w}-s{st}-{'rl' if rl else 'rst'}", "what": "ff", "width": w, "stages": st, "init": init, "reset_less": rl})
    for (w, st, init) in ((3, 2, -3), (2, 3, 1), (4, 2, -8)):
        jobs.append({"id": f"ff-signed-w{w}-s{st}", "what": "ff", "width": w, "stages": st, "init": init, "reset_less": st == 3, "signed": True, "owidth": w + 2})
    jobs.append({"id": "ff-wide-w3-s2", "what": "ff", "width": 3, "stages": 2, "init": 5, "reset_less": True, "signed": False, "owidth": 5})
    for st in (2, 3) if tier == "quick" else (2, 3, 4, 5):
        for edge in ("pos", "neg"):
            jobs.append({"id": f"async-s{st}-{edge}", "what": "async", "kind": "AsyncFFSynchronizer", "stages": st, "edge": edge})
            if st <= 4:       # (forking on the input levels between the edges: 5 stages exceed the path budget)
                jobs.append({"id": f"async-s{st}-{edge}-between", "what": "async", "kind": "AsyncFFSynchronizer", "stages": st, "edge": edge, "between": True})
        jobs.append({"id": f"rstsync-s{st}", "what": "async", "kind": "ResetSynchronizer", "stages": st, "edge": "pos"})
        if st <= 4:
            jobs.append({"id": f"rstsync-s{st}-between", "what": "async", "kind": "ResetSynchronizer", "stages": st, "edge": "pos", "between": True})
    for st in (2, 3):
        jobs.append({"id": f"async-s{st}-negclk", "what": "async", "kind": "AsyncFFSynchronizer", "stages": st, "edge": "pos", "oedge": "neg"})
        jobs.append({"id": f"rstsync-s{st}-negclk", "what": "async", "kind": "ResetSynchronizer", "stages": st, "edge": "pos", "oedge": "neg"})
    for st in (2, 3) if tier == "quick" else (2, 3, 4, 5):
        jobs.append({"id": f"pulse-s{st}", "what": "pulse", "stages": st, "K": 10 if tier == "quick" else (20 if st <= 3 else 16)})
    results, stats = run.run_jobs(job_fn, jobs)
    rep.add(results, stats)
    # mutation twin: latency claimed one edge too short must be refuted
    j = {"id": "twin", "what": "ff", "width": 2, "stages": 2, "init": 1, "reset_less": True}
    i, o = Signal(2, name="i"), Signal(2, name="o")
    top = Module()
    cd = ClockDomain("sync")
    top.domains += cd
    top.submodules.ffs = FFSynchronizer(i, o, init=1, stages=2)
    sim = symsim.SymSim(top)
    ts = TransitionSystem(sim, {"o": [cd.clk]}, observe=[o], inputs=[i, cd.rst])
    st = ts.initial_state()
    seq, conds = [], []
    for t in range(4):
        ins = ts.fresh_inputs(t)
        seq.append(ins["x_i"])
        conds.append(ts.observe("o", st, ins) != (seq[t - 1] if t >= 1 else z3.BitVecVal(1, 2)))
        st = ts.step(st, ins, 0, ["o"])
    s = z3.Solver()
    s.add(z3.Or(*conds))
    rep.twin("mutation: latency of stages-1 edges must be refuted", s.check() == z3.sat)
    rep.extra.update({"states": len(jobs), "transitions": sum(1 for r in results if r["status"] == PROVED), "traces_validated_against_impl": 0})
    rep.source_files = FILES
    rep.functions = ["amaranth.lib.cdc.FFSynchronizer.elaborate", "amaranth.lib.cdc.AsyncFFSynchronizer.elaborate", "amaranth.lib.cdc.ResetSynchronizer.elaborate",
                     "amaranth.lib.cdc.PulseSynchronizer.elaborate", "amaranth.sim._pyrtl (compiled processes incl. the asynchronous-reset process)",
                     "amaranth.sim.pysim.PySimEngine.step_design (derived clock and reset through combinational aliases)"]
    rep.bounds = {"FFSynchronizer": f"widths {list(widths)}, stages 2..{4 if tier == 'quick' else 6}, reset_less both ways: one inductive step + {'stages+3'} edges from reset",
                  "AsyncFFSynchronizer/ResetSynchronizer": "stages 2..3 (quick) / 2..5 (thorough), both async edges, symbolic input level before each of stages+4 clock edges",
                  "PulseSynchronizer": "stages 2..3 (quick) / 2..5 (thorough), symbolic schedule of 10 (quick) / 16..20 (thorough) steps + drain of stages+3 output edges",
                  "outside": "longer schedules; wider data"}
    rep.stubs = ["HSignalState", "compile recorder", "if-converting interpreter", "vlib.ts unrolling by substitution"]
    rep.assumptions = ["PulseSynchronizer: an output-clock edge falls between consecutive input pulses; resets de-asserted",
                       "coverage.states counts configurations, transitions counts discharged obligations"]
    rep.rule = "one job per (primitive, parameters); obligations quantify over all data / input levels / schedules within the bound"
    rep.explanation = ("Transition functions of the real primitives are extracted from the compiled simulator code per clock-event kind and unrolled "
                       "in z3 with symbolic inputs and a symbolic schedule; the asynchronous assert/release behaviour runs on the real engine with symbolic input levels (forking).")
    return rep.finish()
