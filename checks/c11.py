"""C11 - memories behave as arrays of rows under any port configuration (simulator half; the
simulator-vs-RTLIL half lives in C04's translation validation and is reported there and here)."""
import itertools
import random
import warnings

import z3

from vlib import run, symsim, refsem
from vlib.run import PROVED, VIOLATION, INCONCLUSIVE, ERROR, UNREPRODUCED
from vlib.pysym import (explore, bool_term, eval_in_model, is_sym, timed_check, sym_not, sym_ite, sym_and, sym_or,
                        fresh, Inconclusive, Unsupported)

FILES = ["amaranth/lib/memory.py", "amaranth/hdl/_mem.py", "amaranth/sim/_pyrtl.py", "amaranth/sim/pysim.py",
         "amaranth/sim/_pyeval.py", "amaranth/hdl/_ir.py", "amaranth/back/rtlil.py", "amaranth/hdl/_xfrm.py"]


def neq_term(a, b):
    if is_sym(a):
        return sym_not(a == b)
    if is_sym(b):
        return sym_not(b == a)
    return a != b


def show(cfg):
    sh = cfg["shape"]
    s = f"{'signed' if sh[1] else 'unsigned'}({sh[0]})" if cfg.get("array") is None else f"ArrayLayout({cfg['array'][0]},{cfg['array'][1]})"
    if cfg.get("struct"):
        s = "Struct{tag: unsigned(2) = 1, delta: signed(2) = -1}"
    wp = ", ".join(f"W{i}[{p['domain']},gran={p['gran']}]" for i, p in enumerate(cfg["wports"]))
    rp = ", ".join(f"R{i}[{p['domain']},transp={p['transparent']}]" for i, p in enumerate(cfg["rports"]))
    rs = "; resets " + ", ".join(f"{d}:{k}" for d, k in sorted(cfg["reset"].items())) if cfg.get("reset") else ""
    if cfg.get("edge"):
        rs += "; edges " + ", ".join(f"{d}:{k}" for d, k in sorted(cfg["edge"].items()))
    return f"Memory(shape={s}, depth={cfg['depth']}, init={cfg['init']}); {wp}; {rp}{rs}"


_ENTRY = []
ENTRY_DEFAULT = 0b1101        # tag = 1, delta = -1


def entry_struct():
    """A row shape whose default (shape.const(None)) is not the all-zero pattern."""
    if not _ENTRY:
        from amaranth.lib import data
        from amaranth.hdl import unsigned, signed

        class Entry(data.Struct):
            tag: unsigned(2) = 1
            delta: signed(2) = -1
        _ENTRY.append(Entry)
    return _ENTRY[0]


def expected_initial_rows(cfg):
    """Declared contents: explicit rows in the row shape, the rest the shape's default."""
    w, sg = cfg["shape"]
    out = []
    for i in range(cfg["depth"]):
        if i < len(cfg["init"]):
            v = cfg["init"][i] & ((1 << w) - 1) if w else 0
        else:
            v = ENTRY_DEFAULT if cfg.get("struct") else 0
        if sg and w and (v >> (w - 1)) & 1:
            v -= 1 << w
        out.append(v)
    return out


def build(cfg):
    from amaranth.hdl import Module, ClockDomain, Shape
    from amaranth.lib.memory import Memory
    from amaranth.lib import data
    m = Module()
    doms = {}
    for p in cfg["wports"] + cfg["rports"]:
        d = p["domain"]
        if d != "comb" and d not in doms:
            kind = (cfg.get("reset") or {}).get(d)
            doms[d] = ClockDomain(d, reset_less=kind is None, async_reset=kind == "async", clk_edge=(cfg.get("edge") or {}).get(d, "pos"))
            m.domains += doms[d]
    if cfg.get("struct"):
        shape = entry_struct()
        init = [{"tag": v & 3, "delta": ((v >> 2) & 3) - (4 if (v >> 3) & 1 else 0)} for v in cfg["init"]]
    elif cfg.get("array") is not None:
        shape = data.ArrayLayout(cfg["array"][0], cfg["array"][1])
        init = [[(v >> (k * cfg["array"][0])) & ((1 << cfg["array"][0]) - 1) for k in range(cfg["array"][1])] for v in cfg["init"]]
    else:
        shape = Shape(*cfg["shape"])
        init = cfg["init"]
    mem = Memory(shape=shape, depth=cfg["depth"], init=init)
    m.submodules.mem = mem
    wps = [mem.write_port(domain=p["domain"], granularity=p["gran"]) for p in cfg["wports"]]
    rps = [mem.read_port(domain=p["domain"], transparent_for=tuple(wps[i] for i in p["transparent"])) for p in cfg["rports"]]
    return m, mem, wps, rps, doms


def init_survives(cfg):
    """Concrete, on the genuine Simulator: rows are overwritten from a testbench; afterwards the declaration (mem.init), the state
    after Simulator.reset() and the state a second Simulator starts from must all be the declared contents.  Returns '' or a text."""
    from amaranth.sim import Simulator
    w = cfg["shape"][0]
    want = [v & ((1 << w) - 1) for v in expected_initial_rows(cfg)]
    with symsim.real_states():
        m_, mem_, _, _, _ = build(cfg)
        sim_ = Simulator(m_)
        seen = {}

        def reader(key):
            async def tb(ctx):
                seen[key] = [_as_int(ctx.get(mem_.data[i])) & ((1 << w) - 1) for i in range(cfg["depth"])]
                if key == "first":
                    for i in range(cfg["depth"]):
                        ctx.set(mem_.data[i], (want[i] ^ 1) if w else 0)
            return tb
        sim_.add_testbench(reader("first"))
        sim_.run()
        declared = [int(v) & ((1 << w) - 1) for v in list(mem_.data.init)]
        sim_.reset()
        seen["after reset"] = [_as_int(sim_._engine.get_value(mem_.data[i])) & ((1 << w) - 1) for i in range(cfg["depth"])]
        sim2 = Simulator(m_)
        sim2.add_testbench(reader("second simulator"))
        sim2.run()
    bad = []
    if declared != want:
        bad.append(f"mem.init reads {declared} after the run, declared {want}")
    for key in ("first", "after reset", "second simulator"):
        if seen.get(key) != want:
            bad.append(f"rows seen by '{key}': {seen.get(key)}, declared {want}")
    return "; ".join(bad)


def row_width(cfg):
    return cfg["shape"][0]


def wmask(cfg, p, en):
    """Bit mask of the row bits a write port updates, from its enable value."""
    w = row_width(cfg)
    if p["gran"] is None:
        return sym_ite((en & 1) != 0, refsem.mask(w), 0)
    gw = p["gran"] * (cfg["array"][0] if cfg.get("array") is not None else 1)
    n = w // gw if gw else 0
    m = 0
    for g in range(n):
        m = m | sym_ite(((en >> g) & 1) != 0, refsem.mask(gw) << (g * gw), 0)
    return m


class Oracle:
    """Array-of-rows model."""
    def __init__(self, cfg):
        self.cfg = cfg
        self.w = row_width(cfg)
        self.signed = cfg["shape"][1]

    def norm(self, u):
        return refsem.in_shape(u, self.w, self.signed)

    def read(self, rows, addr):
        r = 0
        for i in reversed(range(len(rows))):
            r = sym_ite(addr == i, rows[i], r)
        return r

    def edge(self, rows, rdata, wins, rins, domains):
        """rows: row values; rdata: current read data per port; wins[i] = (addr, data, en); rins[i] = (addr, en).
        domains: set of domain names whose active edge happens. Returns (rows', rdata')."""
        cfg = self.cfg
        w = self.w
        new_rows = list(rows)
        for pi, p in enumerate(cfg["wports"]):
            if p["domain"] not in domains:
                continue
            addr, data, en = wins[pi]
            m = wmask(cfg, p, en)
            du = refsem.to_unsigned(data, w)
            for i in range(len(rows)):
                u = refsem.to_unsigned(new_rows[i], w)
                nu = (u & ~m) | (du & m)
                new_rows[i] = sym_ite(addr == i, self.norm(nu), new_rows[i])
        new_rdata = list(rdata)
        for qi, q in enumerate(cfg["rports"]):
            if q["domain"] == "comb" or q["domain"] not in domains:
                continue
            addr, en = rins[qi]
            cap = refsem.to_unsigned(self.read(rows, addr), w)
            for pi in q["transparent"]:
                paddr, pdata, pen = wins[pi]
                m = wmask(cfg, cfg["wports"][pi], pen)
                cap = sym_ite(paddr == addr, (cap & ~m) | (refsem.to_unsigned(pdata, w) & m), cap)
            new_rdata[qi] = sym_ite((en & 1) != 0, self.norm(cap), rdata[qi])
        return new_rows, new_rdata


def event_sets(cfg):
    doms = sorted({p["domain"] for p in cfg["wports"] + cfg["rports"] if p["domain"] != "comb"})
    out = [[d] for d in doms]
    if len(doms) > 1:
        out.append(doms)
    # the rising edge of an asynchronous reset without any clock edge: "!<domain>" (a memory and its read ports have no reset)
    for d in doms:
        if (cfg.get("reset") or {}).get(d) == "async":
            out.append(["!" + d])
    return out


def concrete_run(cfg, rows, ins, rdata, event):
    """Replay on the unmodified simulator."""
    from amaranth.sim import Simulator
    with symsim.real_states():
        m, mem, wps, rps, doms = build(cfg)
        sim = Simulator(m)
        out = {}

        async def tb(ctx):
            for i, v in enumerate(rows):
                ctx.set(mem.data[i], _row_value(cfg, v))
            negc = {d_ for d_, k_ in (cfg.get("edge") or {}).items() if k_ == "neg"}
            for dn_, d in doms.items():
                ctx.set(d.clk, 1 if dn_ in negc else 0)
            for qi, q in enumerate(cfg["rports"]):
                if q["domain"] != "comb" and len(rps[qi].data):
                    ctx.set(rps[qi].data, _row_value(cfg, rdata[qi]))
            for pi, wp in enumerate(wps):
                a, dv, en = ins["w"][pi]
                if len(wp.addr):
                    ctx.set(wp.addr, a)
                if len(wp.data):
                    ctx.set(wp.data, _row_value(cfg, dv))
                ctx.set(wp.en, en)
            for qi, rp in enumerate(rps):
                a, en = ins["r"][qi]
                if len(rp.addr):
                    ctx.set(rp.addr, a)
                if cfg["rports"][qi]["domain"] != "comb":
                    ctx.set(rp.en, en)
            out["comb_before"] = [_as_int(ctx.get(rp.data)) for rp in rps]
            for d_, dom_ in doms.items():
                if dom_.rst is not None:
                    ctx.set(dom_.rst, ins.get("rst", {}).get(d_, 0))
            if event:
                from amaranth.hdl import Cat
                clks = [doms[d].clk if not d.startswith("!") else doms[d[1:]].rst for d in event]
                ctx.set(Cat(*clks), sum((0 if (not d.startswith("!") and d in negc) else 1) << j for j, d in enumerate(event)))
            out["rows"] = [_as_int(ctx.get(mem.data[i])) for i in range(cfg["depth"])]
            out["rdata"] = [_as_int(ctx.get(rp.data)) for rp in rps]
        sim.add_testbench(tb)
        sim.run()
    return out


def _row_value(cfg, v):
    if cfg.get("array") is not None:
        ew, n = cfg["array"]
        return [(v >> (k * ew)) & ((1 << ew) - 1) for k in range(n)]
    return v


def _as_int(x):
    if isinstance(x, int):
        return x
    return x.as_value().value if hasattr(x, "as_value") else int(x)


def oracle_concrete(cfg, rows, ins, rdata, event):
    o = Oracle(cfg)
    out = {}
    comb = []
    for qi, q in enumerate(cfg["rports"]):
        a, en = ins["r"][qi]
        comb.append(o.read(rows, a) if q["domain"] == "comb" else rdata[qi])
    out["comb_before"] = comb
    nr, nd = o.edge(rows, rdata, ins["w"], ins["r"], {d for d in event if not d.startswith("!")})
    for qi, q in enumerate(cfg["rports"]):
        if q["domain"] == "comb":
            nd[qi] = o.read(nr, ins["r"][qi][0])
    out["rows"], out["rdata"] = nr, nd
    return out


def check_config_and_rtlil(job):
    """The simulator half, a testbench partial-row write, and (for a share of the configurations) the RTLIL half through C04's
    translation validation of the same memory."""
    out = check_config(job)
    cfg = job["cfg"]
    if any(x.get("status") == "skipped" for x in out):
        return out
    out.extend(partial_row_write(job))
    if job.get("rtlil") and cfg.get("array") is None and not cfg.get("struct"):
        from checks import c04
        for x in c04.check_design({"id": job["id"] + "-rtlil", "spec": {"family": "memory", "cfg": cfg}}):
            if x.get("status") != "skipped":
                out.append(dict(x, id=job["id"] + "-rtlil-" + x["kind"].split(" ")[0] + "-" + x["kind"].split(" ")[-1], kind="RTLIL: " + x["kind"]))
    return out


def partial_row_write(job):
    """ctx.set on a bit range of a memory row changes exactly those bits of that row (symbolic row contents and value)."""
    cfg = job["cfg"]
    w, sg = cfg["shape"]
    base = {"id": job["id"] + "-rowslice", "program": show(cfg), "nontrivial": True, "kind": "testbench write to part of a row",
            "assertion": "engine.set_value(mem.data[i][lo:hi], v) replaces exactly bits [lo:hi) of row i", "symbolic": "row contents, written value"}
    if w < 2 or cfg["depth"] == 0 or cfg.get("array") is not None or cfg.get("struct"):
        return []
    try:
        with warnings.catch_warnings():
            warnings.simplefilter("ignore")
            m, mem, wps, rps, doms = build(cfg)
            sim = symsim.SymSim(m)
    except Exception as ex:
        return []
    i = (run.stable_hash(job["id"]) >> 3) % cfg["depth"]
    lo = 1 + (run.stable_hash(job["id"]) % (w - 1)) if w > 2 else 1
    hi = w
    v = fresh("wv", hi - lo + 1, False)

    def scen():
        sim.reset()
        sim.sym_state("v")
        ms = sim.mem_slot(mem.data)
        before = list(ms.data)
        sim.settle()
        sim.engine.set_value(mem.data[i][lo:hi], v)
        sim.engine.step_design()
        return before, list(ms.data)
    try:
        paths = explore(scen, max_paths=64)
    except (Inconclusive, Unsupported) as e:
        return [dict(base, status=INCONCLUSIVE, detail=str(e))]
    for p in paths:
        if p.exc is not None:
            return [dict(base, status=ERROR, detail=f"exception: {type(p.exc).__name__}: {p.exc}")]
        before, after = p.value
        diffs = []
        for k in range(cfg["depth"]):
            if k == i:
                msk = refsem.mask(hi - lo) << lo
                want = (refsem.to_unsigned(before[k], w) & ~msk) | ((refsem.to_unsigned(v, hi - lo) << lo) & msk)
                ne = refsem.to_unsigned(after[k], w) != want
            else:
                ne = neq_term(after[k], before[k])
            if ne is True:
                diffs.append(z3.BoolVal(True))
            elif ne is not False:
                diffs.append(bool_term(ne))
        if not diffs:
            continue
        s = z3.Solver()
        for c in p.pc:
            s.add(c)
        s.add(z3.Or(*diffs))
        r = timed_check(s)
        if r == z3.unknown:
            return [dict(base, status=INCONCLUSIVE, detail="solver unknown")]
        if r == z3.sat:
            mdl = s.model()
            crow = [eval_in_model(mdl, x) for x in before]
            cv = eval_in_model(mdl, v)
            # replay on the genuine simulator
            from amaranth.sim import Simulator
            got = []
            with symsim.real_states(), warnings.catch_warnings():
                warnings.simplefilter("ignore")
                m2, mem2, _, _, _ = build(cfg)
                sim2 = Simulator(m2)

                async def tb(ctx):
                    for k_, rv in enumerate(crow):
                        ctx.set(mem2.data[k_], rv)
                    ctx.set(mem2.data[i][lo:hi], cv & ((1 << (hi - lo)) - 1))
                    got.extend(_as_int(ctx.get(mem2.data[k_])) & ((1 << w) - 1) for k_ in range(cfg["depth"]))
                sim2.add_testbench(tb)
                sim2.run()
            want = [x & ((1 << w) - 1) for x in crow]
            msk = ((1 << (hi - lo)) - 1) << lo
            want[i] = (want[i] & ~msk) | (((cv & ((1 << (hi - lo)) - 1)) << lo) & msk)
            if got != want:
                return [dict(base, status=VIOLATION, detail=f"{show(cfg)}: rows {crow}, ctx.set(mem.data[{i}][{lo}:{hi}], {cv}): rows become {got}, expected {want}",
                             signature={"kind": "row-slice-write"}, replay={"cfg": cfg, "initial": True})]
            return [dict(base, status=UNREPRODUCED, detail=f"rows {crow} value {cv}: did not reproduce")]
    return [dict(base, status=PROVED)]


def check_config(job):
    cfg = job["cfg"]
    text = show(cfg)
    base = {"id": job["id"], "program": text, "nontrivial": True}
    try:
        with warnings.catch_warnings():
            warnings.simplefilter("ignore")
            m, mem, wps, rps, doms = build(cfg)
    except (TypeError, ValueError) as ex:
        return [dict(base, kind="unconstructible", status="skipped", detail=f"{type(ex).__name__}: {ex}")]
    try:
        with warnings.catch_warnings():
            warnings.simplefilter("ignore")
            sim = symsim.SymSim(m)
    except Exception as ex:
        # a legal port configuration must simulate: confirm on the unmodified simulator
        from amaranth.sim import Simulator
        try:
            with symsim.real_states():
                Simulator(build(cfg)[0])
            return [dict(base, kind="construction", status=ERROR, detail=f"SymSim raised {type(ex).__name__}: {ex} but Simulator() does not")]
        except Exception as ex2:
            return [dict(base, kind="construction", status=VIOLATION, detail=f"{text}: Simulator(design) raises {type(ex2).__name__}: {ex2}",
                         signature={"kind": "construction", "exception": type(ex2).__name__}, replay={"cfg": cfg, "construct": True})]
    o = Oracle(cfg)
    depth = cfg["depth"]
    out = []
    # declared initial contents (concrete): storage, testbench view and a comb read port at time zero
    sim.reset()
    ms0 = sim.mem_slot(mem.data)
    want0 = expected_initial_rows(cfg)
    got0 = [ms0.data[i] for i in range(depth)]
    tb0 = [sim.engine.get_value(mem.data[i].as_value() if hasattr(mem.data[i], "as_value") else mem.data[i]) for i in range(depth)]
    r0 = dict(base, kind="initial contents", nontrivial=False, assertion="after reset every row holds its declared initial value; rows not given hold the row shape's default")
    if got0 != want0 or tb0 != want0:
        out.append(dict(r0, status=VIOLATION, detail=f"{text}: storage {got0}, testbench view {tb0}, declared {want0}", signature={"kind": "initial"},
                        replay={"cfg": cfg, "initial": True}))
    else:
        out.append(dict(r0, status=PROVED))
    if cfg["shape"][0] and cfg["depth"] and not cfg.get("struct") and cfg.get("array") is None:
        rs = dict(base, kind="initial contents after a simulation", nontrivial=False,
                  assertion="simulating a design changes neither the memory's declared initial contents nor what a reset or a second simulator starts from")
        bad = init_survives(cfg)
        out.append(dict(rs, status=VIOLATION, detail=f"{text}: {bad}", signature={"kind": "initial-after-run"}, replay={"cfg": cfg, "survives": True}) if bad
                   else dict(rs, status=PROVED))
    for event in [[]] + event_sets(cfg):
        kind = "comb-read+row-access" if not event else "edge:" + "+".join(event)
        res = dict(base, kind=kind, status=PROVED, detail="", cex=None,
                   assertion="rows, sync read data and async read data after the event == array-of-rows model")

        rst_vals = {}

        def scenario():
            sim.reset()
            neg = {d_ for d_, k_ in (cfg.get("edge") or {}).items() if k_ == "neg"}
            vars_ = sim.sym_state("v", clocks=[(doms[d_].clk, 1) for d_ in doms if d_ in neg])
            ms = sim.mem_slot(mem.data)
            rows = list(ms.data)
            wins = [(sim.value(p.addr), sim.value(p.data.as_value() if hasattr(p.data, "as_value") else p.data), sim.value(p.en)) for p in wps]
            rins = [(sim.value(p.addr), sim.value(p.en) if cfg["rports"][i]["domain"] != "comb" else 1) for i, p in enumerate(rps)]
            rd = lambda p: sim.value(p.data.as_value() if hasattr(p.data, "as_value") else p.data)
            rdata0 = [rd(p) for p in rps]
            rst_vals.clear()
            rst_vals.update({d_: sim.value(dm.rst) for d_, dm in doms.items() if dm.rst is not None})
            for d_ in event:
                if d_.startswith("!"):
                    sim.poke(doms[d_[1:]].rst, 0)
            sim.settle()
            comb_before = [rd(p) for p in rps]
            if event:
                sim.edge(*[((doms[d].clk, 0 if d in neg else 1) if not d.startswith("!") else (doms[d[1:]].rst, 1)) for d in event])
            rows1 = list(ms.data)
            rdata1 = [rd(p) for p in rps]
            # testbench view of the rows (real eval_value on MemoryData._Row)
            tb_rows = [sim.engine.get_value(mem.data[i].as_value() if hasattr(mem.data[i], "as_value") else mem.data[i]) for i in range(depth)]
            return rows, wins, rins, rdata0, comb_before, rows1, rdata1, tb_rows

        try:
            paths = explore(scenario, max_paths=256)
        except (Inconclusive, Unsupported) as e:
            out.append(dict(res, status=INCONCLUSIVE, detail=str(e)))
            continue
        for p in paths:
            if p.exc is not None:
                res.update(status=ERROR, detail=f"exception on path: {type(p.exc).__name__}: {p.exc}")
                break
            rows, wins, rins, rdata0, comb_before, rows1, rdata1, tb_rows = p.value
            assume = []
            # exclusion: two write ports enabled on the same granule of the same row at the same edge
            for a, b in itertools.combinations(range(len(wps)), 2):
                if cfg["wports"][a]["domain"] in event and cfg["wports"][b]["domain"] in event:
                    ma = wmask(cfg, cfg["wports"][a], wins[a][2])
                    mb = wmask(cfg, cfg["wports"][b], wins[b][2])
                    clash = sym_and(wins[a][0] == wins[b][0], (ma & mb) != 0)
                    assume.append(bool_term(sym_not(clash)))
            # a read port and a write port of different domains colliding at a simultaneous edge: undefined
            if len(event) > 1:
                for qi, q in enumerate(cfg["rports"]):
                    for pi, pw in enumerate(cfg["wports"]):
                        if q["domain"] != "comb" and pw["domain"] != q["domain"]:
                            assume.append(bool_term(sym_not(sym_and(rins[qi][0] == wins[pi][0], wins[pi][2] != 0))))
            want_rows, want_rdata = o.edge(rows, rdata0, wins, rins, {d for d in event if not d.startswith("!")})
            diffs = []
            for i in range(depth):
                for got in (rows1[i], tb_rows[i]):
                    ne = neq_term(got, want_rows[i])
                    if ne is not False:
                        diffs.append(bool_term(ne))
            for qi, q in enumerate(cfg["rports"]):
                addr = rins[qi][0]
                inrange = addr < depth
                if q["domain"] == "comb":
                    ne0 = sym_and(inrange, neq_term(comb_before[qi], o.read(rows, addr)))
                    ne1 = sym_and(inrange, neq_term(rdata1[qi], o.read(want_rows, addr)))
                    for ne in (ne0, ne1):
                        if ne is not False:
                            diffs.append(bool_term(ne))
                else:
                    # reads beyond the depth are unspecified: compare when disabled or in range
                    en = rins[qi][1]
                    ne = sym_and(sym_or(inrange, (en & 1) == 0), neq_term(rdata1[qi], want_rdata[qi]))
                    if ne is not False:
                        diffs.append(bool_term(ne))
            if not diffs:
                continue
            s = z3.Solver()
            s.set("timeout", 180000)
            for c in p.pc:
                s.add(c)
            for a in assume:
                s.add(a)
            s.add(z3.Or(*diffs))
            r = timed_check(s)
            if r == z3.unknown:
                res.update(status=INCONCLUSIVE, detail="solver unknown")
                break
            if r == z3.sat:
                mdl = s.model()
                ev = lambda x: eval_in_model(mdl, x)
                crow = [ev(x) for x in rows]
                cins = {"w": [tuple(ev(x) for x in t) for t in wins], "r": [tuple(ev(x) for x in t) for t in rins],
                        "rst": {d_: (0 if ("!" + d_) in event else ev(v_)) for d_, v_ in rst_vals.items()}}
                crd = [ev(x) for x in rdata0]
                real = concrete_run(cfg, crow, cins, crd, event)
                want = oracle_concrete(cfg, crow, cins, crd, event)
                bad = []
                for i in range(depth):
                    if real["rows"][i] != want["rows"][i]:
                        bad.append(f"row{i}")
                for qi, q in enumerate(cfg["rports"]):
                    a, en = cins["r"][qi]
                    if q["domain"] == "comb":
                        if a < depth and (real["rdata"][qi] != want["rdata"][qi] or real["comb_before"][qi] != want["comb_before"][qi]):
                            bad.append(f"R{qi}.data")
                    elif (a < depth or not (en & 1)) and real["rdata"][qi] != want["rdata"][qi]:
                        bad.append(f"R{qi}.data")
                cex = {"rows": crow, "inputs": cins, "read_data_before": crd, "event": event, "real": real, "model": want}
                if bad:
                    res.update(status=VIOLATION, cex=cex,
                               detail=f"{text}: rows {crow} inputs {cins} rdata {crd} event {event}: simulator {real} != model {want} on {bad}",
                               signature={"kind": kind, "differs": ",".join(bad)},
                               replay={"cfg": cfg, "rows": crow, "ins": cins, "rdata": crd, "event": event})
                else:
                    res.update(status=UNREPRODUCED, cex=cex, detail=f"did not reproduce: rows {crow} inputs {cins} rdata {crd} event {event}")
                break
        out.append(res)
    # direct row write from a testbench
    if depth > 0 and row_width(cfg) > 0:
        res = dict(base, kind="row-write", status=PROVED, detail="", cex=None,
                   assertion="ctx.set(mem.data[i], v) stores v (wrapped to the row shape) in row i and nothing else")
        w, sg = cfg["shape"]
        for i in sorted({0, depth - 1}):
            def scen(i=i):
                sim.reset()
                sim.sym_state("v")
                ms = sim.mem_slot(mem.data)
                rows = list(ms.data)
                v = fresh("wv", w + 2, True)
                sim.settle()
                row = mem.data[i]
                sim.engine.set_value(row.as_value() if hasattr(row, "as_value") else row, v)
                sim.engine.step_design()
                return rows, v, list(ms.data)
            for p in explore(scen, max_paths=64):
                if p.exc is not None:
                    res.update(status=ERROR, detail=f"exception: {type(p.exc).__name__}: {p.exc}")
                    break
                rows, v, rows1 = p.value
                diffs = []
                for j in range(depth):
                    want = refsem.in_shape(v, w, sg) if j == i else rows[j]
                    ne = neq_term(rows1[j], want)
                    if ne is not False:
                        diffs.append(bool_term(ne))
                if diffs:
                    s = z3.Solver()
                    for c in p.pc:
                        s.add(c)
                    s.add(z3.Or(*diffs))
                    r = timed_check(s)
                    if r == z3.sat:
                        mdl = s.model()
                        res.update(status=VIOLATION, detail=f"{text}: ctx.set(mem.data[{i}], {eval_in_model(mdl, v)}) with rows "
                                   f"{[eval_in_model(mdl, x) for x in rows]} -> {[eval_in_model(mdl, x) for x in rows1]}",
                                   signature={"kind": "row-write"})
                    elif r == z3.unknown:
                        res.update(status=INCONCLUSIVE, detail="solver unknown")
        out.append(res)
    return out


def configs(tier, seed):
    r = random.Random(seed)
    out = []
    W = [{"domain": "sync", "gran": None}]
    corner = [
        {"shape": (4, False), "depth": 3, "init": [1, 2, 3], "wports": [{"domain": "sync", "gran": None}],
         "rports": [{"domain": "sync", "transparent": [0]}, {"domain": "sync", "transparent": []}, {"domain": "comb", "transparent": []}]},
        {"shape": (4, False), "depth": 4, "init": [5, 9], "wports": [{"domain": "sync", "gran": 2}],
         "rports": [{"domain": "sync", "transparent": [0]}, {"domain": "comb", "transparent": []}]},
        {"shape": (3, True), "depth": 5, "init": [-1, 2, -4], "wports": [{"domain": "sync", "gran": None}, {"domain": "sync", "gran": None}],
         "rports": [{"domain": "sync", "transparent": [1]}, {"domain": "sync", "transparent": [0, 1]}]},
        {"shape": (2, False), "depth": 1, "init": [3], "wports": [{"domain": "sync", "gran": 1}], "rports": [{"domain": "comb", "transparent": []}]},
        {"shape": (2, False), "depth": 0, "init": [], "wports": [{"domain": "sync", "gran": None}], "rports": [{"domain": "sync", "transparent": []}]},
        {"shape": (0, False), "depth": 2, "init": [], "wports": [{"domain": "sync", "gran": None}], "rports": [{"domain": "sync", "transparent": [0]}]},
        {"shape": (4, False), "depth": 3, "init": [1], "wports": [{"domain": "wr", "gran": None}],
         "rports": [{"domain": "rd", "transparent": []}, {"domain": "comb", "transparent": []}]},
        {"shape": (4, False), "array": (2, 2), "depth": 2, "init": [6, 9], "wports": [{"domain": "sync", "gran": 1}],
         "rports": [{"domain": "sync", "transparent": [0]}]},
        {"shape": (6, False), "array": (2, 3), "depth": 3, "init": [], "wports": [{"domain": "sync", "gran": None}, {"domain": "sync", "gran": 1}],
         "rports": [{"domain": "sync", "transparent": [1]}, {"domain": "comb", "transparent": []}]},
        {"shape": (4, True), "depth": 2, "init": [-8, 7], "wports": [], "rports": [{"domain": "sync", "transparent": []}, {"domain": "comb", "transparent": []}]},
        {"shape": (3, False), "depth": 3, "init": [], "wports": [{"domain": "sync", "gran": 1}, {"domain": "sync", "gran": 3}], "rports": []},
    ]
    corner += [{"shape": (4, False), "struct": True, "depth": 4, "init": [0b0110], "wports": [{"domain": "sync", "gran": None}],
                "rports": [{"domain": "sync", "transparent": [0]}, {"domain": "comb", "transparent": []}]},
               {"shape": (4, False), "struct": True, "depth": 2, "init": [], "wports": [], "rports": [{"domain": "comb", "transparent": []}]}]
    # the same write port named twice in a transparency set (a tuple, not a set, in the API)
    corner += [{"shape": (4, False), "depth": 3, "init": [1, 2, 3], "wports": [{"domain": "sync", "gran": None}, {"domain": "sync", "gran": None}],
                "rports": [{"domain": "sync", "transparent": [0, 0]}, {"domain": "sync", "transparent": [1, 0, 1]}]}]
    corner += [dict(corner[0], edge={"sync": "neg"}), dict(corner[6], edge={"rd": "neg"}), dict(corner[2], edge={"sync": "neg"}, reset={"sync": "async"})]
    corner += [dict(corner[0], reset={"sync": "sync"}), dict(corner[0], reset={"sync": "async"}), dict(corner[2], reset={"sync": "async"}),
               dict(corner[6], reset={"wr": "async", "rd": "sync"}), dict(corner[1], reset={"sync": "async"})]
    out.extend(corner)
    n = 110 if tier == "quick" else 2500
    for _ in range(n):
        w = r.randint(0, 4)
        sg = w > 0 and r.random() < 0.3
        arr = None
        if not sg and w in (2, 4) and r.random() < 0.2:
            arr = (w // 2, 2)
        depth = r.randint(0, 5)
        lo, hi = (-(1 << (w - 1)), (1 << (w - 1)) - 1) if sg else (0, (1 << w) - 1)
        init = [r.randint(lo, hi) for _ in range(r.randint(0, depth))]
        doms = ["sync"] if r.random() < 0.7 else ["sync", "b"]
        wports = []
        for _ in range(r.choice([0, 1, 1, 2, 2, 3])):
            gran = None
            if not sg and w > 0 and r.random() < 0.5:
                if arr is not None:
                    gran = r.choice([1, 2])
                else:
                    gran = r.choice([g for g in range(1, w + 1) if w % g == 0])
            wports.append({"domain": r.choice(doms), "gran": gran})
        rports = []
        for _ in range(r.randint(0, 2)):
            d = r.choice(doms + ["comb"])
            tr = [i for i, p in enumerate(wports) if p["domain"] == d and r.random() < 0.5] if d != "comb" else []
            if tr and r.random() < 0.15:
                tr = tr + [tr[0]]
            rports.append({"domain": d, "transparent": tr})
        cfg = {"shape": (w, sg), "depth": depth, "init": init, "wports": wports, "rports": rports}
        if r.random() < 0.3:
            cfg["reset"] = {d: r.choice(["sync", "async"]) for d in doms if r.random() < 0.8}
        if r.random() < 0.25:
            cfg["edge"] = {d: "neg" for d in doms if r.random() < 0.7}
        if arr is not None:
            cfg["array"] = arr
        out.append(cfg)
    return out


def replay(path):
    import json
    with open(path) as f:
        d = json.load(f)
    r = d["replay"]
    cfg = r["cfg"]
    cfg["shape"] = tuple(cfg["shape"])
    if r.get("hstate"):
        from vlib import hstate_proof
        return hstate_proof.replay(r)
    if r.get("initial"):
        with symsim.real_states():
            from amaranth.sim import Simulator
            m_, mem_, _, _, _ = build(cfg)
            sim_ = Simulator(m_)
            got = []

            async def tb(ctx):
                for i in range(cfg["depth"]):
                    got.append(_as_int(ctx.get(mem_.data[i])))
            sim_.add_testbench(tb)
            sim_.run()
        want = [v & ((1 << cfg["shape"][0]) - 1) for v in expected_initial_rows(cfg)]
        got = [v & ((1 << cfg["shape"][0]) - 1) if isinstance(v, int) else v for v in got]
        print(show(cfg), "rows at time zero", got, "declared", want)
        return 1 if got != want else 0
    if r.get("survives"):
        bad = init_survives(cfg)
        print(show(cfg), bad or "declaration intact")
        return 1 if bad else 0
    if r.get("construct"):
        from amaranth.sim import Simulator
        try:
            with symsim.real_states():
                Simulator(build(cfg)[0])
        except Exception as ex:
            print(f"{show(cfg)}: Simulator(design) raises {type(ex).__name__}: {ex}")
            return 1
        print("constructs fine")
        return 0
    ins = {"w": [tuple(t) for t in r["ins"]["w"]], "r": [tuple(t) for t in r["ins"]["r"]], "rst": r["ins"].get("rst", {})}
    real = concrete_run(cfg, r["rows"], ins, r["rdata"], r["event"])
    want = oracle_concrete(cfg, r["rows"], ins, r["rdata"], r["event"])
    print(show(cfg))
    print("rows", r["rows"], "inputs", ins, "read data", r["rdata"], "event", r["event"])
    print("simulator:", real)
    print("model:    ", want)
    return 1 if real["rows"] != want["rows"] else 0


def twin_checks(rep):
    # mutation twin: an oracle that ignores transparency must be refuted on a transparent configuration
    cfg = {"shape": (4, False), "depth": 2, "init": [], "wports": [{"domain": "sync", "gran": None}],
           "rports": [{"domain": "sync", "transparent": [0]}]}
    cfg2 = dict(cfg, rports=[{"domain": "sync", "transparent": []}])
    m, mem, wps, rps, doms = build(cfg)
    sim = symsim.SymSim(m)
    o = Oracle(cfg2)

    def scen():
        sim.reset()
        sim.sym_state("v")
        ms = sim.mem_slot(mem.data)
        rows = list(ms.data)
        wins = [(sim.value(p.addr), sim.value(p.data), sim.value(p.en)) for p in wps]
        rins = [(sim.value(p.addr), sim.value(p.en)) for p in rps]
        rd0 = [sim.value(p.data) for p in rps]
        sim.settle()
        sim.edge((doms["sync"].clk, 1))
        return sim.value(rps[0].data), o.edge(rows, rd0, wins, rins, {"sync"})[1][0]
    p, = explore(scen)
    got, want = p.value
    s = z3.Solver()
    s.add(bool_term(neq_term(got, want)))
    rep.twin("mutation: model without transparency must be refuted on a transparent port", s.check() == z3.sat)


def main(tier, seed):
    rep = run.Report("C11", "other", tier, seed)
    from vlib.pysym.selfcheck import selfcheck
    rep.extra["pysym_selfcheck_comparisons"] = selfcheck(seed)
    cfgs = configs(tier, seed)
    jobs = [{"id": f"cfg-{i:05d}", "cfg": c, "rtlil": (tier != "quick" or i % 3 == 0 or i < 20)} for i, c in enumerate(cfgs)]
    results, stats = run.run_jobs(check_config_and_rtlil, jobs, chunksize=2)
    skipped = [r for r in results if r.get("status") == "skipped"]
    results = [r for r in results if r.get("status") != "skipped"]
    rep.extra["unconstructible_programs_skipped"] = len(skipped)
    rep.extra["unconstructible_samples"] = [r["detail"] for r in skipped[:5]]
    rep.add(results, stats)
    from vlib import hstate_proof
    hjobs = [{"id": f"hstate-{i}", "spec": s} for i, s in enumerate(hstate_proof.all_obligations(tier))]
    hres, hstats = run.run_jobs(hstate_proof.run_one, hjobs)
    rep.add(hres, hstats)
    twin_checks(rep)
    rep.source_files = FILES
    rep.functions = ["amaranth.lib.memory.Memory.{read_port,write_port,elaborate}", "amaranth.hdl._mem.MemoryInstance", "amaranth.hdl._mem.MemoryData._Row",
                     "amaranth.sim._pyrtl._FragmentCompiler.__call__ (memory bodies: write queue, transparency patch-up)",
                     "amaranth.sim.pysim._PyMemoryState (via HMemoryState, proved equivalent)", "amaranth.sim._pyeval.eval_value/_eval_assign_inner (row access)",
                     "amaranth.sim.pysim.PySimEngine.step_design"]
    rep.bounds = {"configurations": len(cfgs), "depth": "0..5", "row_width": "0..4 (signed, unsigned, ArrayLayout with granularity)",
                  "ports": "0..2 write x 0..3 read, comb/sync, 1..2 domains, any transparency subset",
                  "events": "each clock's edge alone, both together",
                  "outside": "EnableInserter / ResetInserter wrappers around a memory (C03), depth > 5, rows wider than 8 bits"}
    rep.stubs = ["HSignalState", "HMemoryState (read = ite chain, write queue list, commit per row)", "compile recorder", "if-converting interpreter"]
    rep.assumptions = ["two write ports never enable the same granule of the same row at the same edge",
                       "at a simultaneous edge of two clocks a read port and a write port of different domains do not collide (documented undefined)",
                       "clock domains are reset-less for the array-model obligations"]
    rep.rule = "corner configurations plus seeded random port configurations; one obligation per (configuration, event kind)"
    rep.explanation = ("The real Memory component is elaborated, the real simulator code for its ports is executed on symbolic rows/"
                       "addresses/data/enables, and z3 decides equality with an array-of-rows model for all values.")
    return rep.finish()
