"""C13 - asynchronous FIFOs are safe under every interleaving of their clocks.

Bounded model checking with a SYMBOLIC schedule: the transition functions of the real AsyncFIFO /
AsyncFIFOBuffered for {write-clock edge, read-clock edge, both} are extracted from the compiled
simulator code (from a fully symbolic state) and unrolled in z3 from the initial state; at every step
a 2-bit choice selects the event and w_en / w_data / r_en are free."""
import warnings

import z3

from vlib import run, symsim
from vlib.ts import TransitionSystem
from vlib.run import PROVED, VIOLATION, INCONCLUSIVE, ERROR, UNREPRODUCED
from vlib.pysym import timed_check

from amaranth.hdl import Module, ClockDomain, Cat
from amaranth.lib.fifo import AsyncFIFO, AsyncFIFOBuffered

FILES = ["amaranth/lib/fifo.py", "amaranth/lib/cdc.py", "amaranth/lib/memory.py", "amaranth/sim/_pyrtl.py"]


def build(kind, width, depth):
    top = Module()
    dw, dr = ClockDomain("write"), ClockDomain("read")
    top.domains += [dw, dr]
    f = (AsyncFIFO if kind == "AsyncFIFO" else AsyncFIFOBuffered)(width=width, depth=depth)
    top.submodules.fifo = f
    return top, f, dw, dr


def bmc(job):
    kind, width, depth, K = job["kind"], job["width"], job["depth"], job["K"]
    text = f"{kind}(width={width}, depth={depth}): {K} symbolic steps over {{w-edge, r-edge, both}} + drain"
    base = {"id": job["id"], "program": text, "nontrivial": True, "kind": "bmc-safety",
            "symbolic": f"schedule ({K} x 3), w_en, w_data, r_en at every step, watched entry index",
            "assertion": "r_rdy only when an entry is held and r_data then is the oldest unread entry (watched index), w_rdy never while depth entries are held, "
                         "levels within 0..depth; after writing stops and both clocks keep running every entry is read"}
    top, f, dw, dr = build(kind, width, depth)
    with warnings.catch_warnings():
        warnings.simplefilter("ignore")
        sim = symsim.SymSim(top)
    d_eff = f.depth
    ts = TransitionSystem(sim, {"w": [dw.clk], "r": [dr.clk], "both": [dw.clk, dr.clk]},
                          observe=[f.w_rdy, f.r_rdy, f.r_data, f.w_level, f.r_level],
                          inputs=[f.w_en, f.w_data, f.r_en], concrete=[dw.rst, dr.rst])
    order = ["w", "r", "both"]
    st = ts.initial_state()
    CW = 8
    wr, rd = z3.BitVecVal(0, CW), z3.BitVecVal(0, CW)
    watch = z3.BitVec("watch", CW)
    latched = z3.BitVecVal(0, max(width, 1))
    props = []
    choices, inputs_seq = [], []
    D = 2 * d_eff + 12
    lw = len(f.w_level)
    for t in range(K + D):
        ins = ts.fresh_inputs(t)
        for k in list(ins):
            if k.endswith("rst"):
                ins[k] = z3.BitVecVal(0, 1)
        if t < K:
            ch = z3.BitVec(f"choice{t}", 2)
        else:
            ch = z3.BitVecVal(2, 2)
            ins["x_w_en"] = z3.BitVecVal(0, 1)
            ins["x_r_en"] = z3.BitVecVal(1, 1)
        choices.append(ch)
        inputs_seq.append(ins)
        w_rdy = ts.observe("w_rdy", st, ins) == 1
        r_rdy = ts.observe("r_rdy", st, ins) == 1
        r_data = ts.observe("r_data", st, ins) if width else z3.BitVecVal(0, 1)
        held = wr - rd
        props.append(z3.Implies(r_rdy, z3.UGT(held, 0)))
        props.append(z3.Implies(w_rdy, z3.ULT(held, d_eff)))
        props.append(z3.ULE(z3.ZeroExt(CW - lw, ts.observe("w_level", st, ins)), d_eff) if lw < CW else z3.BoolVal(True))
        props.append(z3.ULE(z3.ZeroExt(CW - lw, ts.observe("r_level", st, ins)), d_eff) if lw < CW else z3.BoolVal(True))
        w_edge = z3.Or(ch == 0, ch == 2)
        r_edge = z3.Or(ch == 1, ch == 2)
        do_w = z3.And(w_edge, ins["x_w_en"] == 1, w_rdy)
        do_r = z3.And(r_edge, ins["x_r_en"] == 1, r_rdy)
        if width:
            latched = z3.If(z3.And(do_w, wr == watch), ins["x_w_data"], latched)
            props.append(z3.Implies(z3.And(do_r, rd == watch), r_data == latched))
        wr = z3.If(do_w, wr + 1, wr)
        rd = z3.If(do_r, rd + 1, rd)
        st = ts.step(st, ins, z3.If(z3.ULE(ch, 2), ch, z3.BitVecVal(2, 2)), order)
    props.append(wr == rd)          # bounded liveness after the drain window
    s = z3.Solver()
    s.set("timeout", job.get("timeout_ms", 900000))
    for c in choices[:K]:
        s.add(z3.ULE(c, 2))
    s.add(z3.Not(z3.And(*props)))
    c = timed_check(s)
    if c == z3.unsat:
        # reachability twin: the bound must reach a full FIFO and a wrap of the pointers
        s2 = z3.Solver()
        s2.set("timeout", 120000)
        st2 = ts.initial_state()
        full_seen = z3.BoolVal(False)
        wr2 = z3.BitVecVal(0, CW)
        for t in range(K):
            ins = inputs_seq[t]
            w_rdy = ts.observe("w_rdy", st2, ins) == 1
            do_w = z3.And(z3.Or(choices[t] == 0, choices[t] == 2), ins["x_w_en"] == 1, w_rdy)
            wr2 = z3.If(do_w, wr2 + 1, wr2)
            full_seen = z3.Or(full_seen, z3.And(z3.Not(w_rdy), wr2 == d_eff))
            st2 = ts.step(st2, ins, choices[t], order)
        for cc in choices[:K]:
            s2.add(z3.ULE(cc, 2))
        s2.add(full_seen)
        reach = timed_check(s2) == z3.sat
        return [dict(base, status=PROVED), dict(base, id=job["id"] + "-reach", kind="twin: bound reaches a full FIFO", nontrivial=False,
                                                status=PROVED if (reach or K < 2 * d_eff + 4) else ERROR, detail=f"full reachable within the bound: {reach}")]
    if c == z3.unknown:
        return [dict(base, status=INCONCLUSIVE, detail="solver unknown / timeout")]
    m = s.model()
    sched = [m.eval(x, model_completion=True).as_long() for x in choices]
    ins_c = [{k: m.eval(v, model_completion=True).as_long() for k, v in ins.items()} for ins in inputs_seq]
    rep = concrete_run(kind, width, depth, sched, ins_c)
    if rep["violated"]:
        return [dict(base, status=VIOLATION, detail=f"{text}: schedule {sched}: {rep['what']}", cex={"schedule": sched, "inputs": ins_c},
                     signature={"kind": "bmc", "fifo": kind}, replay={"kind": kind, "width": width, "depth": depth, "sched": sched, "ins": ins_c})]
    return [dict(base, status=UNREPRODUCED, detail=f"schedule {sched} did not reproduce on the real simulator")]


def concrete_run(kind, width, depth, sched, ins):
    """Real simulator against a Python list queue."""
    from amaranth.sim import Simulator
    with symsim.real_states():
        top, f, dw, dr = build(kind, width, depth)
        sim = Simulator(top)
        log = {"violated": False, "what": ""}

        async def tb(ctx):
            q = []
            for t, (ch, iv) in enumerate(zip(sched, ins)):
                ctx.set(f.w_en, iv.get("x_w_en", 0))
                if width:
                    ctx.set(f.w_data, iv.get("x_w_data", 0))
                ctx.set(f.r_en, iv.get("x_r_en", 0))
                w_rdy, r_rdy, r_data = ctx.get(f.w_rdy), ctx.get(f.r_rdy), ctx.get(f.r_data)
                problems = []
                if r_rdy and not q:
                    problems.append("r_rdy with nothing held")
                if r_rdy and q and width and r_data != q[0]:
                    problems.append(f"r_data {r_data} != oldest {q[0]}")
                if w_rdy and len(q) >= f.depth:
                    problems.append("w_rdy while depth entries are held")
                if ctx.get(f.w_level) > f.depth or ctx.get(f.r_level) > f.depth:
                    problems.append("level above depth")
                if problems and not log["violated"]:
                    log["violated"], log["what"] = True, f"step {t}: " + "; ".join(problems) + f" (queue {q})"
                ch = min(ch, 2)
                if ch in (0, 2) and iv.get("x_w_en", 0) and w_rdy:
                    q.append(iv.get("x_w_data", 0))
                if ch in (1, 2) and iv.get("x_r_en", 0) and r_rdy:
                    if q:
                        q.pop(0)
                clks = {0: [dw.clk], 1: [dr.clk], 2: [dw.clk, dr.clk]}[ch]
                ctx.set(Cat(*clks), (1 << len(clks)) - 1)
                ctx.set(Cat(*clks), 0)
            if q and not log["violated"]:
                log["violated"], log["what"] = True, f"entries {q} still unread after the drain window"
        sim.add_testbench(tb)
        sim.run()
    return log


def validate_ts(kind, width, depth, steps, seed):
    """Translator validation: the extracted transition system and the real simulator, same random trace."""
    import random
    from amaranth.sim import Simulator
    r = random.Random(seed)
    top, f, dw, dr = build(kind, width, depth)
    with warnings.catch_warnings():
        warnings.simplefilter("ignore")
        sim = symsim.SymSim(top)
    ts = TransitionSystem(sim, {"w": [dw.clk], "r": [dr.clk], "both": [dw.clk, dr.clk]},
                          observe=[f.w_rdy, f.r_rdy, f.r_data, f.w_level, f.r_level],
                          inputs=[f.w_en, f.w_data, f.r_en], concrete=[dw.rst, dr.rst])
    trace = [(r.choice([0, 1, 2]), r.randint(0, 1), r.randint(0, (1 << width) - 1) if width else 0, r.randint(0, 1)) for _ in range(steps)]
    st = ts.initial_state()
    model = []
    for (ch, we, wd, re_) in trace:
        ins = {"x_w_en": z3.BitVecVal(we, 1), "x_r_en": z3.BitVecVal(re_, 1)}
        if width:
            ins["x_w_data"] = z3.BitVecVal(wd, width)
        obs = []
        for n in ("w_rdy", "r_rdy", "r_data", "w_level", "r_level"):
            if ts.obs.get(n) is None:
                obs.append(0)
                continue
            v = z3.simplify(ts.observe(n, st, ins))
            obs.append(v.as_long() if z3.is_bv_value(v) else None)
        model.append(obs)
        st = {k: z3.simplify(v) for k, v in ts.step(st, ins, ch, ["w", "r", "both"]).items()}
    real = []
    with symsim.real_states():
        top2, f2, dw2, dr2 = build(kind, width, depth)
        rs = Simulator(top2)

        async def tb(ctx):
            for (ch, we, wd, re_) in trace:
                ctx.set(f2.w_en, we)
                if width:
                    ctx.set(f2.w_data, wd)
                ctx.set(f2.r_en, re_)
                real.append([ctx.get(f2.w_rdy), ctx.get(f2.r_rdy), ctx.get(f2.r_data), ctx.get(f2.w_level), ctx.get(f2.r_level)])
                clks = {0: [dw2.clk], 1: [dr2.clk], 2: [dw2.clk, dr2.clk]}[ch]
                ctx.set(Cat(*clks), (1 << len(clks)) - 1)
                ctx.set(Cat(*clks), 0)
        rs.add_testbench(tb)
        rs.run()
    return model == real, (model, real)


def elaborates(job):
    """Every constructible depth elaborates, and the documented rounding holds (concrete)."""
    out = []
    bad = []
    for kind in ("AsyncFIFO", "AsyncFIFOBuffered"):
        cls = AsyncFIFO if kind == "AsyncFIFO" else AsyncFIFOBuffered
        for depth in range(0, 19):
            try:
                f = cls(width=3, depth=depth)
                want = 0 if depth == 0 else ((1 << (depth - 1).bit_length()) if kind == "AsyncFIFO" else (1 << max(depth - 2, 0).bit_length() if depth > 2 else 1) + 1)
                if kind == "AsyncFIFOBuffered" and depth in (1, 2):
                    want = 2
                if f.depth < depth or (kind == "AsyncFIFO" and f.depth != want):
                    bad.append(f"{kind}(depth={depth}).depth == {f.depth}")
                top, f2, dw, dr = build(kind, 3, depth)
                with warnings.catch_warnings():
                    warnings.simplefilter("ignore")
                    from amaranth.hdl import Fragment
                    Fragment.get(top, None).prepare()
                    with symsim.real_states():
                        from amaranth.sim import Simulator
                        Simulator(top)
            except Exception as e:
                bad.append(f"{kind}(depth={depth}): {type(e).__name__}: {e}")
            exact_ok = (depth == 0) or ((depth & (depth - 1)) == 0 if kind == "AsyncFIFO" else (depth >= 2 and ((depth - 1) & (depth - 2)) == 0))
            try:
                cls(width=1, depth=depth, exact_depth=True)
                raised = False
            except ValueError:
                raised = True
            if raised == exact_ok and not (kind == "AsyncFIFOBuffered" and depth == 1):
                bad.append(f"{kind}(depth={depth}, exact_depth=True) raised={raised}")
    r = {"id": "elaborates", "kind": "every depth elaborates", "program": "AsyncFIFO / AsyncFIFOBuffered depth 0..18", "nontrivial": False,
         "assertion": "construction, depth rounding (never below the request), exact_depth errors, elaboration and simulator construction"}
    if bad:
        return [dict(r, status=VIOLATION, detail="; ".join(bad[:6]), signature={"kind": "elaborate"}, replay={"elaborate": True})]
    return [dict(r, status=PROVED)]


def job_fn(job):
    return elaborates(job) if job["what"] == "elab" else bmc(job)


def replay(path):
    import json
    with open(path) as f:
        d = json.load(f)
    r = d["replay"]
    if r.get("elaborate"):
        x = elaborates({})[0]
        print(x.get("detail"))
        return 1 if x["status"] == VIOLATION else 0
    log = concrete_run(r["kind"], r["width"], r["depth"], r["sched"], r["ins"])
    print(log)
    return 1 if log["violated"] else 0


def main(tier, seed):
    rep = run.Report("C13", "model_checking", tier, seed)
    from vlib.pysym.selfcheck import selfcheck
    rep.extra["pysym_selfcheck_comparisons"] = selfcheck(seed)
    if tier == "quick":
        cfgs = [("AsyncFIFO", 1, 2, 10), ("AsyncFIFO", 2, 4, 9), ("AsyncFIFOBuffered", 1, 3, 9), ("AsyncFIFO", 0, 2, 8), ("AsyncFIFO", 1, 1, 8)]
    else:
        cfgs = [("AsyncFIFO", 1, 2, 16), ("AsyncFIFO", 2, 2, 14), ("AsyncFIFO", 2, 4, 13), ("AsyncFIFOBuffered", 1, 3, 13), ("AsyncFIFOBuffered", 2, 5, 11),
                ("AsyncFIFO", 0, 2, 12), ("AsyncFIFO", 1, 1, 12), ("AsyncFIFOBuffered", 1, 2, 12),
                # deeper unrollings and deeper queues (each a few minutes of z3)
                ("AsyncFIFO", 1, 2, 22), ("AsyncFIFO", 2, 4, 18), ("AsyncFIFO", 1, 8, 18), ("AsyncFIFOBuffered", 1, 5, 16), ("AsyncFIFOBuffered", 2, 3, 18),
                ("AsyncFIFO", 3, 4, 14)]
    jobs = [{"id": f"bmc-{k}-w{w}-d{d}-K{K}", "what": "bmc", "kind": k, "width": w, "depth": d, "K": K} for (k, w, d, K) in cfgs]
    jobs.append({"id": "elab", "what": "elab"})
    results, stats = run.run_jobs(job_fn, jobs)
    rep.add(results, stats)
    ok = any(r["kind"].startswith("twin") and r["status"] == PROVED for r in results)
    rep.twin("reachability: the unrolling reaches a full FIFO", ok)
    for (k, w, d) in (("AsyncFIFO", 2, 4), ("AsyncFIFOBuffered", 1, 3), ("AsyncFIFO", 1, 1)):
        try:
            same, (mo, re_) = validate_ts(k, w, d, 60, seed)
        except Exception as e:       # (a design that does not elaborate is reported by the obligations above)
            rep.twin(f"translator validation ({k} {w}x{d})", False, f"{type(e).__name__}: {e}")
            continue
        first = next((i for i, (a, b) in enumerate(zip(mo, re_)) if a != b), None)
        rep.twin(f"translator validation: extracted transition system == real simulator on a 60-step random trace ({k} {w}x{d})", same,
                 "" if same else f"first difference at step {first}: model {mo[first]} real {re_[first]}")
    rep.extra.update({"states": len(jobs), "transitions": sum(1 for r in results if r["status"] == PROVED), "traces_validated_against_impl": 0})
    rep.source_files = FILES
    rep.functions = ["amaranth.lib.fifo.AsyncFIFO.__init__/elaborate", "amaranth.lib.fifo.AsyncFIFOBuffered.__init__/elaborate", "amaranth.lib.fifo._gray_encode/_gray_decode",
                     "amaranth.lib.cdc.FFSynchronizer / AsyncFFSynchronizer", "amaranth.lib.memory.Memory", "amaranth.sim._pyrtl compiled processes"]
    rep.bounds = {"configurations": [f"{k} width {w} depth {d}: K={K}" for (k, w, d, K) in cfgs], "drain": "2*depth+12 steps with both clocks",
                  "elaboration": "depths 0..18 concretely", "outside": "longer schedules, deeper FIFOs; an inductive Gray-code invariant is not claimed; "
                  "resets asserted after time 0"}
    rep.stubs = ["HSignalState", "HMemoryState", "compile recorder", "if-converting interpreter", "vlib.ts unrolling by substitution"]
    rep.assumptions = ["domain resets de-asserted (the FIFO's own start-up reset synchroniser runs from its initial state)",
                       "coverage.states counts configurations, transitions counts discharged obligations"]
    rep.rule = "one BMC obligation per configuration: all schedules, strobes and data within K steps"
    rep.explanation = ("Transition functions of the real async FIFO for each clock-event kind come from symbolic execution of the compiled simulator code; "
                       "z3 checks the queue monitor over all schedules/strobes/data within the bound, then a drain window for liveness.")
    return rep.finish()
