#!/bin/sh
# Builds the overlay venv /verif/.venv (offline, from the wheelhouse). Idempotent.
set -e
cd "$(dirname "$0")"
V=.venv
if [ ! -x $V/bin/python ] || ! $V/bin/python -c "import z3, cvc5, jsonschema" 2>/dev/null; then
    rm -rf $V
    /venv/bin/python -m venv $V
    SP=$($V/bin/python -c "import site; print(site.getsitepackages()[0])")
    printf '/venv/lib/python3.12/site-packages\n' > "$SP/verif_overlay.pth"
    PIP_NO_INDEX=1 $V/bin/pip install -q --no-index --find-links /opt/veriftools/wheels z3-solver cvc5 jsonschema >/dev/null
fi
$V/bin/python -c "import z3, cvc5, jsonschema; print('verif venv ok: z3', z3.get_version_string())"
