"""Driver shared by all checks: parallel obligations, verdict ledger, replay files, known findings,
evidence, exit codes (0 held / 1 violation / 3 harness error or too many inconclusive)."""
import hashlib
import json
import multiprocessing as mp
import os
import re
import sys
import time
import traceback

VERIF = os.path.dirname(os.path.dirname(os.path.abspath(__file__)))
REPO = os.environ.get("VERIF_REPO", "/repo")
# evidence and replay files normally live in /verif; tools that run a check against a patched copy of the repository
# (tools/try_mutant.sh) send them elsewhere so that the committed evidence always comes from the unchanged tree
OUT = os.environ.get("VERIF_OUT", VERIF)

PROVED, VIOLATION, INCONCLUSIVE, ERROR, UNREPRODUCED = "proved", "violation", "inconclusive", "error", "unreproduced"


class Result(dict):
    """One obligation's outcome.
    keys: id, kind, program (text), status, nontrivial (bool), detail, cex (dict), signature (dict),
          stats {solver_queries, solver_s, paths}, twin (bool: mutation/reachability twin outcome ok)"""


def source_hashes(files):
    out = {}
    for f in files:
        p = os.path.join(REPO, f)
        try:
            with open(p, "rb") as fh:
                out[f] = hashlib.sha256(fh.read()).hexdigest()[:16]
        except OSError:
            out[f] = "missing"
    return out


def _worker(args):
    fn, job = args
    t0 = time.perf_counter()
    try:
        from vlib.pysym import GLOBAL_STATS
        q0 = GLOBAL_STATS.snapshot()
        res = fn(job)
        q1 = GLOBAL_STATS.snapshot()
        if isinstance(res, dict):
            res = [res]
        for r in res:
            r.setdefault("job", job.get("id") if isinstance(job, dict) else str(job))
        stats = {"solver_queries": q1[0] - q0[0], "solver_s": q1[1] - q0[1], "paths": q1[2] - q0[2],
                 "wall_s": time.perf_counter() - t0}
        return res, stats
    except BaseException as e:  # noqa
        if isinstance(e, KeyboardInterrupt):
            raise
        name = type(e).__name__
        status = INCONCLUSIVE if name in ("Inconclusive", "Unsupported") else ERROR
        return ([{"id": str(job.get("id") if isinstance(job, dict) else job), "kind": "job", "status": status,
                  "detail": f"{name}: {e}\n" + traceback.format_exc()[-1500:],
                  "program": job.get("program", "") if isinstance(job, dict) else ""}],
                {"solver_queries": 0, "solver_s": 0.0, "paths": 0, "wall_s": time.perf_counter() - t0})


def run_jobs(fn, jobs, workers=None, chunksize=1, progress=None):
    """Run fn(job) for all jobs in a fork pool. Returns (results, stats)."""
    workers = workers or int(os.environ.get("VERIF_WORKERS", "0")) or min(16, os.cpu_count() or 1)
    results = []
    total = {"solver_queries": 0, "solver_s": 0.0, "paths": 0, "cpu_s": 0.0}
    if workers <= 1 or len(jobs) <= 1:
        it = map(_worker, [(fn, j) for j in jobs])
        pool = None
    else:
        ctx = mp.get_context("fork")
        pool = ctx.Pool(workers, maxtasksperchild=200)
        it = pool.imap_unordered(_worker, [(fn, j) for j in jobs], chunksize=chunksize)
    try:
        n = 0
        for res, st in it:
            results.extend(res)
            total["solver_queries"] += st["solver_queries"]
            total["solver_s"] += st["solver_s"]
            total["paths"] += st["paths"]
            total["cpu_s"] += st["wall_s"]
            n += 1
            if progress and n % progress == 0:
                print(f"  .. {n}/{len(jobs)} jobs", file=sys.stderr, flush=True)
    finally:
        if pool is not None:
            pool.terminate()
            pool.join()
    results.sort(key=lambda r: str(r.get("id")))
    return results, total


def load_known_findings():
    p = os.path.join(VERIF, "known_findings.json")
    try:
        with open(p) as f:
            return json.load(f)
    except OSError:
        return {"findings": [], "fixed": []}


def match_known(pid, result, known):
    sig = result.get("signature") or {}
    for kf in known.get("findings", []):
        if kf.get("property") != pid:
            continue
        ok = True
        for k, pat in kf.get("match", {}).items():
            v = sig.get(k)
            if v is None or not re.fullmatch(pat, str(v)):
                ok = False
                break
        if ok:
            return kf
    return None


def stable_hash(text):
    """A hash of a string that does not change between interpreter runs (str.__hash__ is salted per process)."""
    import zlib
    return zlib.crc32(str(text).encode())


class Report:
    def __init__(self, pid, level, tier, seed, design_ref=""):
        self.pid, self.level, self.tier, self.seed = pid, level, tier, seed
        self.t0 = time.time()
        self.results = []
        self.stats = {"solver_queries": 0, "solver_s": 0.0, "paths": 0, "cpu_s": 0.0}
        self.functions = []
        self.source_files = []
        self.bounds = {}
        self.stubs = []
        self.assumptions = []
        self.twins = []
        self.extra = {}
        self.explanation = ""
        self.rule = ""
        self.harness_errors = []
        self.exhaustive = False
        self.programs = set()

    def add(self, results, stats=None):
        self.results.extend(results)
        if stats:
            for k in self.stats:
                self.stats[k] += stats.get(k, 0)

    def twin(self, name, ok, detail=""):
        self.twins.append({"name": name, "ok": bool(ok), "detail": detail})
        if not ok:
            self.harness_errors.append(f"twin {name} failed: {detail}")

    def finish(self):
        pid = self.pid
        known = load_known_findings()
        viol, incon, errs, proved, unrep = [], [], [], [], []
        for r in self.results:
            s = r.get("status")
            (proved if s == PROVED else viol if s == VIOLATION else incon if s == INCONCLUSIVE
             else unrep if s == UNREPRODUCED else errs).append(r)
        lines = []
        new_viol = []
        known_hit = {}
        rdir = os.path.join(OUT, "replays", pid)
        os.makedirs(rdir, exist_ok=True)
        for old in os.listdir(rdir):
            if old.endswith(".json"):
                os.unlink(os.path.join(rdir, old))
        for i, r in enumerate(viol):
            kf = match_known(pid, r, known)
            if kf is not None:
                known_hit.setdefault(kf["id"], []).append(r)
                continue
            path = os.path.join(OUT, "replays", pid, f"{pid}_{len(new_viol):03d}.json")
            with open(path, "w") as f:
                json.dump({"property": pid, "id": r.get("id"), "kind": r.get("kind"), "program": r.get("program"),
                           "cex": r.get("cex"), "detail": r.get("detail"), "signature": r.get("signature"),
                           "replay": r.get("replay")}, f, indent=1, default=str)
            new_viol.append((r, path))
        for kid, rs in known_hit.items():
            kf = next(k for k in known["findings"] if k["id"] == kid)
            lines.append(f"KNOWN-FINDING: property={pid} {kid}: {kf.get('description', '')} "
                         f"({len(rs)} reproducing obligation(s) this run)")
        for r, path in new_viol[:50]:
            lines.append(f"VIOLATION property={pid} replay={path}")
        n_obl = len(self.results)
        n_dis = len(proved)
        nontrivial = {(r.get("program"), r.get("kind")) for r in self.results
                      if r.get("nontrivial") and r.get("status") in (PROVED, VIOLATION)}
        programs = {r.get("program") for r in self.results if r.get("program")} | self.programs
        for e in errs[:10]:
            self.harness_errors.append(f"obligation {e.get('id')}: {str(e.get('detail'))[:600]}")
        for e in unrep[:10]:
            self.harness_errors.append(f"counterexample did not reproduce on the real code: {e.get('id')}: "
                                       f"{str(e.get('detail'))[:600]}")
        too_many_incon = n_obl > 0 and len(incon) > max(1, n_obl // 50)
        if too_many_incon:
            self.harness_errors.append(f"{len(incon)} of {n_obl} obligations inconclusive")
        samples = []
        for r in (proved[:2] + viol[:1] + incon[:1])[:3] or self.results[:3]:
            samples.append({"id": r.get("id"), "kind": r.get("kind"), "program": r.get("program"),
                            "symbolic": r.get("symbolic"), "assertion": r.get("assertion"),
                            "verdict": r.get("status")})
        cov = {
            "evaluations": n_obl,
            "distinct_nontrivial": len(nontrivial),
            "rule": self.rule,
            "samples": samples,
            "obligations": n_obl,
            "discharged": n_dis,
            "inconclusive": len(incon),
            "inconclusive_ids": [r.get("id") for r in incon[:20]],
            "programs": len(programs),
            "disagreements_checked": len(viol) + len(unrep),
            "explanation": self.explanation,
            "exhaustive": bool(self.exhaustive and not incon and not errs),
            "paths": self.stats["paths"],
            "solver_queries": self.stats["solver_queries"],
            "solver_s": round(self.stats["solver_s"], 2),
            "cpu_s": round(self.stats["cpu_s"], 2),
            "functions_encoded": self.functions,
            "source_hashes": source_hashes(self.source_files),
            "bounds": self.bounds,
            "stubs": self.stubs,
            "twins": self.twins,
            "known_findings_reproduced": sorted(known_hit),
            "harness_errors": self.harness_errors[:20],
            "trusted_base": ["z3 5.1 (wheel)", "CPython 3.12 executing the code under analysis on proxy objects",
                             "vlib/pysym integer encoding (self-checked each run)", "vlib/refsem reference semantics"],
        }
        cov.update(self.extra)
        ev = {
            "property_id": pid, "tier": self.tier, "seed": self.seed, "level": self.level,
            "coverage": cov, "assumptions": self.assumptions, "wall_s": round(time.time() - self.t0, 2),
            "violations": len(new_viol),
        }
        os.makedirs(os.path.join(OUT, "evidence"), exist_ok=True)
        with open(os.path.join(OUT, "evidence", f"{pid}.json"), "w") as f:
            json.dump(ev, f, indent=1, default=str)
        for ln in lines:
            print(ln)
        print(f"{pid} [{self.tier}] obligations={n_obl} discharged={n_dis} inconclusive={len(incon)} "
              f"violations={len(new_viol)} known={sum(len(v) for v in known_hit.values())} "
              f"errors={len(errs) + len(unrep)} programs={len(programs)} solver_queries={self.stats['solver_queries']} "
              f"solver_s={self.stats['solver_s']:.1f} wall_s={time.time() - self.t0:.1f}")
        if new_viol:
            return 1
        if self.harness_errors:
            for h in self.harness_errors[:10]:
                print("HARNESS-ERROR:", h, file=sys.stderr)
            return 3
        return 0
