"""Reference semantics of statement programs (C02, C20): "initial value (comb) or previous value
(sync), overridden per bit by the active assignments in program order", evaluated over the
generator's own program tree (so the `_dsl.py` lowering is part of what is checked, not the oracle).

Program: {"signals": {name: [w, signed, init, kind]}, "stmts": [...], "fsms": {name: {"domain", "states": [...], "init"}}}
kinds: "in" (undriven), "comb", "sync".
"""
from .pysym import sym_ite, sym_and, sym_not, sym_or, same
from .refsem import ref_eval, mask, in_shape, unify, RefError, pattern_matches, to_unsigned, b2i


def tshape(t, sigs):
    k = t[0]
    if k == "sig":
        return (t[2], t[3])
    if k == "slice":
        w, _ = tshape(t[1], sigs)
        return (len(range(w)[t[2]:t[3]]), False)
    if k == "cat":
        return (sum(tshape(p, sigs)[0] for p in t[1]), False)
    if k in ("bit_select", "word_select"):
        return (t[3], False)
    if k == "array":
        return unify([tshape(p, sigs) for p in t[1]])
    if k == "as_signed":
        return (tshape(t[1], sigs)[0], True)
    if k == "as_unsigned":
        return (tshape(t[1], sigs)[0], False)
    raise RefError(k)


def tread(t, nxt, cur, sigs):
    """Bit pattern (unsigned, tshape width) of target t, signals read from `nxt`, offsets from `cur`."""
    k = t[0]
    w, s = tshape(t, sigs)
    if k == "sig":
        return to_unsigned(nxt[t[1]], w)
    if k == "slice":
        wi, _ = tshape(t[1], sigs)
        rng = range(wi)[t[2]:t[3]]
        return (tread(t[1], nxt, cur, sigs) >> rng.start) & mask(len(rng)) if len(rng) else 0
    if k == "cat":
        r, off = 0, 0
        for p in t[1]:
            r = r | (tread(p, nxt, cur, sigs) << off)
            off += tshape(p, sigs)[0]
        return r
    if k in ("bit_select", "word_select"):
        wi, si = tshape(t[1], sigs)
        inner = tread(t[1], nxt, cur, sigs)
        if si:
            inner = in_shape(inner, wi, True)
        o = cur[t[2][1]] * (t[3] if k == "word_select" else 1)
        return (inner >> o) & mask(t[3])
    if k == "array":
        i = cur[t[2][1]]
        r = 0
        for j in reversed(range(len(t[1]))):
            wj, sj = tshape(t[1][j], sigs)
            v = tread(t[1][j], nxt, cur, sigs)
            if sj:
                v = in_shape(v, wj, True)
            r = sym_ite(i == j, to_unsigned(v, w), r)
        return r
    return tread(t[1], nxt, cur, sigs)


def tassign(t, v, cond, nxt, cur, sigs):
    """Assign bit pattern v (any int, low tshape-width bits are used) to target t under cond."""
    if cond is False:
        return
    k = t[0]
    w, s = tshape(t, sigs)
    v = v & mask(w)
    if k == "sig":
        if w == 0:
            return
        nxt[t[1]] = sym_ite(cond, in_shape(v, w, s), nxt[t[1]])
    elif k == "slice":
        wi, _ = tshape(t[1], sigs)
        rng = range(wi)[t[2]:t[3]]
        if len(rng) == 0:
            return
        m = mask(len(rng)) << rng.start
        old = tread(t[1], nxt, cur, sigs)
        tassign(t[1], (old & ~m) | (v << rng.start), cond, nxt, cur, sigs)
    elif k == "cat":
        off = 0
        for p in t[1]:
            wp = tshape(p, sigs)[0]
            tassign(p, (v >> off) & mask(wp), cond, nxt, cur, sigs)
            off += wp
    elif k in ("bit_select", "word_select"):
        wi, _ = tshape(t[1], sigs)
        o = cur[t[2][1]] * (t[3] if k == "word_select" else 1)
        m = (mask(t[3]) << o) & mask(wi)
        old = tread(t[1], nxt, cur, sigs)
        tassign(t[1], (old & ~m) | ((v << o) & mask(wi)), cond, nxt, cur, sigs)
    elif k == "array":
        i = cur[t[2][1]]
        for j, e in enumerate(t[1]):
            if j >= (1 << t[2][2]):
                break
            tassign(e, v, sym_and(cond, i == j), nxt, cur, sigs)
    else:
        tassign(t[1], v, cond, nxt, cur, sigs)


def driven_bits(t, sigs, out):
    """The bits a target can write, as the netlist (and, since fix 0b3095d, the simulator) defines drivers: a dynamic
    part-select drives the bits that some value of its offset can reach, nothing else."""
    w, _ = tshape(t, sigs)
    _drive(t, mask(w), sigs, out)


def _drive(t, m, sigs, out):
    """m: the bits of t (as a mask over t's own width) that are written."""
    k = t[0]
    w, _ = tshape(t, sigs)
    m &= mask(w)
    if not m:
        return
    if k == "sig":
        out[t[1]] = out.get(t[1], 0) | m
    elif k == "slice":
        wi, _ = tshape(t[1], sigs)
        rng = range(wi)[t[2]:t[3]]
        if len(rng):
            _drive(t[1], (m & mask(len(rng))) << rng.start, sigs, out)
    elif k == "cat":
        for p in t[1]:
            wp = tshape(p, sigs)[0]
            _drive(p, m & mask(wp), sigs, out)
            m >>= wp
    elif k in ("bit_select", "word_select"):
        wo, _ = tshape(t[1], sigs)
        offw, _ = tshape(t[2], sigs)
        width = t[3]
        stride = width if k == "word_select" else 1
        pm = 0
        for off in range(1 << offw):
            if off * stride >= wo:
                break
            pm |= (m & mask(width)) << (off * stride)
        _drive(t[1], pm, sigs, out)
    elif k == "array":
        for p in t[1]:
            _drive(p, m, sigs, out)
    else:
        _drive(t[1], m, sigs, out)


def _restrict(t, start, length, sigs, out):
    """Bits of the signals under t that the window [start, start+length) of t covers."""
    if length > 0:
        _drive(t, mask(length) << start, sigs, out)


class StmtOracle:
    def __init__(self, prog):
        self.prog = prog
        self.sigs = prog["signals"]
        self.fsms = prog.get("fsms", {})
        self.driven = {}
        self.fsm_driven = set()
        self._collect(prog["stmts"])

    def _collect(self, stmts):
        for st in stmts:
            k = st[0]
            if k == "assign":
                driven_bits(st[2], self.sigs, self.driven)
            elif k == "next":
                self.fsm_driven.add(st[1])
            elif k == "if":
                for _, body in st[1]:
                    self._collect(body)
                if st[2] is not None:
                    self._collect(st[2])
            elif k == "switch":
                for _, body in st[2]:
                    self._collect(body)
            elif k == "fsm":
                for _, body in st[4]:
                    self._collect(body)

    def _walk(self, stmts, cond, env, nxt, domain, events):
        for st in stmts:
            k = st[0]
            if k == "assign":
                if st[1] != domain:
                    continue
                val, (w, s) = ref_eval(st[3], env)
                tassign(st[2], val, cond, nxt, env, self.sigs)
            elif k == "next":
                fs = self.fsms[st[1]]
                if fs["domain"] != domain:
                    continue
                key = "fsm:" + st[1]
                idx = fs["states"].index(st[2])
                nxt[key] = (sym_ite(cond, idx, nxt[key][0]), nxt[key][1])
            elif k in ("print", "assert", "assume"):
                if st[1] == domain and events is not None:
                    events.append((st, cond, env))
            elif k == "if":
                rest = cond
                for c_expr, body in st[1]:
                    c, _ = ref_eval(c_expr, env)
                    taken = sym_and(rest, c != 0)
                    self._walk(body, taken, env, nxt, domain, events)
                    rest = sym_and(rest, sym_not(c != 0))
                if st[2] is not None:
                    self._walk(st[2], rest, env, nxt, domain, events)
            elif k == "switch":
                tv, (tw, ts) = ref_eval(st[1], env)
                tu = to_unsigned(tv, tw)
                rest = cond
                for pats, body in st[2]:
                    if pats is None:
                        m = True
                    else:
                        m = False
                        for p in pats:
                            if isinstance(p, str):
                                p2 = "".join(p.split())
                                m = sym_or(m, pattern_matches(tu, tw, p2))
                            else:
                                m = sym_or(m, tv == p)
                    self._walk(body, sym_and(rest, m), env, nxt, domain, events)
                    rest = sym_and(rest, sym_not(m))
            elif k == "fsm":
                name = st[2]
                idx, names = env["fsm:" + name]
                for j, (sname, body) in enumerate(st[4]):
                    self._walk(body, sym_and(cond, idx == names.index(sname)), env, nxt, domain, events)
            else:
                raise RefError(k)

    def comb(self, env0):
        """env0: inputs, registers, fsm indices. Returns env extended with settled comb values."""
        env = dict(env0)
        combs = [n for n, (w, s, init, kind) in self.sigs.items() if kind == "comb"]
        for n in combs:
            env[n] = self.sigs[n][2]
        for _ in range(len(combs) + 2):
            nxt = {n: self.sigs[n][2] for n in combs}
            self._walk(self.prog["stmts"], True, env, nxt, "comb", None)
            if all(same(nxt[n], env[n]) for n in combs):
                return env
            env.update(nxt)
        raise RefError("reference comb evaluation did not settle (cyclic program?)")

    def step(self, env, domain="sync", rst=0, events=None):
        """Next values of the registers (and fsm indices) of `domain` at its active edge."""
        regs = [n for n, (w, s, init, kind) in self.sigs.items() if kind == domain]
        nxt = {n: env[n] for n in regs}
        for name, fs in self.fsms.items():
            if fs["domain"] == domain:
                nxt["fsm:" + name] = env["fsm:" + name]
        self._walk(self.prog["stmts"], True, env, nxt, domain, events)
        for n in regs:
            w, s, init, kind = self.sigs[n][:4]
            dm = self.driven.get(n, 0)
            if dm:
                rv = in_shape((to_unsigned(nxt[n], w) & ~dm) | (to_unsigned(init, w) & dm), w, s)
                nxt[n] = sym_ite(rst != 0, rv, nxt[n])
        for name, fs in self.fsms.items():
            # (an FSM without any `m.next` never leaves its initial state; its register is not driven)
            if fs["domain"] == domain and name in self.fsm_driven:
                init = fs["states"].index(fs["init"]) if fs["init"] is not None else 0
                key = "fsm:" + name
                nxt[key] = (sym_ite(rst != 0, init, nxt[key][0]), nxt[key][1])
        return nxt
