"""Driving the real Amaranth simulator with symbolic values.

The real front end (`Fragment.get(...).prepare()`), the real `_FragmentCompiler`, the real
`PySimEngine.step_design / set_value / get_value` and the real wakers are used.  Two substitutions
are made (both listed as stubs in the evidence, both proved equivalent to the originals by
`check_hstates`):

* `_PySignalState` -> `HSignalState`: `update`/`commit` decide "did it change?" structurally and only
  fork on it when a value-sensitive waker (clock/reset edge, testbench trigger) is attached;
* `_PyMemoryState` -> `HMemoryState`: `read` is an if-then-else chain over the rows, `write` queues
  `(addr, value, mask)`, `commit` applies the queue to every row under `addr == i`.

Each compiled `run()` is executed from the source text `_pyrtl` generated (captured by binding
`compile` in that module) by the if-converting interpreter, so a process run is one merged term.
"""
import builtins
import contextlib
import itertools

import z3

from .pysym import (SymInt, SymBool, Unsupported, fresh, sym_ite, same, is_sym, explore, Inconclusive,
                    HarnessError)
from .pysym import bool_term
import importlib
_explore_mod = importlib.import_module(__package__ + ".pysym.explore")
from .pysym.interp import Interp, parse_function_source

from amaranth.hdl import Fragment, Signal, Value, Const
from amaranth.hdl._ir import Design
from amaranth.hdl._mem import MemoryData
from amaranth.sim import pysim as _pysim
from amaranth.sim import _pyrtl
from amaranth.sim._pyrtl import PyRTLProcess

_RealSignalState = _pysim._PySignalState
_RealMemoryState = _pysim._PyMemoryState
_run_wakers = _pysim._run_wakers


class HSignalState(_RealSignalState):
    __slots__ = ()
    record = None      # when a dict: slot -> OR of masks seen in update() (used to learn driven bits)

    def update(self, value, mask=~0):
        if HSignalState.record is not None:
            HSignalState.record[self] = HSignalState.record.get(self, 0) | mask
        value = (self.next & ~mask) | (value & mask)
        if not same(self.next, value):
            ex = _explore_mod.CURRENT
            if ex is not None and is_sym(self.next) and is_sym(value):
                # structurally different terms may still be equal: decide it (keeps the fixpoint finite)
                ne = (self.next != value)
                if ne is False or (ne is not True and not ex.may_hold(bool_term(ne))):
                    return
            self.next = value
            self.pending.add(self)

    def commit(self):
        curr, nxt = self.curr, self.next
        if same(curr, nxt):
            return False
        if is_sym(curr) or is_sym(nxt):
            sensitive = any(getattr(w, "__qualname__", "") != "comb_waker.<locals>.waker" for w in self.wakers)
            if sensitive:
                if not (curr != nxt):       # forks exactly on "changed?"
                    self.curr = nxt
                    return False
        _run_wakers(self.wakers, curr, nxt)
        self.curr = nxt
        return True


class HMemoryState(_RealMemoryState):
    __slots__ = ()

    def reset(self):
        self.data = list(self.memory._init._raw)
        self.write_queue = []

    def read(self, addr):
        depth = self.memory.depth
        if not is_sym(addr):
            if addr in range(depth):
                return self.data[addr]
            return 0
        r = 0
        for i in reversed(range(depth)):
            r = sym_ite(addr == i, self.data[i], r)
        return r

    def write(self, addr, value, mask=None):
        if not is_sym(addr) and addr not in range(self.memory.depth):
            return
        self.write_queue.append((addr, value, mask))
        self.pending.add(self)

    def _norm(self, value):
        if self.shape.signed:
            w = self.shape.width
            return sym_ite((value & (1 << (w - 1))) != 0, value | (-1 << w), value & ((1 << w) - 1))
        return value

    def commit(self):
        assert self.write_queue
        _run_wakers(self.wakers)
        changed = False
        for i in range(self.memory.depth):
            old = new = self.data[i]
            for (addr, value, mask) in self.write_queue:
                hit = (addr == i)
                if hit is False:
                    continue
                v = value if mask is None else ((value & mask) | (new & ~mask))
                new = sym_ite(hit, self._norm(v), new)
            if not same(old, new):
                self.data[i] = new
                changed = True
        self.write_queue = []
        return changed


@contextlib.contextmanager
def hstates():
    """Bind the H state classes in amaranth.sim.pysim for the duration of the block."""
    prev = (_pysim._PySignalState, _pysim._PyMemoryState)
    _pysim._PySignalState = HSignalState
    _pysim._PyMemoryState = HMemoryState
    try:
        yield
    finally:
        _pysim._PySignalState, _pysim._PyMemoryState = prev


@contextlib.contextmanager
def real_states():
    """Bind the genuine state classes (used by replays on the unmodified simulator)."""
    prev = (_pysim._PySignalState, _pysim._PyMemoryState)
    _pysim._PySignalState = _RealSignalState
    _pysim._PyMemoryState = _RealMemoryState
    try:
        yield
    finally:
        _pysim._PySignalState, _pysim._PyMemoryState = prev


def install():
    _pysim._PySignalState = HSignalState
    _pysim._PyMemoryState = HMemoryState


class _CompileRecorder:
    def __init__(self):
        self.sources = {}

    def __call__(self, source, filename, mode, *a, **k):
        if filename == "<string>" and mode == "exec" and isinstance(source, str) and source.startswith("def run():"):
            tag = f"<verif-pyrtl:{len(self.sources)}>"
            self.sources[tag] = source
            return builtins.compile(source, tag, mode, *a, **k)
        return builtins.compile(source, filename, mode, *a, **k)


@contextlib.contextmanager
def record_compile():
    rec = _CompileRecorder()
    _pyrtl.compile = rec
    try:
        yield rec
    finally:
        del _pyrtl.compile


class IdMap:
    """Mapping keyed by object identity (Amaranth values are unhashable); also accepts (obj, int) keys."""
    def __init__(self):
        self._d = {}

    @staticmethod
    def _k(key):
        if isinstance(key, tuple):
            return (id(key[0]),) + tuple(key[1:])
        return id(key)

    def __setitem__(self, key, value):
        self._d[self._k(key)] = (key, value)

    def __getitem__(self, key):
        return self._d[self._k(key)][1]

    def __contains__(self, key):
        return self._k(key) in self._d

    def get(self, key, default=None):
        e = self._d.get(self._k(key))
        return default if e is None else e[1]

    def items(self):
        return list(self._d.values())

    def keys(self):
        return [k for k, _ in self._d.values()]

    def values(self):
        return [v for _, v in self._d.values()]

    def update(self, other):
        for k, v in other.items():
            self[k] = v

    def __len__(self):
        return len(self._d)


def prepare(elaboratable):
    if isinstance(elaboratable, Design):
        return elaboratable
    return Fragment.get(elaboratable, platform=None).prepare()


_ABSENT = object()


class SymSim:
    """The real PySimEngine over H states with interpreted (merged) RTL processes."""

    def __init__(self, elaboratable, *, merge=True, hstate=True):
        if hstate:
            install()
        self.design = prepare(elaboratable)
        self.interp = Interp(inline_modules={"amaranth.sim._pyrtl"})
        self.merge = merge
        ctx = hstates() if hstate else contextlib.nullcontext()
        with ctx, record_compile() as rec:
            self.engine = _pysim.PySimEngine(self.design)
        self.hstate = hstate
        self.state = self.engine._state
        self.sources = {}
        self.processes = list(self.engine._processes)
        self.native_run = {}
        for p in self.processes:
            if isinstance(p, PyRTLProcess):
                tag = p.run.__code__.co_filename
                src = rec.sources[tag]
                self.sources[p] = src
                self.native_run[p] = p.run
                if merge:
                    p.run = self._merged_runner(p, parse_function_source(src), p.run.__globals__)
        # deterministic process order for reports
        self.processes.sort(key=lambda p: self.sources.get(p, ""))
        self.clock_signals, self.reset_signals = self._domain_signals()
        self.comb_mask, self.sync_mask = self._learn_masks()
        self.vars = IdMap()

    # ---- construction helpers
    def _merged_runner(self, process, fdef, globs):
        def run():
            self.interp.run_source(fdef, globs)
        return run

    def _domain_signals(self):
        clks, rsts = [], []

        def walk(frag):
            for d in frag.domains.values():
                if d is None:
                    continue
                if not any(d.clk is c for c in clks):
                    clks.append(d.clk)
                if d.rst is not None and not any(d.rst is r for r in rsts):
                    rsts.append(d.rst)
            for sub, *_ in frag.subfragments:
                walk(sub)
        walk(self.design.fragment)
        return clks, rsts

    def _learn_masks(self):
        comb, sync = {}, {}
        if not self.hstate:
            return comb, sync
        for p, run in self.native_run.items():
            rec = {}
            HSignalState.record = rec
            saved = [(s, s.curr, s.next) for s in self.state.slots if isinstance(s, _RealSignalState)]
            saved_mem = [(s, list(s.data)) for s in self.state.slots if isinstance(s, _RealMemoryState)]
            pend = set(self.state.pending)
            # the learning run must reach the final update() calls and stay silent: assertions and prints are neutralised
            g = run.__globals__
            quiet = {k: g.get(k, _ABSENT) for k in ("pin_blame", "print")}
            g["pin_blame"] = lambda *a, **k: None
            g["print"] = lambda *a, **k: None
            try:
                run()
            finally:
                for k, v in quiet.items():
                    if v is _ABSENT:
                        del g[k]
                    else:
                        g[k] = v
                HSignalState.record = None
                for s, c, n in saved:
                    s.curr, s.next = c, n
                for s, d in saved_mem:
                    s.data = d
                    s.write_queue = []
                self.state.pending.clear()
                self.state.pending.update(pend)
            tgt = comb if p.is_comb else sync
            for s, m in rec.items():
                w = len(s.signal)
                tgt[s] = tgt.get(s, 0) | (m & ((1 << w) - 1))
        return comb, sync

    # ---- access
    def slot(self, signal):
        return self.state.slots[self.state.get_signal(signal)]

    def mem_slot(self, memory_data):
        return self.state.slots[self.state.get_memory(memory_data)]

    def signals(self):
        return [s.signal for s in self.state.slots if isinstance(s, _RealSignalState)]

    def memories(self):
        return [s.memory for s in self.state.slots if isinstance(s, _RealMemoryState)]

    def is_clock(self, signal):
        return any(signal is c for c in self.clock_signals)

    def value(self, signal):
        return self.slot(signal).curr

    # ---- symbolic state
    def reset(self):
        with (hstates() if self.hstate else contextlib.nullcontext()):
            self.engine.reset()
        self.interp.effects.clear()
        self.interp.raised.clear()

    def sym_state(self, prefix="s", concrete=(), clocks=None, namer=None, symbolic_clocks=False):
        """Make every non-clock signal bit that is not combinationally driven, and every memory
        row, a fresh symbolic value.  `concrete` signals keep their current value.  Returns
        {signal or (memory, row): SymInt}."""
        out = IdMap()
        clocks = {} if clocks is None else clocks
        for idx, s in enumerate(self.state.slots):
            if isinstance(s, _RealSignalState):
                sig = s.signal
                if self.is_clock(sig):
                    lvl = 0
                    for c, v in (clocks.items() if hasattr(clocks, "items") else clocks):
                        if c is sig:
                            lvl = v
                    s.curr = s.next = lvl
                    continue
                if any(sig is c for c in concrete):
                    continue
                w = len(sig)
                cm = self.comb_mask.get(s, 0)
                full = (1 << w) - 1
                if cm or s.is_comb is True:
                    # bits of a combinationally driven signal that no process drives stay at init
                    # for ever (a testbench may not write them); only sync-driven bits are state
                    cm = full & ~(self.sync_mask.get(s, 0) & ~cm)
                if w == 0 or cm == full:
                    s.curr = s.next = sig.init
                    continue
                v = fresh(namer(sig) if namer else f"{prefix}{idx}_{sig.name}", w, sig.shape().signed)
                out[sig] = v
                if cm:
                    u = ((v & full) & ~cm) | (sig.init & cm)
                    if sig.shape().signed:
                        u = sym_ite((u & (1 << (w - 1))) != 0, u | (-1 << w), u)
                    v = u
                s.curr = s.next = v
            else:
                mem = s.memory
                shape = s.shape
                rows = []
                for r in range(mem.depth):
                    v = fresh(namer((mem, r)) if namer else f"{prefix}{idx}_mem{r}", shape.width, shape.signed)
                    out[(mem, r)] = v
                    rows.append(v)
                s.data = rows
                s.write_queue = [] if self.hstate else {}
        self.state.pending.clear()
        self.vars.update(out)
        return out

    def settle(self, all_comb=True):
        if all_comb:
            for p in self.processes:
                if isinstance(p, PyRTLProcess) and p.is_comb:
                    p.runnable = True
        self.engine.step_design()

    def set(self, expr, value):
        self.engine.set_value(expr, value)

    def get(self, expr):
        return self.engine.get_value(expr)

    def poke(self, signal, value):
        """Directly overwrite a signal slot (no wakers): used to build states."""
        s = self.slot(signal)
        s.curr = s.next = value

    def edge(self, *clk_levels):
        """Apply simultaneous clock level changes [(clk_signal, new_level), ...] and settle."""
        for clk, lvl in clk_levels:
            self.engine.set_value(clk, lvl)
        self.engine.step_design()

    def tick(self, clk):
        """One full active-edge event for a posedge domain clock currently at 0 (or negedge at 1)."""
        cur = self.slot(clk).curr
        self.edge((clk, 1 - cur))

    def snapshot(self):
        snap = IdMap()
        for s in self.state.slots:
            if isinstance(s, _RealSignalState):
                snap[s.signal] = s.curr
            else:
                for r, v in enumerate(s.data):
                    snap[(s.memory, r)] = v
        return snap


def in_exploration(fn, assumptions=(), **kw):
    """Run fn() under an Explorer; returns list of paths."""
    return explore(fn, assumptions, **kw)


def construct_or_report(factory, base, replay, stage="Simulator(design)"):
    """Build a design with `factory()` and a SymSim for it.  Returns (design, sim, None) or (None, None, result):
    a diagnostic of the language while BUILDING the design means the generated program is not a legal one (skipped); an exception
    while the simulator is constructed for a design the language accepted is a violation if the genuine Simulator raises too
    (a crash such as a Python SyntaxError from the generated code), and a harness error otherwise."""
    import warnings
    try:
        with warnings.catch_warnings():
            warnings.simplefilter("ignore")
            design = factory()
    except Exception as ex:
        return None, None, dict(base, kind="unconstructible", status="skipped", detail=f"{type(ex).__name__}: {ex}")
    try:
        with warnings.catch_warnings():
            warnings.simplefilter("ignore")
            top = design[0] if isinstance(design, tuple) else design
            return design, SymSim(top), None
    except Exception as ex:
        if (type(ex).__module__ or "").startswith("amaranth"):
            return None, None, dict(base, kind="unconstructible", status="skipped", detail=f"rejected by the language: {type(ex).__name__}: {ex}")
        from amaranth.sim import Simulator
        try:
            with real_states(), warnings.catch_warnings():
                warnings.simplefilter("ignore")
                d2 = factory()
                Simulator(d2[0] if isinstance(d2, tuple) else d2)
        except Exception as ex2:
            return None, None, dict(base, kind="construction", status="violation",
                                    detail=f"{base.get('program', '')[:400]}: {stage} raises {type(ex2).__name__}: {str(ex2)[:200]} for a design the language accepts",
                                    signature={"kind": "construction", "exception": type(ex2).__name__}, replay=replay)
        return None, None, dict(base, kind="construction", status="error", detail=f"SymSim raised {type(ex).__name__}: {ex} but Simulator() does not")
