"""Proxy integers / booleans over z3 bit-vectors that denote *exact* Python integers.

A SymInt is a z3 bit-vector term read as a signed integer plus a conservative interval [lo, hi].
Every operation computes the result interval first, widens the operands by sign extension to the
width that interval needs, and only then applies the z3 operation: nothing can wrap, so the term
denotes exactly the Python integer the operation would give.
"""
import z3

import importlib
explore = importlib.import_module(__package__ + '.explore')


class Unsupported(BaseException):
    """The code under analysis did something the proxies cannot represent (never a pass)."""


MAX_WIDTH = 4096


def sbits(n):
    """Signed width needed for the Python int n."""
    return (n.bit_length() if n >= 0 else (~n).bit_length()) + 1


def iwidth(lo, hi):
    return max(sbits(lo), sbits(hi))


def _bv(v, w):
    return z3.BitVecVal(v, w)


def _ext(term, w):
    d = w - term.size()
    if d == 0:
        return term
    assert d > 0, (term.size(), w)
    return z3.SignExt(d, term)


def _fit(term, lo, hi):
    """Build a result: concrete if the interval is a point, else a SymInt narrowed to its interval."""
    if lo == hi:
        return lo
    w = iwidth(lo, hi)
    if w > MAX_WIDTH:
        raise Unsupported(f"integer of {w} bits")
    s = term.size()
    if s > w:
        term = z3.Extract(w - 1, 0, term)
    elif s < w:
        term = z3.SignExt(w - s, term)
    return SymInt(term, lo, hi)


def is_sym(x):
    return isinstance(x, (SymInt, SymBool))


def is_intlike(x):
    return type(x) is int or type(x) is bool or isinstance(x, (SymInt, SymBool))


def as_symint(x):
    """Any int-like -> SymInt (also for concrete ints)."""
    if type(x) is SymInt:
        return x
    if type(x) is SymBool:
        return SymInt(z3.If(x.term, _bv(1, 2), _bv(0, 2)), 0, 1)
    if isinstance(x, int):
        x = int(x)
        return SymInt(_bv(x, sbits(x)), x, x)
    raise TypeError(x)


def term_of(x, w):
    """z3 term of width w for an int-like whose value fits in w signed bits."""
    if type(x) is SymInt:
        return _ext(x.term, w)
    if type(x) is SymBool:
        return z3.If(x.term, _bv(1, w), _bv(0, w))
    return _bv(int(x), w)


def _w(x):
    """Current term width of an int-like."""
    if type(x) is SymInt:
        return x.term.size()
    if type(x) is SymBool:
        return 2
    return sbits(int(x))


def bounds(x):
    if type(x) is SymInt:
        return x.lo, x.hi
    if type(x) is SymBool:
        return 0, 1
    x = int(x)
    return x, x


def same(a, b):
    """Structural identity (sound under-approximation of equality)."""
    if a is b:
        return True
    ta, tb = type(a), type(b)
    if ta is SymInt and tb is SymInt:
        return a.term.eq(b.term)
    if ta is SymBool and tb is SymBool:
        return a.term.eq(b.term)
    if ta in (SymInt, SymBool) or tb in (SymInt, SymBool):
        return False
    try:
        return type(a) is type(b) and a == b
    except Exception:
        return False


def sym_ite(c, a, b):
    """if-then-else over int-likes (or identical arbitrary objects)."""
    if c is True:
        return a
    if c is False:
        return b
    if type(c) is SymInt:
        c = c != 0
    if type(c) is not SymBool:
        return a if c else b
    if same(a, b):
        return a
    if (type(a) is SymBool or type(a) is bool) and (type(b) is SymBool or type(b) is bool):
        return mk_bool(z3.If(c.term, bool_term(a), bool_term(b)))
    if is_intlike(a) and is_intlike(b):
        alo, ahi = bounds(a)
        blo, bhi = bounds(b)
        lo, hi = min(alo, blo), max(ahi, bhi)
        w = max(iwidth(lo, hi), _w(a), _w(b))
        return _fit(z3.If(c.term, term_of(a, w), term_of(b, w)), lo, hi)
    raise Unsupported(f"cannot merge {type(a).__name__} with {type(b).__name__}")


def bool_term(x):
    if type(x) is SymBool:
        return x.term
    if type(x) is SymInt:
        return x.term != 0
    return z3.BoolVal(bool(x))


def mk_bool(term):
    """SymBool, or a Python bool if the term is literally true/false."""
    if z3.is_true(term):
        return True
    if z3.is_false(term):
        return False
    return SymBool(term)


def sym_not(x):
    if type(x) is SymBool:
        return mk_bool(z3.Not(x.term))
    if type(x) is SymInt:
        return mk_bool(x.term == 0)
    return not x


def sym_truth(x):
    """Truth value without forking: SymBool / bool."""
    if type(x) is SymBool:
        return x
    if type(x) is SymInt:
        return mk_bool(x.term != 0)
    if isinstance(x, FormatToken):
        raise Unsupported("truth of format token")
    return bool(x)


def sym_and(a, b):
    a, b = sym_truth(a), sym_truth(b)
    if a is False or b is False:
        return False
    if a is True:
        return b
    if b is True:
        return a
    return mk_bool(z3.And(a.term, b.term))


def sym_or(a, b):
    a, b = sym_truth(a), sym_truth(b)
    if a is True or b is True:
        return True
    if a is False:
        return b
    if b is False:
        return a
    return mk_bool(z3.Or(a.term, b.term))


class SymBool:
    __slots__ = ("term",)

    def __init__(self, term):
        self.term = term

    @property
    def __class__(self):
        return bool

    def __bool__(self):
        return explore.branch(self.term)

    def __index__(self):
        return 1 if explore.branch(self.term) else 0

    __int__ = __index__

    def __hash__(self):
        return hash(self.__index__())

    def __repr__(self):
        return f"SymBool({self.term})"

    # boolean algebra stays boolean
    def __and__(self, o):
        if type(o) is SymBool:
            return mk_bool(z3.And(self.term, o.term))
        if type(o) is bool:
            return self if o else False
        return as_symint(self) & o
    __rand__ = __and__

    def __or__(self, o):
        if type(o) is SymBool:
            return mk_bool(z3.Or(self.term, o.term))
        if type(o) is bool:
            return True if o else self
        return as_symint(self) | o
    __ror__ = __or__

    def __xor__(self, o):
        if type(o) is SymBool:
            return mk_bool(z3.Xor(self.term, o.term))
        if type(o) is bool:
            return sym_not(self) if o else self
        return as_symint(self) ^ o
    __rxor__ = __xor__

    def __eq__(self, o):
        if type(o) is SymBool:
            return mk_bool(self.term == o.term)
        if is_intlike(o):
            return as_symint(self) == o
        return NotImplemented

    def __ne__(self, o):
        r = self.__eq__(o)
        return r if r is NotImplemented else sym_not(r)

    def __format__(self, spec):
        return as_symint(self).__format__(spec)

    def bit_length(self):
        return as_symint(self)


def _delegate(name):
    def f(self, *a):
        return getattr(as_symint(self), name)(*a)
    f.__name__ = name
    return f


for _n in ("add radd sub rsub mul rmul floordiv rfloordiv mod rmod lshift rlshift rshift rrshift "
           "neg pos invert abs lt le gt ge divmod rdivmod pow rpow").split():
    setattr(SymBool, f"__{_n}__", _delegate(f"__{_n}__"))


class SymInt:
    __slots__ = ("term", "lo", "hi")

    def __init__(self, term, lo, hi):
        self.term, self.lo, self.hi = term, lo, hi

    @property
    def __class__(self):
        return int

    @property
    def width(self):
        return self.term.size()

    def __repr__(self):
        return f"SymInt[{self.lo},{self.hi}]({self.term})"

    # ---- concretisation ----
    def __bool__(self):
        return explore.branch(self.term != 0)

    def __index__(self):
        return explore.concretise(self)

    __int__ = __index__

    def __hash__(self):
        return hash(explore.concretise(self))

    def __float__(self):
        raise Unsupported("float of symbolic int")

    def __round__(self, ndigits=None):
        if ndigits is None or (not is_sym(ndigits) and ndigits >= 0):
            return self               # an int rounds to itself
        raise Unsupported("round() of a symbolic int to a negative number of digits")

    def __truediv__(self, o):
        raise Unsupported("true division of symbolic int")
    __rtruediv__ = __truediv__

    # ---- arithmetic ----
    def __add__(self, o):
        if not is_intlike(o):
            return NotImplemented
        if type(o) is int and o == 0:
            return self
        olo, ohi = bounds(o)
        lo, hi = self.lo + olo, self.hi + ohi
        w = max(iwidth(lo, hi), self.width, iwidth(olo, ohi))
        return _fit(term_of(self, w) + term_of(o, w), lo, hi)
    __radd__ = __add__

    def __sub__(self, o):
        if not is_intlike(o):
            return NotImplemented
        if type(o) is int and o == 0:
            return self
        olo, ohi = bounds(o)
        lo, hi = self.lo - ohi, self.hi - olo
        w = max(iwidth(lo, hi), self.width, iwidth(olo, ohi))
        return _fit(term_of(self, w) - term_of(o, w), lo, hi)

    def __rsub__(self, o):
        if not is_intlike(o):
            return NotImplemented
        olo, ohi = bounds(o)
        lo, hi = olo - self.hi, ohi - self.lo
        w = max(iwidth(lo, hi), self.width, iwidth(olo, ohi))
        return _fit(term_of(o, w) - term_of(self, w), lo, hi)

    def __neg__(self):
        lo, hi = -self.hi, -self.lo
        w = max(iwidth(lo, hi), self.width)
        return _fit(-term_of(self, w), lo, hi)

    def __pos__(self):
        return self

    def __abs__(self):
        return sym_ite(self < 0, -self, self)

    def __invert__(self):
        lo, hi = ~self.hi, ~self.lo
        return _fit(~self.term, lo, hi)

    def __mul__(self, o):
        if not is_intlike(o):
            return NotImplemented
        if type(o) in (int, bool):
            if o == 0:
                return 0
            if o == 1:
                return self
        olo, ohi = bounds(o)
        c = (self.lo * olo, self.lo * ohi, self.hi * olo, self.hi * ohi)
        lo, hi = min(c), max(c)
        w = max(iwidth(lo, hi), self.width, iwidth(olo, ohi))
        if w > MAX_WIDTH:
            raise Unsupported("product too wide")
        return _fit(term_of(self, w) * term_of(o, w), lo, hi)
    __rmul__ = __mul__

    def _divmod(self, a, b):
        """floor division and modulo of int-likes a, b (b != 0 on this path)."""
        alo, ahi = bounds(a)
        blo, bhi = bounds(b)
        A = max(abs(alo), abs(ahi))
        B = max(abs(blo), abs(bhi))
        w = iwidth(-(A + B) - 1, A + B + 1) + 1
        ta, tb = term_of(a, w), term_of(b, w)
        r = z3.SRem(ta, tb)          # sign follows dividend
        # Python: remainder has the sign of the divisor
        adj = z3.And(r != 0, (r < 0) != (tb < 0))
        r = z3.If(adj, r + tb, r)
        q = (ta - r) / tb            # exact (bvsdiv)
        rlo = min(0, blo + 1)
        rhi = max(0, bhi - 1)
        return _fit(q, -A - 1, A + 1), _fit(r, rlo, rhi)

    def _check_div(self, b):
        if type(b) in (int, bool):
            if b == 0:
                raise ZeroDivisionError("integer division or modulo by zero")
            return
        blo, bhi = bounds(b)
        if blo > 0 or bhi < 0:
            return
        if explore.branch(bool_term(as_symint(b) == 0)):
            raise ZeroDivisionError("integer division or modulo by zero")

    def __floordiv__(self, o):
        if not is_intlike(o):
            return NotImplemented
        self._check_div(o)
        if type(o) is int and o == 1:
            return self
        return self._divmod(self, o)[0]

    def __rfloordiv__(self, o):
        if not is_intlike(o):
            return NotImplemented
        self._check_div(self)
        return self._divmod(o, self)[0]

    def __mod__(self, o):
        if not is_intlike(o):
            return NotImplemented
        self._check_div(o)
        return self._divmod(self, o)[1]

    def __rmod__(self, o):
        if not is_intlike(o):
            return NotImplemented
        self._check_div(self)
        return self._divmod(o, self)[1]

    def __divmod__(self, o):
        if not is_intlike(o):
            return NotImplemented
        self._check_div(o)
        return self._divmod(self, o)

    def __rdivmod__(self, o):
        if not is_intlike(o):
            return NotImplemented
        self._check_div(self)
        return self._divmod(o, self)

    def __pow__(self, o, m=None):
        if m is None and type(o) is int and 0 <= o <= 4:
            r = 1
            for _ in range(o):
                r = r * self
            return r
        raise Unsupported("pow with symbolic base")

    def __rpow__(self, o, m=None):
        if m is None and type(o) is int and o == 2:
            return 1 << self
        raise Unsupported("pow with symbolic exponent")

    # ---- bitwise ----
    def _bitop(self, o, kind):
        if not is_intlike(o):
            return NotImplemented
        olo, ohi = bounds(o)
        slo, shi = self.lo, self.hi
        w = max(self.width, iwidth(olo, ohi))
        full_lo, full_hi = -(1 << (w - 1)), (1 << (w - 1)) - 1
        if kind == "and":
            if type(o) in (int, bool):
                if o == 0:
                    return 0
                if o == -1:
                    return self
                if slo >= 0:
                    # only the low bit_length(hi) bits of the constant matter
                    k = shi.bit_length()
                    o = int(o) & ((1 << k) - 1)
                    if o == 0:
                        return 0
                    if o == (1 << k) - 1:
                        return self
                    olo = ohi = o
                    w = max(self.width, iwidth(o, o))
            if slo >= 0 and olo >= 0:
                lo, hi = 0, min(shi, ohi)
            elif slo >= 0:
                lo, hi = 0, shi
            elif olo >= 0:
                lo, hi = 0, ohi
            else:
                lo, hi = full_lo, full_hi
            t = term_of(self, w) & term_of(o, w)
        elif kind == "or":
            if type(o) in (int, bool) and o == 0:
                return self
            if slo >= 0 and olo >= 0:
                k = max(shi.bit_length(), ohi.bit_length())
                lo, hi = max(slo, olo), (1 << k) - 1
            else:
                lo, hi = full_lo, full_hi
                if shi < 0 or ohi < 0:
                    hi = -1
                if shi < 0 and olo >= 0:
                    lo = slo
                elif ohi < 0 and slo >= 0:
                    lo = olo
            t = term_of(self, w) | term_of(o, w)
        else:
            if type(o) in (int, bool) and o == 0:
                return self
            if slo >= 0 and olo >= 0:
                k = max(shi.bit_length(), ohi.bit_length())
                lo, hi = 0, (1 << k) - 1
            else:
                lo, hi = full_lo, full_hi
            t = term_of(self, w) ^ term_of(o, w)
        return _fit(t, lo, hi)

    def __and__(self, o):
        return self._bitop(o, "and")
    __rand__ = __and__

    def __or__(self, o):
        return self._bitop(o, "or")
    __ror__ = __or__

    def __xor__(self, o):
        return self._bitop(o, "xor")
    __rxor__ = __xor__

    @staticmethod
    def _check_shift(b):
        blo, bhi = bounds(b)
        if bhi < 0:
            raise ValueError("negative shift count")
        if blo < 0:
            if explore.branch(bool_term(as_symint(b) < 0)):
                raise ValueError("negative shift count")
            blo = 0
        return blo, bhi

    @staticmethod
    def _shl(a, b):
        blo, bhi = SymInt._check_shift(b)
        alo, ahi = bounds(a)
        if alo == ahi == 0:
            return 0
        if bhi > MAX_WIDTH:
            raise Unsupported(f"shift amount up to {bhi}")
        if blo == bhi:
            if blo == 0:
                return a
            lo, hi = alo << blo, ahi << blo
            w = max(iwidth(lo, hi), iwidth(alo, ahi))
            return _fit(term_of(a, w) << blo, lo, hi)
        c = (alo << blo, alo << bhi, ahi << blo, ahi << bhi)
        lo, hi = min(c), max(c)
        w = max(iwidth(lo, hi), iwidth(0, bhi), iwidth(alo, ahi), _w(b), _w(a))
        if w > MAX_WIDTH:
            raise Unsupported("shift result too wide")
        return _fit(term_of(a, w) << term_of(b, w), lo, hi)

    @staticmethod
    def _shr(a, b):
        blo, bhi = SymInt._check_shift(b)
        alo, ahi = bounds(a)
        if blo == bhi == 0:
            return a
        c = (alo >> blo, alo >> bhi, ahi >> blo, ahi >> bhi)
        lo, hi = min(c), max(c)
        w = max(iwidth(alo, ahi), iwidth(0, bhi), _w(b), _w(a))
        if w > MAX_WIDTH:
            # amount far beyond the operand: clamp the amount
            wa = iwidth(alo, ahi)
            bb = sym_ite(as_symint(b) > wa, wa, b)
            return SymInt._shr(a, bb)
        return _fit(term_of(a, w) >> term_of(b, w), lo, hi)

    def __lshift__(self, o):
        if not is_intlike(o):
            return NotImplemented
        return SymInt._shl(self, o)

    def __rlshift__(self, o):
        if not is_intlike(o):
            return NotImplemented
        return SymInt._shl(o, self)

    def __rshift__(self, o):
        if not is_intlike(o):
            return NotImplemented
        return SymInt._shr(self, o)

    def __rrshift__(self, o):
        if not is_intlike(o):
            return NotImplemented
        return SymInt._shr(o, self)

    # ---- comparisons ----
    def _cmp(self, o, f):
        if not is_intlike(o):
            return NotImplemented
        olo, ohi = bounds(o)
        w = max(self.width, iwidth(olo, ohi))
        return mk_bool(f(term_of(self, w), term_of(o, w)))

    def __eq__(self, o):
        if not is_intlike(o):
            return NotImplemented
        olo, ohi = bounds(o)
        if ohi < self.lo or olo > self.hi:
            return False
        return self._cmp(o, lambda a, b: a == b)

    def __ne__(self, o):
        if not is_intlike(o):
            return NotImplemented
        olo, ohi = bounds(o)
        if ohi < self.lo or olo > self.hi:
            return True
        return self._cmp(o, lambda a, b: a != b)

    def __lt__(self, o):
        if not is_intlike(o):
            return NotImplemented
        olo, ohi = bounds(o)
        if self.hi < olo:
            return True
        if self.lo >= ohi:
            return False
        return self._cmp(o, lambda a, b: a < b)

    def __le__(self, o):
        if not is_intlike(o):
            return NotImplemented
        olo, ohi = bounds(o)
        if self.hi <= olo:
            return True
        if self.lo > ohi:
            return False
        return self._cmp(o, lambda a, b: a <= b)

    def __gt__(self, o):
        if not is_intlike(o):
            return NotImplemented
        olo, ohi = bounds(o)
        if self.lo > ohi:
            return True
        if self.hi <= olo:
            return False
        return self._cmp(o, lambda a, b: a > b)

    def __ge__(self, o):
        if not is_intlike(o):
            return NotImplemented
        olo, ohi = bounds(o)
        if self.lo >= ohi:
            return True
        if self.hi < olo:
            return False
        return self._cmp(o, lambda a, b: a >= b)

    # ---- int methods ----
    def bit_length(self):
        """Number of bits of |self| (Python's int.bit_length)."""
        m = abs(self)
        if not isinstance(m, SymInt):
            return int(m).bit_length()
        res = 0
        for k in range(m.hi.bit_length()):
            res = res + as_symint(m >= (1 << k))
        return res

    def bit_count(self):
        m = abs(self)
        if not isinstance(m, SymInt):
            return int(m).bit_count()
        n = m.hi.bit_length()
        t = term_of(m, n + 1)
        cw = sbits(n)
        acc = _bv(0, cw)
        for k in range(n):
            acc = acc + z3.ZeroExt(cw - 1, z3.Extract(k, k, t))
        return _fit(acc, 0, n)

    def __format__(self, spec):
        return FormatToken.make(self, spec)

    def to_bytes(self, *a, **k):
        raise Unsupported("to_bytes of symbolic int")


class FormatToken(str):
    """What format(SymInt, spec) returns: a str whose text is a poison marker, carrying (sym, spec)."""
    registry = {}

    @classmethod
    def make(cls, sym, spec):
        n = len(cls.registry)
        self = str.__new__(cls, f"\x00<symfmt#{n}>\x00")
        self.sym = sym
        self.spec = spec
        cls.registry[n] = self
        return self

    def count(self, sub, *a):
        if self.spec == "b" and sub == "1" and not a:  # format(-5, "b") == "-101": the digits of the magnitude
            return self.sym.bit_count()
        raise Unsupported(f"count({sub!r}) on format token {self.spec!r}")

    def _no(self, *a, **k):
        raise Unsupported("string operation on symbolic format token")

    __getitem__ = __iter__ = __len__ = encode = split = strip = lower = upper = _no
    replace = expandtabs = __contains__ = find = index = _no


def fresh(name, width, signed):
    """A fresh symbolic integer ranging over exactly the values of Shape(width, signed)."""
    if width == 0:
        return 0
    v = z3.BitVec(name, width)
    if signed:
        return SymInt(v, -(1 << (width - 1)), (1 << (width - 1)) - 1)
    return SymInt(z3.ZeroExt(1, v), 0, (1 << width) - 1)


def fresh_range(name, lo, hi):
    """A fresh symbolic integer with lo <= x <= hi; returns (SymInt, constraint term)."""
    if lo == hi:
        return lo, z3.BoolVal(True)
    w = iwidth(lo, hi)
    v = z3.BitVec(name, w)
    return SymInt(v, lo, hi), z3.And(v >= lo, v <= hi)


def fresh_bool(name):
    return SymBool(z3.Bool(name))


def to_z3_int(x, w):
    return term_of(x, w)


def eval_in_model(model, x):
    """Concrete Python value of an int-like under a z3 model (model completion on)."""
    if type(x) is SymInt:
        return model.eval(x.term, model_completion=True).as_signed_long()
    if type(x) is SymBool:
        return bool(z3.is_true(model.eval(x.term, model_completion=True)))
    return x


def sym_eq_term(a, b):
    """z3 Bool term: a == b as Python integers."""
    r = (a == b) if is_sym(a) else (b == a)
    if r is NotImplemented:
        raise TypeError((a, b))
    return bool_term(r)
