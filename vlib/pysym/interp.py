"""If-converting interpreter for Python functions over proxy integers.

The *real* source of a function (the text `_pyrtl` generated, or a library function read from
/repo) is executed statement by statement; `if`/`match` on a symbolic condition execute both arms on
copies of the environment and merge the results with if-then-else terms instead of forking.
Expressions are evaluated on the proxies with Python's own operator semantics (via the `operator`
module), helper functions from allow-listed modules are interpreted recursively from their source,
everything else is called natively.  Anything outside the supported subset raises Unsupported
(never a silent guess); a symbolic condition whose arms contain unknown calls is forked natively.
"""
import ast
import builtins
import inspect
import operator
import types

import importlib
explore = importlib.import_module(__package__ + '.explore')
from .values import (SymInt, SymBool, FormatToken, Unsupported, sym_ite, sym_not, sym_and, sym_or,
                     sym_truth, same, is_sym, bool_term, as_symint, bounds)

_BINOPS = {
    ast.Add: operator.add, ast.Sub: operator.sub, ast.Mult: operator.mul, ast.FloorDiv: operator.floordiv,
    ast.Mod: operator.mod, ast.BitAnd: operator.and_, ast.BitOr: operator.or_, ast.BitXor: operator.xor,
    ast.LShift: operator.lshift, ast.RShift: operator.rshift, ast.Pow: operator.pow, ast.Div: operator.truediv,
}
_CMPOPS = {
    ast.Eq: operator.eq, ast.NotEq: operator.ne, ast.Lt: operator.lt, ast.LtE: operator.le,
    ast.Gt: operator.gt, ast.GtE: operator.ge, ast.Is: operator.is_, ast.IsNot: operator.is_not,
    ast.In: lambda a, b: a in b, ast.NotIn: lambda a, b: a not in b,
}


import z3

_DEAD = object()


class ReversedBits:
    """`f"{x:0{n}b}"[::-1]` : the n-bit binary text of x, reversed."""
    def __init__(self, sym, n):
        self.sym, self.n = sym, n


def _token_getitem(tok, idx):
    spec = tok.spec
    if (isinstance(idx, slice) and idx.start is None and idx.stop is None and idx.step == -1
            and spec.startswith("0") and spec.endswith("b") and spec[1:-1].isdigit()):
        n = int(spec[1:-1])
        lo, hi = bounds(tok.sym)
        if lo >= 0 and hi < (1 << n):
            return ReversedBits(tok.sym, n)
    raise Unsupported(f"subscript {idx!r} of format token {spec!r}")


def sym_int(x, base=None):
    """Model of int(...) on proxies."""
    if isinstance(x, ReversedBits) and base == 2:
        r = 0
        for k in range(x.n):
            r = r | (((x.sym >> k) & 1) << (x.n - 1 - k))
        return r
    if type(x) is SymInt and base is None:
        return x
    if type(x) is SymBool and base is None:
        return as_symint(x)
    if isinstance(x, FormatToken):
        raise Unsupported("int() of a format token")
    return int(x) if base is None else int(x, base)


def sym_bool(x=False):
    return sym_truth(x)


class _SourceIndex:
    """(filename) -> {(lineno, name): ast node} for FunctionDef / Lambda nodes."""
    def __init__(self):
        self.files = {}

    def lookup(self, fn):
        code = fn.__code__
        fname = code.co_filename
        idx = self.files.get(fname)
        if idx is None:
            idx = {}
            try:
                with open(fname) as f:
                    tree = ast.parse(f.read(), fname)
            except (OSError, SyntaxError):
                tree = None
            if tree is not None:
                for node in ast.walk(tree):
                    if isinstance(node, (ast.FunctionDef, ast.Lambda)):
                        name = node.name if isinstance(node, ast.FunctionDef) else "<lambda>"
                        key = (node.lineno, name)
                        idx[key] = None if key in idx else node   # ambiguous -> None
                    # decorators shift co_firstlineno to the first decorator line
                    if isinstance(node, ast.FunctionDef) and node.decorator_list:
                        key = (node.decorator_list[0].lineno, node.name)
                        idx[key] = node
            self.files[fname] = idx
        return idx.get((code.co_firstlineno, code.co_name))


SOURCES = _SourceIndex()

PURE_NAMES = {"sign", "zdiv", "zmod", "bool", "int", "format", "len", "abs", "value_to_string", "range",
              "min", "max", "isinstance", "print", "pin_blame", "AssertionError", "ValueError"}
PURE_METHODS = {"count", "read", "format", "bit_length", "_reflect", "bit_count"}


class Effect:
    __slots__ = ("kind", "guard", "args", "kwargs")

    def __init__(self, kind, guard, args, kwargs):
        self.kind, self.guard, self.args, self.kwargs = kind, guard, args, kwargs


class _Frame:
    def __init__(self, env, globs):
        self.env = env
        self.globs = globs
        self.returns = []      # (guard, value)


class Interp:
    def __init__(self, *, inline_modules=(), overlays=None, effects=("print", "pin_blame")):
        self.inline_modules = set(inline_modules)
        self.overlays = {"bool": sym_bool, "int": sym_int}
        if overlays:
            self.overlays.update(overlays)
        self.effect_names = set(effects)
        self.effects = []          # Effect objects, in program order
        self.raised = []           # (guard, exception object)
        self.stmts_executed = 0

    # ------------------------------------------------------------------ entry points
    def call(self, fn, *args, **kwargs):
        """Interpret Python function `fn` (must have retrievable source)."""
        return self._call_function(fn, args, kwargs, True)

    def run_source(self, fdef, globs, args=(), guard=True):
        """Interpret an ast.FunctionDef with the given globals."""
        frame = _Frame({}, globs)
        self._bind_args(fdef.args, frame, args, {}, None)
        return self._run_body(fdef.body, frame, guard)

    # ------------------------------------------------------------------ functions
    def _bind_args(self, a, frame, args, kwargs, fn):
        if a.vararg or a.kwarg or a.posonlyargs:
            raise Unsupported("varargs in interpreted function")
        names = [x.arg for x in a.args]
        defaults = list(fn.__defaults__ or ()) if fn is not None else []
        if len(args) > len(names):
            raise TypeError("too many arguments")
        for n, v in zip(names, args):
            frame.env[n] = v
        for i, n in enumerate(names[len(args):], start=len(args)):
            if n in kwargs:
                frame.env[n] = kwargs.pop(n)
            else:
                j = i - (len(names) - len(defaults))
                if j < 0:
                    raise TypeError(f"missing argument {n}")
                frame.env[n] = defaults[j]
        kwd = (fn.__kwdefaults__ or {}) if fn is not None else {}
        for x in a.kwonlyargs:
            if x.arg in kwargs:
                frame.env[x.arg] = kwargs.pop(x.arg)
            elif x.arg in kwd:
                frame.env[x.arg] = kwd[x.arg]
            else:
                raise TypeError(f"missing kw argument {x.arg}")
        if kwargs:
            raise TypeError(f"unexpected keyword arguments {list(kwargs)}")

    def _call_function(self, fn, args, kwargs, guard):
        if isinstance(fn, types.MethodType):
            args = (fn.__self__,) + tuple(args)
            fn = fn.__func__
        node = SOURCES.lookup(fn)
        if node is None:
            raise Unsupported(f"no source for {fn!r}")
        env = {}
        if fn.__closure__:
            for name, cell in zip(fn.__code__.co_freevars, fn.__closure__):
                try:
                    env[name] = cell.cell_contents
                except ValueError:
                    pass
        frame = _Frame(env, fn.__globals__)
        self._bind_args(node.args, frame, args, dict(kwargs), fn)
        if isinstance(node, ast.Lambda):
            return self._eval(node.body, frame, guard)
        return self._run_body(node.body, frame, guard)

    def _run_body(self, body, frame, guard):
        live = self._block(body, frame, guard)
        rets = frame.returns
        if live is not False:
            rets = rets + [(live, None)]
        if not rets:
            return None
        # merge: first matching guard wins (guards are mutually exclusive by construction)
        result = rets[-1][1]
        for g, v in reversed(rets[:-1]):
            result = self._merge_value(g, v, result)
        return result

    def _should_inline(self, fn):
        f = fn.__func__ if isinstance(fn, types.MethodType) else fn
        if not isinstance(f, types.FunctionType):
            return False
        return f.__module__ in self.inline_modules

    # ------------------------------------------------------------------ statements
    def _block(self, stmts, frame, guard):
        """Execute statements; returns the guard under which control falls out of the block."""
        live = guard
        for st in stmts:
            if live is False:
                break
            live = self._stmt(st, frame, live)
        return live

    def _stmt(self, st, frame, guard):
        self.stmts_executed += 1
        m = getattr(self, "_s_" + type(st).__name__, None)
        if m is None:
            raise Unsupported(f"statement {type(st).__name__}")
        return m(st, frame, guard)

    def _s_Pass(self, st, frame, guard):
        return guard

    def _s_Expr(self, st, frame, guard):
        if isinstance(st.value, ast.Constant):
            return guard
        self._eval(st.value, frame, guard)
        return guard

    def _assign(self, target, value, frame, guard):
        if isinstance(target, ast.Name):
            frame.env[target.id] = value
        elif isinstance(target, (ast.Tuple, ast.List)):
            vals = list(value)
            if len(vals) != len(target.elts):
                raise ValueError("unpack length mismatch")
            for t, v in zip(target.elts, vals):
                self._assign(t, v, frame, guard)
        elif isinstance(target, ast.Attribute):
            if guard is not True:
                raise Unsupported("attribute assignment under a symbolic guard")
            setattr(self._eval(target.value, frame, guard), target.attr, value)
        elif isinstance(target, ast.Subscript):
            if guard is not True:
                raise Unsupported("item assignment under a symbolic guard")
            self._eval(target.value, frame, guard)[self._eval(target.slice, frame, guard)] = value
        else:
            raise Unsupported(f"assignment target {type(target).__name__}")

    def _s_Assign(self, st, frame, guard):
        v = self._eval(st.value, frame, guard)
        for t in st.targets:
            self._assign(t, v, frame, guard)
        return guard

    def _s_AnnAssign(self, st, frame, guard):
        if st.value is not None:
            self._assign(st.target, self._eval(st.value, frame, guard), frame, guard)
        return guard

    def _s_AugAssign(self, st, frame, guard):
        t = st.target
        if isinstance(t, ast.Name):
            cur = self._lookup(t.id, frame)
        elif isinstance(t, ast.Attribute):
            cur = getattr(self._eval(t.value, frame, guard), t.attr)
        else:
            cur = self._eval(t, frame, guard)
        v = _BINOPS[type(st.op)](cur, self._eval(st.value, frame, guard))
        self._assign(t, v, frame, guard)
        return guard

    def _s_Return(self, st, frame, guard):
        v = None if st.value is None else self._eval(st.value, frame, guard)
        frame.returns.append((guard, v))
        return False

    def _s_Raise(self, st, frame, guard):
        exc = self._eval(st.exc, frame, guard) if st.exc is not None else RuntimeError("re-raise")
        if guard is True:
            if isinstance(exc, type):
                exc = exc()
            raise exc
        self.raised.append((guard, exc))
        return False

    def _s_Assert(self, st, frame, guard):
        c = sym_truth(self._eval(st.test, frame, guard))
        if c is True:
            return guard
        bad = sym_and(guard, sym_not(c))
        if bad is True:
            raise AssertionError(self._eval(st.msg, frame, guard) if st.msg else None)
        self.raised.append((bad, AssertionError("assert in interpreted code")))
        return sym_and(guard, c)

    def _s_For(self, st, frame, guard):
        if st.orelse:
            raise Unsupported("for-else")
        it = self._eval(st.iter, frame, guard)
        live = guard
        for item in it:
            if live is False:
                break
            self._assign(st.target, item, frame, live)
            live = self._block(st.body, frame, live)
        return live

    def _s_While(self, st, frame, guard):
        if st.orelse:
            raise Unsupported("while-else")
        live = guard
        n = 0
        while True:
            c = sym_truth(self._eval(st.test, frame, live))
            if is_sym(c):
                c = bool(c)           # native fork, one iteration at a time
            if not c:
                return live
            live = self._block(st.body, frame, live)
            if live is False:
                return False
            n += 1
            if n > 100000:
                raise Unsupported("while loop does not terminate")

    def _mergeable(self, stmts):
        for st in stmts:
            for node in ast.walk(st):
                if isinstance(node, ast.Call):
                    f = node.func
                    if isinstance(f, ast.Name) and (f.id in PURE_NAMES or f.id in self.effect_names):
                        continue
                    if isinstance(f, ast.Attribute) and f.attr in PURE_METHODS:
                        continue
                    return False
                if isinstance(node, (ast.While, ast.Try, ast.With, ast.Global, ast.Nonlocal, ast.Delete,
                                     ast.Break, ast.Continue, ast.Yield, ast.Await)):
                    return False
                if isinstance(node, (ast.Assign, ast.AugAssign)):
                    tgts = node.targets if isinstance(node, ast.Assign) else [node.target]
                    for t in tgts:
                        for sub in ast.walk(t):
                            if isinstance(sub, (ast.Attribute, ast.Subscript)):
                                return False
        return True

    def _merge_value(self, c, a, b):
        try:
            return sym_ite(c, a, b)
        except Unsupported:
            raise

    def _branch(self, cond, then, orelse, frame, guard):
        """Two-way conditional with merging. `then`/`orelse` are callables(frame, guard) -> live."""
        c = sym_truth(cond)
        if not is_sym(c):
            return (then if c else orelse)(frame, guard)
        env0 = frame.env
        env_t = dict(env0)
        env_f = dict(env0)
        frame.env = env_t
        live_t = self._arm(c, lambda: then(frame, sym_and(guard, c)), False)
        env_t = frame.env          # (a nested merge replaces frame.env)
        frame.env = env_f
        nc = sym_not(c)
        live_f = self._arm(nc, lambda: orelse(frame, sym_and(guard, nc)), False)
        env_f = frame.env
        if live_t is False and live_f is False:
            frame.env = env0
            return False
        if live_t is False:
            frame.env = env_f
            return live_f
        if live_f is False:
            frame.env = env_t
            return live_t
        merged = {}
        for k in env_t.keys() | env_f.keys():
            if k in env_t and k in env_f:
                a, b = env_t[k], env_f[k]
                if a is b:
                    merged[k] = a
                else:
                    try:
                        merged[k] = sym_ite(c, a, b)
                    except Unsupported:
                        merged[k] = _Poison(k)
            elif k in env_t:
                merged[k] = env_t[k]
            else:
                merged[k] = env_f[k]
        frame.env = merged
        return sym_or(live_t, live_f)

    def _s_If(self, st, frame, guard):
        cond = self._eval(st.test, frame, guard)
        c = sym_truth(cond)
        if is_sym(c) and not (self._mergeable(st.body) and self._mergeable(st.orelse)):
            c = bool(c)     # fork natively
        return self._branch(c, lambda f, g: self._block(st.body, f, g),
                            lambda f, g: self._block(st.orelse, f, g), frame, guard)

    def _pattern_cond(self, pat, subject, frame, guard):
        if isinstance(pat, ast.MatchValue):
            return subject == self._eval(pat.value, frame, guard)
        if isinstance(pat, ast.MatchOr):
            c = False
            for p in pat.patterns:
                c = sym_or(c, self._pattern_cond(p, subject, frame, guard))
            return c
        if isinstance(pat, ast.MatchAs) and pat.pattern is None and pat.name is None:
            return True
        if isinstance(pat, ast.MatchSingleton):
            return subject is pat.value
        raise Unsupported(f"match pattern {type(pat).__name__}")

    def _s_Match(self, st, frame, guard):
        subject = self._eval(st.subject, frame, guard)
        for case in st.cases:
            if not self._mergeable(case.body):
                raise Unsupported("match arm with unknown calls")

        def chain(i):
            def run(f, g):
                if i == len(st.cases):
                    return g
                case = st.cases[i]
                c = self._pattern_cond(case.pattern, subject, f, g)
                if case.guard is not None:
                    c = sym_and(c, self._eval(case.guard, f, g))
                return self._branch(c, lambda f2, g2: self._block(case.body, f2, g2), chain(i + 1), f, g)
            return run
        return chain(0)(frame, guard)

    # ------------------------------------------------------------------ expressions
    def _lookup(self, name, frame):
        if name in frame.env:
            v = frame.env[name]
            if isinstance(v, _Poison):
                raise Unsupported(f"use of variable {name} merged from incompatible values")
            return v
        if name in frame.globs:
            return frame.globs[name]
        if name in self.overlays:
            return self.overlays[name]
        if name in self.effect_names:
            return _EffectFn(name)
        try:
            return getattr(builtins, name)
        except AttributeError:
            raise NameError(name)

    def _eval(self, node, frame, guard):
        m = getattr(self, "_e_" + type(node).__name__, None)
        if m is None:
            raise Unsupported(f"expression {type(node).__name__}")
        return m(node, frame, guard)

    def _e_Constant(self, node, frame, guard):
        return node.value

    def _e_Name(self, node, frame, guard):
        return self._lookup(node.id, frame)

    def _e_BinOp(self, node, frame, guard):
        a = self._eval(node.left, frame, guard)
        b = self._eval(node.right, frame, guard)
        return _BINOPS[type(node.op)](a, b)

    def _e_UnaryOp(self, node, frame, guard):
        v = self._eval(node.operand, frame, guard)
        if isinstance(node.op, ast.Not):
            return sym_not(sym_truth(v))
        if isinstance(node.op, ast.USub):
            return -v
        if isinstance(node.op, ast.Invert):
            return ~v
        return +v

    def _e_BoolOp(self, node, frame, guard):
        is_and = isinstance(node.op, ast.And)
        vals = []
        acc_guard = guard
        result = None
        # Python semantics: `a and b` returns a if a is falsy else b. We only merge when every
        # operand is boolean-like; otherwise fall back to native (forking) evaluation order.
        cur = self._eval(node.values[0], frame, guard)
        for nxt in node.values[1:]:
            t = sym_truth(cur)
            if not is_sym(t):
                if bool(t) != is_and:
                    return cur
                cur = self._eval(nxt, frame, guard)
                continue
            # symbolic truth: evaluate the next operand under the assumption that we get there
            cont = t if is_and else sym_not(t)
            with explore.scope(cont.term):
                nv = self._eval(nxt, frame, sym_and(guard, cont))
            if not (type(cur) in (SymBool, bool) and type(nv) in (SymBool, bool)):
                # value-returning and/or on non-booleans: a and b == ite(truth(a), b, a)
                cur = sym_ite(t, nv, cur) if is_and else sym_ite(t, cur, nv)
            else:
                cur = sym_and(cur, nv) if is_and else sym_or(cur, nv)
        return cur

    def _e_Compare(self, node, frame, guard):
        left = self._eval(node.left, frame, guard)
        result = True
        for op, rnode in zip(node.ops, node.comparators):
            right = self._eval(rnode, frame, guard)
            r = _CMPOPS[type(op)](left, right)
            result = r if result is True else sym_and(result, r)
            if result is False:
                return False
            left = right
        return result

    def _e_IfExp(self, node, frame, guard):
        c = sym_truth(self._eval(node.test, frame, guard))
        if not is_sym(c):
            return self._eval(node.body if c else node.orelse, frame, guard)
        a = self._arm(c, lambda: self._eval(node.body, frame, sym_and(guard, c)), _DEAD)
        nc = sym_not(c)
        b = self._arm(nc, lambda: self._eval(node.orelse, frame, sym_and(guard, nc)), _DEAD)
        if a is _DEAD:
            return b
        if b is _DEAD:
            return a
        return sym_ite(c, a, b)

    def _arm(self, cond, thunk, dead):
        """Run `thunk` assuming `cond`.  An exception inside an arm whose condition is infeasible on this
        path (a dead arm: e.g. the else of `0 if x == 0 else a // x` when x is 0 throughout) is dropped."""
        try:
            with explore.scope(cond.term):
                return thunk()
        except Exception:
            with explore.scope(cond.term):
                if explore.CURRENT.may_hold(z3.BoolVal(True)):
                    raise
            return dead

    def _e_Attribute(self, node, frame, guard):
        return getattr(self._eval(node.value, frame, guard), node.attr)

    def _e_Subscript(self, node, frame, guard):
        v = self._eval(node.value, frame, guard)
        i = self._eval(node.slice, frame, guard)
        if isinstance(v, FormatToken):
            return _token_getitem(v, i)
        return v[i]

    def _e_Slice(self, node, frame, guard):
        ev = lambda n: None if n is None else self._eval(n, frame, guard)
        return slice(ev(node.lower), ev(node.upper), ev(node.step))

    def _e_Tuple(self, node, frame, guard):
        return tuple(self._eval(e, frame, guard) for e in node.elts)

    def _e_List(self, node, frame, guard):
        return [self._eval(e, frame, guard) for e in node.elts]

    def _e_Dict(self, node, frame, guard):
        return {self._eval(k, frame, guard): self._eval(v, frame, guard) for k, v in zip(node.keys, node.values)}

    def _e_ListComp(self, node, frame, guard):
        if len(node.generators) != 1 or node.generators[0].is_async:
            raise Unsupported("comprehension")
        g = node.generators[0]
        out = []
        saved = dict(frame.env)
        for item in self._eval(g.iter, frame, guard):
            self._assign(g.target, item, frame, guard)
            ok = True
            for cond in g.ifs:
                c = sym_truth(self._eval(cond, frame, guard))
                if is_sym(c):
                    c = bool(c)
                if not c:
                    ok = False
                    break
            if ok:
                out.append(self._eval(node.elt, frame, guard))
        frame.env = saved
        return out

    _e_GeneratorExp = _e_ListComp

    def _e_JoinedStr(self, node, frame, guard):
        parts = [self._eval(v, frame, guard) for v in node.values]
        if len(parts) == 1 and isinstance(parts[0], FormatToken):
            return parts[0]
        return "".join(parts)

    def _e_FormattedValue(self, node, frame, guard):
        v = self._eval(node.value, frame, guard)
        spec = "" if node.format_spec is None else self._eval(node.format_spec, frame, guard)
        if node.conversion == ord("r"):
            v = repr(v)
        elif node.conversion == ord("s"):
            v = str(v)
        if is_sym(v) and isinstance(spec, FormatToken):
            raise Unsupported("symbolic format spec")
        return format(v, spec)

    def _e_Lambda(self, node, frame, guard):
        raise Unsupported("lambda creation in interpreted code")

    def _e_Call(self, node, frame, guard):
        fn = self._eval(node.func, frame, guard)
        args = []
        for a in node.args:
            if isinstance(a, ast.Starred):
                args.extend(self._eval(a.value, frame, guard))
            else:
                args.append(self._eval(a, frame, guard))
        kwargs = {}
        for k in node.keywords:
            if k.arg is None:
                kwargs.update(self._eval(k.value, frame, guard))
            else:
                kwargs[k.arg] = self._eval(k.value, frame, guard)
        if isinstance(fn, _EffectFn):
            self.effects.append(Effect(fn.name, guard, tuple(args), kwargs))
            return None
        name = getattr(fn, "__name__", None)
        if name in self.effect_names and isinstance(fn, (types.FunctionType, types.BuiltinFunctionType)):
            self.effects.append(Effect(name, guard, tuple(args), kwargs))
            return None
        if fn is bool:
            return sym_bool(*args)
        if fn is int:
            return sym_int(*args, **kwargs)
        if self._should_inline(fn):
            return self._call_function(fn, args, kwargs, guard)
        return fn(*args, **kwargs)


class _EffectFn:
    def __init__(self, name):
        self.name = name


class _Poison:
    def __init__(self, name):
        self.name = name


def parse_function_source(src):
    """ast.FunctionDef of the single `def` in `src` (generated code)."""
    tree = ast.parse(src)
    fdefs = [n for n in tree.body if isinstance(n, ast.FunctionDef)]
    if len(fdefs) != 1:
        raise Unsupported("expected exactly one function definition")
    return fdefs[0]
