"""Path exploration by depth-first re-execution with a decision prefix.

`explore(fn)` runs `fn` repeatedly; whenever the code under analysis needs a concrete truth value
(`bool()` of a SymBool) or a concrete integer (`__index__`/`__hash__` of a SymInt) the explorer
consults the solver: if the path condition decides it there is no fork; otherwise the current run
takes one side and the others are queued.  Engine-control exceptions derive from BaseException
because the code under analysis contains `except Exception`.
"""
import time
import z3


import re as _re
_DIGITS = _re.compile(r"\d+")


class Inconclusive(BaseException):
    """Budget exhausted or solver said unknown: never counted as a pass."""


class HarnessError(BaseException):
    """The verification machinery itself misbehaved (exit code 3, never a VIOLATION)."""


class _Abort(BaseException):
    """Abandon the current path (infeasible)."""


class Stats:
    def __init__(self):
        self.queries = 0
        self.solver_s = 0.0
        self.paths = 0

    def snapshot(self):
        return (self.queries, self.solver_s, self.paths)

    def as_dict(self):
        return {"solver_queries": self.queries, "solver_s": round(self.solver_s, 3), "paths": self.paths}


GLOBAL_STATS = Stats()
CURRENT = None
SOLVER_TIMEOUT_MS = 120_000


class Path:
    __slots__ = ("pc", "value", "exc")

    def __init__(self, pc, value, exc):
        self.pc, self.value, self.exc = pc, value, exc

    def pc_term(self):
        return z3.And(*self.pc) if self.pc else z3.BoolVal(True)


def timed_check(solver, *assumptions):
    t0 = time.perf_counter()
    r = solver.check(*assumptions)
    GLOBAL_STATS.queries += 1
    GLOBAL_STATS.solver_s += time.perf_counter() - t0
    return r


# trace entries:
#   ["b", value, kind]            kind: "open" (other side pending) | "closed" | "implied"
#   ["c", value, last, tried]      concretise: `tried` = values already explored by siblings
#   ["c?", tried]                  (prefix only) concretise must pick a value outside `tried`

def _fp(term):
    """Fingerprint of a decision (cheap: the AST hash; the term itself is kept for the rare mismatch)."""
    return (term.hash(), None, term)


def _same_question(old, term, solver, scope_terms):
    """Re-execution must ask the same question at the same place.  Harnesses may number fresh variables per run and the
    code under analysis may build a term in another operand order: only a semantically different question is an error."""
    if old[0] == term.hash():
        return True
    a, b = str(old[2])[:2000], str(term)[:2000]
    if _DIGITS.sub("#", a) == _DIGITS.sub("#", b):
        return True
    return timed_check(solver, *scope_terms, old[2] != term) == z3.unsat


class Explorer:
    def __init__(self, assumptions=(), max_paths=20000, max_seconds=600.0, max_realise=4096):
        self.assumptions = list(assumptions)
        self.max_paths = max_paths
        self.max_seconds = max_seconds
        self.max_realise = max_realise
        self.solver = z3.Solver()
        self.prefix = []
        self.trace = []
        self.pc = []
        self.scope_terms = []

    def _check(self, *terms):
        r = timed_check(self.solver, *self.scope_terms, *terms)
        if r == z3.unknown:
            raise Inconclusive("solver returned unknown on a feasibility query")
        return r == z3.sat

    def _commit(self, term):
        self.pc.append(term)
        self.solver.add(term)

    def branch(self, term):
        if not (z3.is_true(term) or z3.is_false(term)):
            term = z3.simplify(term)
        if z3.is_true(term):
            return True
        if z3.is_false(term):
            return False
        i = len(self.trace)
        if i < len(self.prefix):
            ent = self.prefix[i]
            if ent[0] != "b":
                raise HarnessError("non-deterministic replay")
            # re-execution must ask the same question at the same place (iteration over an unordered container of fresh
            # objects in the code under analysis would break this silently)
            if len(ent) > 3 and ent[3] is not None and not _same_question(ent[3], term, self.solver, self.scope_terms):
                raise HarnessError(f"non-deterministic replay: decision {i} was about {str(ent[3][2])[:160]}; now {str(term)[:160]}")
            self.trace.append(ent)
            if ent[2] != "implied":
                self._commit(term if ent[1] else z3.Not(term))
            return ent[1]
        can_t = self._check(term)
        can_f = self._check(z3.Not(term))
        if can_t and can_f:
            # (a fork inside a merged arm becomes a decision for the whole path)
            self.trace.append(["b", True, "open", _fp(term)])
            self._commit(term)
            return True
        if not can_t and not can_f:
            if self.scope_terms:
                # inside a merged arm that is dead on this path: the result is a don't-care
                self.trace.append(["b", False, "implied", _fp(term)])
                return False
            raise _Abort()
        # implied by the path condition (and the enclosing merged arms): nothing to record in pc
        self.trace.append(["b", can_t, "implied", _fp(term)])
        return can_t

    def concretise(self, sym):
        i = len(self.trace)
        tried = []
        if i < len(self.prefix):
            ent = self.prefix[i]
            if ent[0] == "c":
                self.trace.append(ent)
                self._commit(sym.term == ent[1])
                return ent[1]
            if ent[0] != "c?":
                raise HarnessError("non-deterministic replay")
            tried = ent[1]
        if len(tried) >= self.max_realise:
            raise Inconclusive("too many values to realise")
        excl = [sym.term != t for t in tried]
        if not self._check(*excl):
            raise _Abort()
        v = self.solver.model().eval(sym.term, model_completion=True).as_signed_long()
        more = self._check(*excl, sym.term != v)
        self.trace.append(["c", v, not more, list(tried)])
        self._commit(sym.term == v)
        return v

    def may_hold(self, term):
        """Is `term` satisfiable under the current path condition and scopes?  unknown counts as yes."""
        r = timed_check(self.solver, *self.scope_terms, term)
        return r != z3.unsat

    class _Scope:
        def __init__(self, ex, term):
            self.ex, self.term = ex, term

        def __enter__(self):
            self.ex.scope_terms.append(self.term)

        def __exit__(self, *a):
            self.ex.scope_terms.pop()
            return False

    def scope(self, term):
        """Temporary assumption (used by the merging interpreter while inside one arm)."""
        return Explorer._Scope(self, term)

    def _next_prefix(self):
        tr = list(self.trace)
        while tr:
            d = tr.pop()
            if d[0] == "b":
                if d[2] == "open":
                    return tr + [["b", False, "closed", d[3] if len(d) > 3 else None]]
            elif d[0] == "c":
                if not d[2]:
                    return tr + [["c?", d[3] + [d[1]]]]
        return None

    def run(self, fn):
        global CURRENT
        from .values import Unsupported
        paths = []
        t_end = time.perf_counter() + self.max_seconds
        self.prefix = []
        while True:
            if len(paths) >= self.max_paths or time.perf_counter() > t_end:
                raise Inconclusive(f"path budget exhausted after {len(paths)} paths")
            self.solver = z3.Solver()
            self.solver.set("timeout", SOLVER_TIMEOUT_MS)
            for a in self.assumptions:
                self.solver.add(a)
            self.trace = []
            self.pc = []
            self.scope_terms = []
            prev = CURRENT
            CURRENT = self
            value = exc = None
            aborted = False
            try:
                value = fn()
            except _Abort:
                aborted = True
            except (Inconclusive, Unsupported, HarnessError, KeyboardInterrupt, SystemExit):
                raise
            except BaseException as e:  # noqa
                exc = e
            finally:
                CURRENT = prev
            if not aborted:
                paths.append(Path(list(self.pc), value, exc))
                GLOBAL_STATS.paths += 1
            nxt = self._next_prefix()
            if nxt is None:
                return paths
            self.prefix = nxt


def branch(term):
    if CURRENT is None:
        raise RuntimeError("symbolic truth value needed outside an exploration")
    return CURRENT.branch(term)


def concretise(sym):
    if CURRENT is None:
        raise RuntimeError("symbolic integer concretised outside an exploration")
    return CURRENT.concretise(sym)


def scope(term):
    if CURRENT is None:
        raise RuntimeError("scope outside an exploration")
    return CURRENT.scope(term)


def explore(fn, assumptions=(), **kw):
    return Explorer(assumptions, **kw).run(fn)


def run_single(fn, assumptions=()):
    """Run fn expecting exactly one path (no forks); returns its value."""
    paths = explore(fn, assumptions)
    if len(paths) != 1:
        raise Inconclusive(f"expected a single path, got {len(paths)}")
    p = paths[0]
    if p.exc is not None:
        raise p.exc
    return p.value
