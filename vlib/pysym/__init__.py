from .values import *  # noqa
from .values import (SymInt, SymBool, FormatToken, Unsupported, fresh, fresh_range, fresh_bool, sym_ite,
                     sym_not, sym_and, sym_or, sym_truth, same, is_sym, is_intlike, as_symint, bool_term,
                     mk_bool, eval_in_model, sym_eq_term, bounds, term_of, iwidth, sbits)
from .explore import (HarnessError, Explorer, Inconclusive, Path, explore, run_single, GLOBAL_STATS, branch, concretise,
                      scope, timed_check)
