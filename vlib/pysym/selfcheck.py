"""Self-check of the proxy integer encoding: every operator against CPython."""
import itertools
import operator
import random
import z3

from . import values as V
from .explore import explore


def _mk(name, lo, hi):
    w = V.iwidth(lo, hi)
    return V.SymInt(z3.BitVec(name, w), lo, hi)


BINOPS = [operator.add, operator.sub, operator.mul, operator.floordiv, operator.mod, operator.and_,
          operator.or_, operator.xor, operator.lshift, operator.rshift, operator.eq, operator.ne,
          operator.lt, operator.le, operator.gt, operator.ge]
UNOPS = [operator.neg, operator.invert, abs, lambda x: x.bit_length(), lambda x: x.bit_count(),
         lambda x: x * 3, lambda x: 5 - x, lambda x: x & 0x5, lambda x: x | -4, lambda x: -7 // x if x else 0,
         lambda x: 9 % x if x else 0, lambda x: 1 << (x & 7), lambda x: -100 >> (x & 7), lambda x: 2 ** (x & 3)]


def _eval(expr, subst):
    """Evaluate an int-like under a substitution [(var, val)...]."""
    if type(expr) is V.SymInt:
        t = z3.simplify(z3.substitute(expr.term, *subst))
        assert z3.is_bv_value(t), t
        v = t.as_signed_long()
        assert expr.lo <= v <= expr.hi, (expr, v)
        return v
    if type(expr) is V.SymBool:
        t = z3.simplify(z3.substitute(expr.term, *subst))
        assert z3.is_true(t) or z3.is_false(t), t
        return z3.is_true(t)
    return expr


def check_pairs(lo_a, hi_a, lo_b, hi_b, pairs):
    n = 0
    a = _mk("a", lo_a, hi_a)
    b = _mk("b", lo_b, hi_b)
    for op in BINOPS:
        def run():
            return op(a, b)
        try:
            paths = explore(run)
        except V.Unsupported:
            continue
        for (x, y) in pairs:
            subst = [(a.term, z3.BitVecVal(x, a.width)), (b.term, z3.BitVecVal(y, b.width))]
            try:
                want = op(x, y)
                want_exc = None
            except (ZeroDivisionError, ValueError) as e:
                want, want_exc = None, type(e)
            hit = 0
            for p in paths:
                c = z3.simplify(z3.substitute(p.pc_term(), *subst))
                if z3.is_true(c):
                    hit += 1
                    if want_exc is not None:
                        assert type(p.exc) is want_exc, (op, x, y, p.exc)
                    else:
                        assert p.exc is None, (op, x, y, p.exc)
                        got = _eval(p.value, subst)
                        assert got == want and type(got) is type(want), (op, x, y, got, want)
            assert hit == 1, (op, x, y, hit)
            n += 1
    return n


def check_unary(lo, hi, vals):
    n = 0
    a = _mk("a", lo, hi)
    for op in UNOPS:
        paths = explore(lambda: op(a))
        for x in vals:
            subst = [(a.term, z3.BitVecVal(x, a.width))]
            want = op(x)
            hit = 0
            for p in paths:
                if z3.is_true(z3.simplify(z3.substitute(p.pc_term(), *subst))):
                    hit += 1
                    assert p.exc is None, (op, x, p.exc)
                    got = _eval(p.value, subst)
                    assert got == want, (op, x, got, want)
            assert hit == 1, (op, x, hit)
            n += 1
    return n


def selfcheck(seed=0, wide=300):
    rnd = random.Random(seed)
    n = 0
    r4 = range(-8, 8)
    n += check_pairs(-8, 7, -8, 7, list(itertools.product(r4, r4)))
    n += check_pairs(0, 15, 0, 7, list(itertools.product(range(16), range(8))))
    n += check_pairs(-1, 0, 0, 1, [(-1, 0), (-1, 1), (0, 0), (0, 1)])
    n += check_pairs(0, 1, -1, 0, [(0, -1), (1, -1), (0, 0), (1, 0)])
    n += check_pairs(0, 1, 0, 1, [(0, 0), (1, 1), (0, 1), (1, 0)])
    n += check_pairs(-2, 1, 0, 2, list(itertools.product(range(-2, 2), range(0, 3))))
    n += check_unary(-8, 7, list(r4))
    n += check_unary(0, 15, list(range(16)))
    # wide
    for (la, ha, lb, hb) in [(-2**20, 2**20, -2**9, 2**9), (0, 2**33, 0, 40), (-2**40, -5, 3, 2**13), (-5, 2**17, -3, 9)]:
        pairs = [(rnd.randint(la, ha), rnd.randint(lb, hb)) for _ in range(wide // 4)]
        pairs += [(la, lb), (ha, hb), (la, hb), (ha, lb)]
        n += check_pairs(la, ha, lb, hb, pairs)
    # ite / mixed concrete
    a = _mk("a", -8, 7)
    for x in r4:
        subst = [(a.term, z3.BitVecVal(x, a.width))]
        e = V.sym_ite(a < 2, a * a, 3 - a)
        assert _eval(e, subst) == (x * x if x < 2 else 3 - x)
        e = (10 + a) - (a >> 1) + (7 & a) + (a ^ 5) + (1 - a) * (-2)
        assert _eval(e, subst) == (10 + x) - (x >> 1) + (7 & x) + (x ^ 5) + (1 - x) * (-2)
        n += 2
    return n


if __name__ == "__main__":
    import time
    t = time.time()
    print(selfcheck(), "comparisons ok", round(time.time() - t, 2), "s")
