"""Reading the emitted RTLIL text under its published semantics, as z3 bit-vector terms.

A reader for the RTLIL text grammar Amaranth emits (attributes, module, wire, memory, cell with
parameters and connects, process with nested switch/case/assign, module-level connect, sigspecs with
slices, concatenations and N'bits constants incl. x), hierarchy flattening through submodule cells,
per-bit driver resolution, on-demand combinational evaluation, and state elements.  Cell semantics
follow the Yosys manual / simlib.  Whatever Yosys leaves undefined becomes a fresh unconstrained
variable (division by zero, out-of-range memory reads, x constants); the `$shift` corner with
A_SIGNED reaching past max(A_WIDTH, Y_WIDTH) is recorded in `excluded` (outside the claim).

A structurally uninterpretable document raises RtlilError."""
import re
import z3


class RtlilError(Exception):
    """The document cannot be given a meaning (unknown wire, width mismatch, 0 or 2 drivers, ...)."""


class Unsupported(Exception):
    """Well-formed, but outside what this reader models (e.g. a clock derived through logic)."""


# ------------------------------------------------------------------------------------------ parser
# identifiers (\\name, $name) run up to the next white space, as in Yosys' RTLIL lexer: "\\sig[0]" is one name, "\\sig [0]" a bit select
_TOKEN = re.compile(r'\s*(?:("(?:[^"\\]|\\.)*")|(\d+\'[01xz\-]*)|([{}\[\]:,])|([\\$][^\s]+)|([^\s{}\[\]:,"]+))')


def tokenize(line):
    out = []
    pos = 0
    line = line.strip()
    while pos < len(line):
        m = _TOKEN.match(line, pos)
        if not m:
            raise RtlilError(f"cannot tokenize: {line!r}")
        out.append(m.group(1) or m.group(2) or m.group(3) or m.group(4) or m.group(5))
        pos = m.end()
    return out


class Wire:
    def __init__(self, name, width, kind=None, port_id=None, signed=False, attrs=None):
        self.name, self.width, self.kind, self.port_id, self.signed, self.attrs = name, width, kind, port_id, signed, attrs or {}


class Cell:
    def __init__(self, kind, name, attrs):
        self.kind, self.name, self.attrs = kind, name, attrs
        self.params = {}
        self.ports = {}


class ModuleDef:
    def __init__(self, name, attrs):
        self.name, self.attrs = name, attrs
        self.wires = {}
        self.memories = {}
        self.cells = []
        self.procs = []
        self.connects = []


def parse_const(tok):
    """-> ('const', width, bits_lsb_first_string) or int for plain decimal."""
    if "'" in tok:
        w, bits = tok.split("'")
        w = int(w)
        # as the Yosys RTLIL front end does: surplus digits are dropped from the left, missing ones are
        # filled (with the last digit when it is x/z, else with 0)
        if len(bits) > w:
            bits = bits[len(bits) - w:]
        elif len(bits) < w:
            fill = bits[0] if bits and bits[0] in "xz" else "0"
            bits = fill * (w - len(bits)) + bits
        return ("const", w, bits[::-1])
    if tok.startswith('"'):
        return ("str", bytes(tok[1:-1], "utf-8").decode("unicode_escape"))
    return ("int", int(tok))


def parse_sigspec(toks, i):
    """Returns (spec, next index). spec: ('const', w, bits) | ('wire', name, lo, hi|None) | ('cat', [specs msb first])."""
    t = toks[i]
    if t == "{":
        parts = []
        i += 1
        while toks[i] != "}":
            p, i = parse_sigspec(toks, i)
            parts.append(p)
        return ("cat", parts), i + 1
    if "'" in t and t[0].isdigit():
        return parse_const(t), i + 1
    if t[0].isdigit() or t[0] == "-":
        v = int(t)
        return ("const", 32, "".join("1" if (v >> k) & 1 else "0" for k in range(32))), i + 1
    name = t
    i += 1
    if i < len(toks) and toks[i] == "[":
        hi = int(toks[i + 1])
        if toks[i + 2] == ":":
            lo = int(toks[i + 3])
            if toks[i + 4] != "]":
                raise RtlilError("bad slice")
            return ("wire", name, lo, hi), i + 5
        if toks[i + 2] != "]":
            raise RtlilError("bad index")
        return ("wire", name, hi, hi), i + 3
    return ("wire", name, None, None), i


def parse(text):
    mods = {}
    lines = [l for l in text.split("\n")]
    attrs = {}
    cur = None
    stack = []          # nested: cell / process / switch / case
    for raw in lines:
        toks = tokenize(raw)
        if not toks:
            continue
        k = toks[0]
        if k == "attribute":
            attrs[toks[1]] = parse_const(toks[2])
            continue
        if k == "module":
            if cur is not None:
                raise RtlilError("nested module")
            if toks[1] in mods:
                raise RtlilError(f"duplicate module {toks[1]}")
            cur = ModuleDef(toks[1], attrs)
            mods[toks[1]] = cur
            attrs = {}
            continue
        if cur is None:
            raise RtlilError(f"statement outside module: {raw!r}")
        if not stack:
            if k == "end":
                cur = None
            elif k == "wire":
                i = 1
                width, kind, pid, signed = 1, None, None, False
                while i < len(toks) - 1:
                    if toks[i] == "width":
                        width = int(toks[i + 1])
                        i += 2
                    elif toks[i] in ("input", "output", "inout"):
                        kind, pid = toks[i], int(toks[i + 1])
                        i += 2
                    elif toks[i] == "signed":
                        signed = True
                        i += 1
                    else:
                        raise RtlilError(f"bad wire declaration {raw!r}")
                name = toks[-1]
                if name in cur.wires or name in cur.memories:
                    raise RtlilError(f"duplicate name {name} in {cur.name}")
                cur.wires[name] = Wire(name, width, kind, pid, signed, attrs)
                attrs = {}
            elif k == "memory":
                width = int(toks[toks.index("width") + 1])
                size = int(toks[toks.index("size") + 1])
                name = toks[-1]
                if name in cur.wires or name in cur.memories:
                    raise RtlilError(f"duplicate name {name} in {cur.name}")
                cur.memories[name] = (width, size)
                attrs = {}
            elif k == "cell":
                c = Cell(toks[1], toks[2], attrs)
                attrs = {}
                if any(x.name == c.name for x in cur.cells) or c.name in cur.wires:
                    raise RtlilError(f"duplicate name {c.name} in {cur.name}")
                cur.cells.append(c)
                stack.append(("cell", c))
            elif k == "process":
                p = {"name": toks[1], "body": []}
                attrs = {}
                cur.procs.append(p)
                stack.append(("body", p["body"]))
            elif k == "connect":
                lhs, i = parse_sigspec(toks, 1)
                rhs, i = parse_sigspec(toks, i)
                cur.connects.append((lhs, rhs))
            else:
                raise RtlilError(f"unknown statement {raw!r}")
            continue
        top = stack[-1]
        if top[0] == "cell":
            c = top[1]
            if k == "end":
                stack.pop()
            elif k == "parameter":
                i = 1
                signed = False
                if toks[i] in ("signed", "real"):
                    signed = toks[i] == "signed"
                    i += 1
                c.params[toks[i]] = parse_const(toks[i + 1]) + (("signed",) if signed else ())
            elif k == "connect":
                spec, _ = parse_sigspec(toks, 2)
                if toks[1] in c.ports:
                    raise RtlilError(f"cell {c.name}: port {toks[1]} connected twice")
                c.ports[toks[1]] = spec
            else:
                raise RtlilError(f"bad cell line {raw!r}")
            continue
        if top[0] == "body":
            body = top[1]
            if k == "assign":
                lhs, i = parse_sigspec(toks, 1)
                rhs, i = parse_sigspec(toks, i)
                body.append(("assign", lhs, rhs))
            elif k == "switch":
                sel, _ = parse_sigspec(toks, 1) if len(toks) > 1 else (("cat", []), 0)
                sw = ("switch", sel, [])
                body.append(sw)
                stack.append(("switch", sw))
            elif k == "end":
                # `case` has no terminator of its own: inside a case body `end` closes the switch
                if len(stack) >= 2 and stack[-2][0] == "switch":
                    stack.pop()
                stack.pop()
            elif k == "case" and len(stack) >= 2 and stack[-2][0] == "switch":
                # a new case of the enclosing switch
                stack.pop()
                _new_case(stack, toks)
            else:
                raise RtlilError(f"bad process line {raw!r}")
            continue
        if top[0] == "switch":
            if k == "case":
                _new_case(stack, toks)
            elif k == "end":
                stack.pop()
            else:
                raise RtlilError(f"bad switch line {raw!r}")
            continue
    if cur is not None or stack:
        raise RtlilError("unterminated module")
    return mods


def _new_case(stack, toks):
    sw = stack[-1][1]
    pats = []
    i = 1
    while i < len(toks):
        if toks[i] == ",":
            i += 1
            continue
        pats.append(parse_const(toks[i]))
        i += 1
    body = []
    sw[2].append((pats, body))
    stack.append(("body", body))


# ------------------------------------------------------------------------------------------ evaluation
def bv(v, w):
    return z3.BitVecVal(v, w) if w > 0 else None


class ZW:
    """Zero-width helper: we represent zero-width values as None and widths explicitly."""


def cat_terms(parts):
    """parts: list of (term, width) LSB first -> (term, width)."""
    parts = [(t, w) for t, w in parts if w > 0]
    if not parts:
        return None, 0
    if len(parts) == 1:
        return parts[0]
    return z3.Concat(*[t for t, _ in reversed(parts)]), sum(w for _, w in parts)


def extract(term, width, lo, hi):
    if hi < lo:
        return None, 0
    if lo < 0 or hi >= width:
        raise RtlilError(f"slice [{hi}:{lo}] outside a {width}-bit value")
    if lo == 0 and hi == width - 1:
        return term, width
    return z3.Extract(hi, lo, term), hi - lo + 1


def resize(term, w, to, signed):
    if to == 0:
        return None
    if w == 0:
        return z3.BitVecVal(0, to)
    if to == w:
        return term
    if to < w:
        return z3.Extract(to - 1, 0, term)
    return z3.SignExt(to - w, term) if signed else z3.ZeroExt(to - w, term)


class Design:
    """A flattened design ready for symbolic evaluation."""
    def __init__(self, text, top=None):
        self.mods = parse(text)
        tops = [m for m in self.mods.values() if "\\top" in m.attrs]
        if top is None:
            if len(tops) != 1:
                raise RtlilError(f"{len(tops)} top modules")
            top = tops[0].name
        self.top = top
        self.wires = {}       # flat name -> width
        self.wire_info = {}   # flat name -> Wire
        self.memories = {}    # flat name -> (width, size)
        self.cells = []       # (flat name, kind, params, ports{port: flatspec})
        self.drivers = {}     # (wire, bit) -> driver descriptor
        self.inputs = []      # top-level input wire names (flat)
        self.outputs = []
        self.fresh_n = 0
        self.excluded = []    # z3 Bools: corners outside the claim that the evaluation touched
        self._flatten(top, "")
        self._resolve_drivers()

    # -- flattening
    def _flat(self, prefix, name):
        return prefix + name

    def _spec(self, prefix, spec, mod):
        k = spec[0]
        if k == "const":
            return spec
        if k == "wire":
            name = spec[1]
            if name not in mod.wires:
                raise RtlilError(f"module {mod.name}: reference to undeclared wire {name}")
            w = mod.wires[name].width
            lo, hi = spec[2], spec[3]
            if lo is None:
                lo, hi = 0, w - 1
            if hi < lo - 1 or lo < 0 or hi >= w:
                raise RtlilError(f"module {mod.name}: slice {name}[{hi}:{lo}] outside wire of width {w}")
            return ("wire", self._flat(prefix, name), lo, hi)
        return ("cat", [self._spec(prefix, p, mod) for p in spec[1]])

    def spec_width(self, spec):
        k = spec[0]
        if k == "const":
            return spec[1]
        if k == "wire":
            return spec[3] - spec[2] + 1
        return sum(self.spec_width(p) for p in spec[1])

    def _flatten(self, modname, prefix):
        if modname not in self.mods:
            raise RtlilError(f"reference to undefined module {modname}")
        mod = self.mods[modname]
        for w in mod.wires.values():
            fn = self._flat(prefix, w.name)
            self.wires[fn] = w.width
            self.wire_info[fn] = w
            if prefix == "" and w.kind == "input":
                self.inputs.append(fn)
            if prefix == "" and w.kind == "output":
                self.outputs.append(fn)
        pids = sorted(w.port_id for w in mod.wires.values() if w.kind is not None)
        if pids != list(range(len(pids))):
            raise RtlilError(f"module {mod.name}: port indices {pids} are not unique and dense")
        for name, (width, size) in mod.memories.items():
            self.memories[self._flat(prefix, name)] = (width, size)
        for lhs, rhs in mod.connects:
            l, r = self._spec(prefix, lhs, mod), self._spec(prefix, rhs, mod)
            if self.spec_width(l) != self.spec_width(r):
                raise RtlilError(f"module {mod.name}: connect width mismatch {self.spec_width(l)} vs {self.spec_width(r)}")
            self.cells.append((f"{prefix}$connect{len(self.cells)}", "$connect", {}, {"L": l, "R": r}))
        for p in mod.procs:
            self.cells.append((self._flat(prefix, p["name"]), "$process", {}, {"body": self._proc(prefix, p["body"], mod)}))
        for c in mod.cells:
            if c.kind.startswith("\\"):
                sub = self.mods.get(c.kind)
                if sub is None:
                    raise Unsupported(f"foreign instance {c.kind}")
                sp = prefix + c.name[1:] + "."
                self._flatten(c.kind, sp)
                subports = {w.name for w in sub.wires.values() if w.kind is not None}
                if set(c.ports) != subports:
                    raise RtlilError(f"cell {c.name}: connects {sorted(c.ports)} but module {c.kind} declares ports {sorted(subports)}")
                for pname, spec in c.ports.items():
                    pw = sub.wires[pname]
                    outer = self._spec(prefix, spec, mod)
                    if self.spec_width(outer) != pw.width:
                        raise RtlilError(f"cell {c.name}: port {pname} has width {pw.width}, connected to {self.spec_width(outer)} bits")
                    inner = ("wire", sp + pname, 0, pw.width - 1)
                    if pw.kind == "input":
                        self.cells.append((f"{sp}$in{pname}", "$connect", {}, {"L": inner, "R": outer}))
                    elif pw.kind == "output":
                        self.cells.append((f"{sp}$out{pname}", "$connect", {}, {"L": outer, "R": inner}))
                    else:
                        # inout: the pad is driven from inside when something in the submodule drives the port wire
                        # (a $tribuf), and only observed otherwise
                        driven_inside = False
                        for (cn, ck, cp, cports) in self.cells:
                            if not cn.startswith(sp):
                                continue
                            outs = [cports["L"]] if ck == "$connect" else [cports[o] for o in self.OUT_PORTS.get(ck, ["\\Y"]) if o in cports] \
                                if ck not in ("$process", "$meminit_v2", "$memwr_v2") else []
                            for sp_ in outs:
                                if any(wb[0] == sp + pname for wb in self._lhs_bits(sp_)):
                                    driven_inside = True
                        if driven_inside:
                            self.cells.append((f"{sp}$io{pname}", "$connect", {}, {"L": outer, "R": inner}))
                        else:
                            self.cells.append((f"{sp}$io{pname}", "$connect", {}, {"L": inner, "R": outer}))
            else:
                ports = {n: self._spec(prefix, s, mod) for n, s in c.ports.items()}
                params = dict(c.params)
                if "\\MEMID" in params:
                    mem = params["\\MEMID"][1]
                    if mem not in mod.memories:
                        raise RtlilError(f"cell {c.name}: unknown memory {mem}")
                    params["\\MEMID"] = ("str", self._flat(prefix, mem))
                self.cells.append((self._flat(prefix, c.name), c.kind, params, ports))

    def _proc(self, prefix, body, mod):
        out = []
        for st in body:
            if st[0] == "assign":
                l, r = self._spec(prefix, st[1], mod), self._spec(prefix, st[2], mod)
                if self.spec_width(l) != self.spec_width(r):
                    raise RtlilError(f"module {mod.name}: process assignment width mismatch")
                out.append(("assign", l, r))
            else:
                sel = self._spec(prefix, st[1], mod)
                cases = []
                for pats, b in st[2]:
                    for p in pats:
                        if p[1] != self.spec_width(sel):
                            raise RtlilError(f"module {mod.name}: case pattern width {p[1]} for a {self.spec_width(sel)}-bit switch")
                    cases.append((pats, self._proc(prefix, b, mod)))
                out.append(("switch", sel, cases))
        return out

    # -- drivers
    OUT_PORTS = {"$dff": ["\\Q"], "$adff": ["\\Q"], "$memrd_v2": ["\\DATA"], "$tribuf": ["\\Y"], "$anyconst": ["\\Y"], "$anyseq": ["\\Y"],
                 "$initstate": ["\\Y"]}

    def _lhs_bits(self, spec):
        """Bits (wire, idx) LSB first of an lvalue spec."""
        k = spec[0]
        if k == "wire":
            return [(spec[1], i) for i in range(spec[2], spec[3] + 1)]
        if k == "cat":
            out = []
            for p in reversed(spec[1]):
                out.extend(self._lhs_bits(p))
            return out
        raise RtlilError("constant on the left-hand side")

    def _proc_lhs(self, body, acc):
        for st in body:
            if st[0] == "assign":
                acc.update(self._lhs_bits(st[1]))
            else:
                for _, b in st[2]:
                    self._proc_lhs(b, acc)

    def _resolve_drivers(self):
        def drive(bit, d):
            if bit[0] not in self.wires:
                raise RtlilError(f"driver of unknown wire {bit[0]}")
            if bit in self.drivers:
                raise RtlilError(f"wire bit {bit[0]}[{bit[1]}] has two drivers ({self.drivers[bit][0]} and {d[0]})")
            self.drivers[bit] = d
        for name in self.inputs:
            for i in range(self.wires[name]):
                drive((name, i), ("$input", name, i))
        for ci, (name, kind, params, ports) in enumerate(self.cells):
            if kind == "$connect":
                for j, bit in enumerate(self._lhs_bits(ports["L"])):
                    drive(bit, ("$connect", ci, j))
            elif kind == "$process":
                acc = set()
                self._proc_lhs(ports["body"], acc)
                for bit in sorted(acc):
                    drive(bit, ("$process", ci, bit))
            elif kind in ("$meminit_v2", "$memwr_v2", "$print", "$check"):
                pass
            else:
                outs = self.OUT_PORTS.get(kind, ["\\Y"])
                for o in outs:
                    if o not in ports:
                        raise RtlilError(f"cell {name} ({kind}) lacks output port {o}")
                    for j, bit in enumerate(self._lhs_bits(ports[o])):
                        drive(bit, (kind, ci, j))

    # -- symbolic evaluation
    def fresh(self, w, hint="u"):
        self.fresh_n += 1
        return z3.BitVec(f"rtlil_{hint}{self.fresh_n}", w)

    def evaluator(self, inputs, state):
        """inputs: {top input wire: term}; state: {'dff': {cell name: term}, 'mem': {mem name: [row terms]},
        'memrd': {cell name: term}}."""
        return Evaluator(self, inputs, state)

    def state_cells(self):
        out = {"dff": [], "memrd": [], "memwr": [], "meminit": []}
        for ci, (name, kind, params, ports) in enumerate(self.cells):
            if kind in ("$dff", "$adff"):
                out["dff"].append(ci)
            elif kind == "$memrd_v2":
                if _pint(params, "\\CLK_ENABLE"):
                    out["memrd"].append(ci)
            elif kind == "$memwr_v2":
                out["memwr"].append(ci)
            elif kind == "$meminit_v2":
                out["meminit"].append(ci)
        return out

    def initial_memory(self, mem):
        width, size = self.memories[mem]
        rows = [0] * size
        for (name, kind, params, ports) in self.cells:
            if kind == "$meminit_v2" and params["\\MEMID"][1] == mem:
                words = _pint(params, "\\WORDS")
                data = ports["\\DATA"]
                addr = ports["\\ADDR"]
                a0 = _const_value(addr) if self.spec_width(addr) else 0
                dv = _const_value(data)
                en = _const_value(ports["\\EN"])
                for k in range(words):
                    v = (dv >> (k * width)) & ((1 << width) - 1)
                    if 0 <= a0 + k < size:
                        rows[a0 + k] = (rows[a0 + k] & ~en) | (v & en)
        return rows


def _pint(params, name, default=0):
    p = params.get(name)
    if p is None:
        return default
    if p[0] == "int":
        return p[1]
    if p[0] == "const":
        bits = p[2]
        if any(c not in "01" for c in bits):
            return None
        v = int(bits[::-1] or "0", 2)
        if len(p) > 3 and p[3] == "signed" and bits and bits[-1] == "1":
            v -= 1 << p[1]
        return v
    return p[1]


def _const_value(spec):
    if spec[0] == "const":
        if any(c not in "01" for c in spec[2]):
            raise Unsupported("x in a constant that must be defined")
        return int(spec[2][::-1] or "0", 2)
    if spec[0] == "cat":
        v, off = 0, 0
        for p in reversed(spec[1]):
            v |= _const_value(p) << off
            off += p[1] if p[0] == "const" else 0
        return v
    raise Unsupported("non-constant where a constant is required")


class Evaluator:
    def __init__(self, design, inputs, state):
        self.d = design
        self.inputs = inputs
        self.state = state
        self.memo = {}
        self.busy = set()
        self.cellmemo = {}

    # wire values
    def wire(self, name):
        """Full-width term of a wire."""
        w = self.d.wires[name]
        parts = [(self.bit(name, i), 1) for i in range(w)]
        # merge adjacent extracts of the same term when possible (keeps terms small)
        return _merge_bits(parts)

    def bit(self, name, i):
        key = (name, i)
        if key in self.memo:
            return self.memo[key]
        if key in self.busy:
            raise RtlilError(f"combinational cycle through {name}[{i}]")
        d = self.d.drivers.get(key)
        if d is None:
            info = self.d.wire_info.get(name)
            if info is not None and info.kind == "inout":
                t = self.d.fresh(1, "inout")
                self.memo[key] = t
                return t
            raise RtlilError(f"wire bit {name}[{i}] has no driver")
        self.busy.add(key)
        try:
            t = self._drive(d)
        finally:
            self.busy.discard(key)
        self.memo[key] = t
        return t

    def _drive(self, d):
        kind = d[0]
        if kind == "$input":
            term = self.inputs[d[1]]
            return z3.Extract(d[2], d[2], term)
        if kind == "$connect":
            name, _, params, ports = self.d.cells[d[1]]
            return self.spec_bit(ports["R"], d[2])
        if kind == "$process":
            vals = self.process(d[1])
            return vals[d[2]]
        term, w = self.cell_output(d[1])
        return z3.Extract(d[2], d[2], term)

    def spec(self, spec):
        """(term, width) of an rvalue spec."""
        k = spec[0]
        if k == "const":
            w, bits = spec[1], spec[2]
            if w == 0:
                return None, 0
            if any(c not in "01" for c in bits):
                parts = []
                for c in bits:
                    parts.append((z3.BitVecVal(int(c), 1), 1) if c in "01" else (self.d.fresh(1, "x"), 1))
                return cat_terms(parts)
            return z3.BitVecVal(int(bits[::-1], 2), w), w
        if k == "wire":
            parts = [(self.bit(spec[1], i), 1) for i in range(spec[2], spec[3] + 1)]
            t = _merge_bits(parts)
            return t, len(parts)
        return cat_terms([self.spec(p) for p in reversed(spec[1])])

    def spec_bit(self, spec, j):
        k = spec[0]
        if k == "wire":
            return self.bit(spec[1], spec[2] + j)
        if k == "const":
            c = spec[2][j]
            return z3.BitVecVal(int(c), 1) if c in "01" else self.d.fresh(1, "x")
        off = 0
        for p in reversed(spec[1]):
            w = self.d.spec_width(p)
            if j < off + w:
                return self.spec_bit(p, j - off)
            off += w
        raise RtlilError("bit index outside sigspec")

    # processes
    def process(self, ci):
        if ci in self.cellmemo:
            return self.cellmemo[ci]
        name, _, params, ports = self.d.cells[ci]
        env = {}
        self._run_body(ports["body"], z3.BoolVal(True), env)
        self.cellmemo[ci] = env
        return env

    def _run_body(self, body, guard, env):
        # RTLIL semantics of a case body (and of a process root): its assignments ("actions") take effect first, then its
        # switches, whatever their order in the text -- the Yosys front end files them into two separate lists
        body = [st for st in body if st[0] == "assign"] + [st for st in body if st[0] != "assign"]
        for st in body:
            if st[0] == "assign":
                bits = self.d._lhs_bits(st[1])
                for j, b in enumerate(bits):
                    v = self.spec_bit(st[2], j)
                    old = env.get(b)
                    if z3.is_true(guard):
                        env[b] = v
                    else:
                        if old is None:
                            old = self.d.fresh(1, "latch")   # assigned only conditionally: not emitted by Amaranth
                        env[b] = z3.If(guard, v, old)
            else:
                sel, sw = self.spec(st[1])
                rest = guard
                for pats, b in st[2]:
                    if not pats:
                        m = z3.BoolVal(True)
                    else:
                        alts = []
                        for p in pats:
                            conds = []
                            for i, c in enumerate(p[2]):
                                if c in "01":
                                    conds.append(z3.Extract(i, i, sel) == z3.BitVecVal(int(c), 1))
                            alts.append(z3.And(*conds) if conds else z3.BoolVal(True))
                        m = z3.Or(*alts) if len(alts) > 1 else alts[0]
                    g = z3.simplify(z3.And(rest, m))
                    if not z3.is_false(g):
                        self._run_body(b, g, env)
                    rest = z3.simplify(z3.And(rest, z3.Not(m)))
                    if z3.is_false(rest):
                        break

    # cells
    def cell_output(self, ci):
        if ci in self.cellmemo:
            return self.cellmemo[ci]
        name, kind, params, ports = self.d.cells[ci]
        r = self._cell(name, kind, params, ports)
        self.cellmemo[ci] = r
        return r

    def _operand(self, ports, params, p):
        t, w = self.spec(ports["\\" + p])
        pw = _pint(params, f"\\{p}_WIDTH")
        if pw is not None and pw != w:
            raise RtlilError(f"port {p} is {w} bits wide but {p}_WIDTH is {pw}")
        return t, w, bool(_pint(params, f"\\{p}_SIGNED"))

    def _cell(self, name, kind, params, ports):
        d = self.d
        if kind in ("$dff", "$adff"):
            w = _pint(params, "\\WIDTH")
            t = self.state["dff"][name]
            return t, w
        if kind == "$memrd_v2":
            mem = params["\\MEMID"][1]
            width, size = d.memories[mem]
            if _pint(params, "\\CLK_ENABLE"):
                return self.state["memrd"][name], width
            addr, aw = self.spec(ports["\\ADDR"])
            return self.mem_read(mem, addr, aw), width
        yw = _pint(params, "\\Y_WIDTH")
        if kind == "$mux":
            w = _pint(params, "\\WIDTH")
            a, _ = self.spec(ports["\\A"])
            b, _ = self.spec(ports["\\B"])
            s, _ = self.spec(ports["\\S"])
            if w == 0:
                return None, 0
            return z3.If(s == 1, b, a), w
        if kind == "$tribuf":
            w = _pint(params, "\\WIDTH")
            a, _ = self.spec(ports["\\A"])
            en, _ = self.spec(ports["\\EN"])
            return z3.If(en == 1, a, d.fresh(w, "z")), w
        if kind in ("$anyconst", "$anyseq"):
            w = _pint(params, "\\WIDTH")
            return d.fresh(w, "any"), w
        if kind == "$initstate":
            return d.fresh(1, "init"), 1
        if kind in ("$not", "$neg", "$pos", "$reduce_and", "$reduce_or", "$reduce_xor", "$reduce_xnor", "$reduce_bool", "$logic_not"):
            a, aw, asg = self._operand(ports, params, "A")
            if kind in ("$not", "$neg", "$pos"):
                if yw == 0:
                    return None, 0
                x = resize(a, aw, yw, asg)
                return {"$not": lambda: ~x, "$neg": lambda: -x, "$pos": lambda: x}[kind](), yw
            if aw == 0:
                bit = {"$reduce_and": 1, "$reduce_or": 0, "$reduce_xor": 0, "$reduce_xnor": 1, "$reduce_bool": 0, "$logic_not": 1}[kind]
                b1 = z3.BitVecVal(bit, 1)
            elif kind == "$reduce_and":
                b1 = z3.If(a == z3.BitVecVal((1 << aw) - 1, aw), z3.BitVecVal(1, 1), z3.BitVecVal(0, 1))
            elif kind in ("$reduce_or", "$reduce_bool"):
                b1 = z3.If(a != 0, z3.BitVecVal(1, 1), z3.BitVecVal(0, 1))
            elif kind == "$logic_not":
                b1 = z3.If(a == 0, z3.BitVecVal(1, 1), z3.BitVecVal(0, 1))
            else:
                x = z3.Extract(0, 0, a)
                for i in range(1, aw):
                    x = x ^ z3.Extract(i, i, a)
                b1 = x if kind == "$reduce_xor" else ~x
            return resize(b1, 1, yw, False), yw
        if kind in ("$add", "$sub", "$mul", "$and", "$or", "$xor", "$xnor", "$divfloor", "$modfloor", "$div", "$mod"):
            a, aw, asg = self._operand(ports, params, "A")
            b, bw, bsg = self._operand(ports, params, "B")
            sg = asg and bsg
            W = max(aw, bw, yw)
            if W == 0:
                return None, 0
            x, y = resize(a, aw, W, sg), resize(b, bw, W, sg)
            if kind in ("$divfloor", "$modfloor", "$div", "$mod"):
                W2 = W + 1
                x2, y2 = resize(x, W, W2, sg), resize(y, W, W2, sg)
                if sg:
                    if kind in ("$div", "$mod"):
                        q, r = x2 / y2, z3.SRem(x2, y2)
                    else:
                        r = z3.SRem(x2, y2)
                        adj = z3.And(r != 0, (r < 0) != (y2 < 0))
                        r = z3.If(adj, r + y2, r)
                        q = (x2 - r) / y2
                else:
                    q, r = z3.UDiv(x2, y2), z3.URem(x2, y2)
                res = q if kind in ("$divfloor", "$div") else r
                res = z3.If(y2 == 0, d.fresh(W2, "div0"), res)
                return resize(res, W2, yw, sg), yw
            res = {"$add": lambda: x + y, "$sub": lambda: x - y, "$mul": lambda: x * y, "$and": lambda: x & y, "$or": lambda: x | y,
                   "$xor": lambda: x ^ y, "$xnor": lambda: ~(x ^ y)}[kind]()
            return resize(res, W, yw, sg), yw
        if kind in ("$eq", "$ne", "$lt", "$le", "$gt", "$ge", "$eqx", "$nex", "$logic_and", "$logic_or"):
            a, aw, asg = self._operand(ports, params, "A")
            b, bw, bsg = self._operand(ports, params, "B")
            sg = asg and bsg
            W = max(aw, bw, 1)
            x, y = resize(a, aw, W, sg), resize(b, bw, W, sg)
            if kind in ("$logic_and", "$logic_or"):
                c = z3.And(x != 0, y != 0) if kind == "$logic_and" else z3.Or(x != 0, y != 0)
            else:
                c = {"$eq": lambda: x == y, "$eqx": lambda: x == y, "$ne": lambda: x != y, "$nex": lambda: x != y,
                     "$lt": lambda: (x < y) if sg else z3.ULT(x, y), "$le": lambda: (x <= y) if sg else z3.ULE(x, y),
                     "$gt": lambda: (x > y) if sg else z3.UGT(x, y), "$ge": lambda: (x >= y) if sg else z3.UGE(x, y)}[kind]()
            return resize(z3.If(c, z3.BitVecVal(1, 1), z3.BitVecVal(0, 1)), 1, yw, False), yw
        if kind in ("$shl", "$sshl", "$shr", "$sshr", "$shift", "$shiftx"):
            a, aw, asg = self._operand(ports, params, "A")
            b, bw, bsg = self._operand(ports, params, "B")
            if yw == 0:
                return None, 0
            if kind in ("$shl", "$sshl", "$shr", "$sshr"):
                W = max(aw, yw)
                x = resize(a, aw, W, asg)
                if bw == 0:
                    return resize(x, W, yw, asg), yw
                # shift amounts are unsigned; an amount >= W shifts everything out
                WW = max(W, bw) + 1
                xx = resize(x, W, WW, asg and kind == "$sshr")
                bb = resize(b, bw, WW, False)
                if kind in ("$shl", "$sshl"):
                    r = xx << bb
                elif kind == "$shr" or not asg:
                    r = z3.LShR(resize(x, W, WW, False), bb)
                else:
                    r = xx >> bb
                return resize(r, WW, yw, False), yw
            # $shift / $shiftx: A >> B (B signed: negative = left shift)
            W = max(aw, yw)
            x = resize(a, aw, W, asg)
            if bw == 0:
                return resize(x, W, yw, False), yw
            WW = max(W, bw) + 2
            xx = resize(x, W, WW, False)
            bs = resize(b, bw, WW, bsg)
            right = z3.LShR(xx, bs)
            if bsg:
                left = xx << (-bs)
                r = z3.If(bs < 0, left, right)
            else:
                r = right
            if asg:
                # Yosys sign-extends A to max(A_WIDTH, Y_WIDTH) only; Amaranth relies on sign fill above that.
                # Selecting bits above that width of a signed operand is outside the claim.
                reach = z3.UGT(bs + z3.BitVecVal(yw, WW), z3.BitVecVal(W, WW)) if not bsg else z3.BoolVal(False)
                self.d.excluded.append(reach)
            return resize(r, WW, yw, False), yw
        raise Unsupported(f"cell type {kind}")

    def mem_read(self, mem, addr, aw):
        width, size = self.d.memories[mem]
        rows = self.state["mem"][mem]
        if width == 0:
            return None
        r = self.d.fresh(width, "oob")        # reads beyond the size are undefined
        if aw == 0:
            if size == 0:
                self.d.excluded.append(z3.BoolVal(True))
            return rows[0] if size > 0 else r
        if size < (1 << aw):
            # "reads beyond the depth are unspecified": such addresses are outside the comparison
            self.d.excluded.append(z3.UGE(addr, z3.BitVecVal(size, aw)))
        for i in reversed(range(size)):
            if i < (1 << aw):
                r = z3.If(addr == z3.BitVecVal(i, aw), rows[i], r)
        return r

    # next state
    def next_state(self, clock_edges, arst_inputs=None):
        """clock_edges: {top input wire name: (old, new)} concrete levels of 1-bit clock inputs that change.
        Returns new state dict (same shape as self.state)."""
        d = self.d
        new = {"dff": dict(self.state["dff"]), "mem": {k: list(v) for k, v in self.state["mem"].items()},
               "memrd": dict(self.state["memrd"])}

        def edge(clkspec, pol):
            # the clock must be a bit of a top-level input (possibly through connects)
            root = self._root(clkspec)
            if root is None:
                return False
            if root[0] == "const":
                return False
            name, idx = root[1], root[2]
            if name not in clock_edges:
                return False
            old, nw = clock_edges[name]
            return old != nw and nw == (1 if pol else 0)
        for ci, (name, kind, params, ports) in enumerate(d.cells):
            if kind in ("$dff", "$adff"):
                w = _pint(params, "\\WIDTH")
                pol = _pint(params, "\\CLK_POLARITY")
                cur = self.state["dff"][name]
                nxt = cur
                if edge(ports["\\CLK"], pol):
                    dt, dw = self.spec(ports["\\D"])
                    if dw != w:
                        raise RtlilError(f"{name}: D is {dw} bits, WIDTH {w}")
                    nxt = dt
                if kind == "$adff":
                    ar, _ = self.spec_after(ports["\\ARST"], clock_edges)
                    apol = _pint(params, "\\ARST_POLARITY")
                    aval = _pint(params, "\\ARST_VALUE")
                    if w:
                        nxt = z3.If(ar == z3.BitVecVal(1 if apol else 0, 1), z3.BitVecVal(aval & ((1 << w) - 1), w), nxt)
                new["dff"][name] = nxt
        # memories: writes in PORTID order (priority masks are 0: colliding writes are excluded by assumption)
        writes = {}
        for ci, (name, kind, params, ports) in enumerate(d.cells):
            if kind == "$memwr_v2":
                mem = params["\\MEMID"][1]
                if not _pint(params, "\\CLK_ENABLE"):
                    raise Unsupported("asynchronous memory write port")
                if edge(ports["\\CLK"], _pint(params, "\\CLK_POLARITY")):
                    writes.setdefault(mem, []).append((_pint(params, "\\PORTID"), ports))
        for mem, lst in writes.items():
            width, size = d.memories[mem]
            # two ports writing the same bits of the same row at the same instant: undefined (PRIORITY_MASK 0)
            for i1 in range(len(lst)):
                for i2 in range(i1):
                    a1, w1 = self.spec(lst[i1][1]["\\ADDR"])
                    a2, w2 = self.spec(lst[i2][1]["\\ADDR"])
                    e1, _ = self.spec(lst[i1][1]["\\EN"])
                    e2, _ = self.spec(lst[i2][1]["\\EN"])
                    if width == 0:
                        continue
                    same = (resize(a1, w1, max(w1, w2), False) == resize(a2, w2, max(w1, w2), False)) if max(w1, w2) else z3.BoolVal(True)
                    d.excluded.append(z3.And(same, (e1 & e2) != 0))
            for pid, ports in sorted(lst, key=lambda x: x[0]):
                addr, aw = self.spec(ports["\\ADDR"])
                data, dw = self.spec(ports["\\DATA"])
                en, ew = self.spec(ports["\\EN"])
                if dw != width or ew != width:
                    raise RtlilError(f"memory {mem}: write port DATA/EN width {dw}/{ew} != {width}")
                if width == 0:
                    continue
                rows = new["mem"][mem]
                for i in range(size):
                    if aw == 0:
                        hit = z3.BoolVal(i == 0)
                    elif i >= (1 << aw):
                        continue
                    else:
                        hit = addr == z3.BitVecVal(i, aw)
                    rows[i] = z3.If(hit, (rows[i] & ~en) | (data & en), rows[i])
        for ci, (name, kind, params, ports) in enumerate(d.cells):
            if kind == "$memrd_v2" and _pint(params, "\\CLK_ENABLE"):
                mem = params["\\MEMID"][1]
                width, size = d.memories[mem]
                if width == 0:
                    continue
                cur = self.state["memrd"][name]
                nxt = cur
                if edge(ports["\\CLK"], _pint(params, "\\CLK_POLARITY")):
                    addr, aw = self.spec(ports["\\ADDR"])
                    en, _ = self.spec(ports["\\EN"])
                    val = self.mem_read(mem, addr, aw)
                    tm = params.get("\\TRANSPARENCY_MASK")
                    tbits = tm[2] if tm and tm[0] == "const" else ""
                    for pid, wports in sorted(writes.get(mem, []), key=lambda x: x[0]):
                        if pid < len(tbits) and tbits[pid] == "1":
                            waddr, waw = self.spec(wports["\\ADDR"])
                            wdata, _ = self.spec(wports["\\DATA"])
                            wen, _ = self.spec(wports["\\EN"])
                            same = (resize(addr, aw, max(aw, waw), False) == resize(waddr, waw, max(aw, waw), False)) if max(aw, waw) else z3.BoolVal(True)
                            val = z3.If(same, (val & ~wen) | (wdata & wen), val)
                    srst, _ = self.spec(ports["\\SRST"])
                    srv = params.get("\\SRST_VALUE")
                    ce_over = _pint(params, "\\CE_OVER_SRST")
                    loaded = z3.If(en == 1, val, cur)
                    if srv is not None and all(c in "01" for c in srv[2]):
                        rv = z3.BitVecVal(int(srv[2][::-1] or "0", 2), width)
                        if ce_over:
                            loaded = z3.If(en == 1, z3.If(srst == 1, rv, val), cur)
                        else:
                            loaded = z3.If(srst == 1, rv, loaded)
                    nxt = loaded
                new["memrd"][name] = nxt
        return new

    def spec_after(self, spec, clock_edges):
        """Value of a 1-bit control spec after the event (for async resets given as top-level inputs)."""
        root = self._root(spec)
        if root is not None and root[0] == "wire" and root[1] in clock_edges:
            return z3.BitVecVal(clock_edges[root[1]][1], 1), 1
        return self.spec(spec)

    def _root(self, spec):
        """Follow connects from a 1-bit spec to ('wire', input name, idx) / ('const', v) / None."""
        for _ in range(64):
            if spec[0] == "const":
                return ("const", spec[2])
            if spec[0] == "cat":
                if len(spec[1]) != 1:
                    return None
                spec = spec[1][0]
                continue
            name, lo, hi = spec[1], spec[2], spec[3]
            if lo != hi:
                return None
            drv = self.d.drivers.get((name, lo))
            if drv is None:
                return None
            if drv[0] == "$input":
                return ("wire", drv[1], drv[2])
            if drv[0] == "$connect":
                _, _, _, ports = self.d.cells[drv[1]]
                r = ports["R"]
                # pick bit drv[2] of r
                spec = _spec_bit_spec(self.d, r, drv[2])
                continue
            return None
        return None


def _spec_bit_spec(design, spec, j):
    if spec[0] == "wire":
        return ("wire", spec[1], spec[2] + j, spec[2] + j)
    if spec[0] == "const":
        return ("const", 1, spec[2][j])
    off = 0
    for p in reversed(spec[1]):
        w = design.spec_width(p)
        if j < off + w:
            return _spec_bit_spec(design, p, j - off)
        off += w
    raise RtlilError("bit index outside sigspec")


def _merge_bits(parts):
    """Concatenate 1-bit terms LSB first, merging runs Extract(i,i,t), Extract(i+1,i+1,t) -> Extract(i+1,i,t)."""
    if not parts:
        return None
    runs = []
    for t, _ in parts:
        if z3.is_app_of(t, z3.Z3_OP_EXTRACT):
            hi, lo = t.params()
            base = t.arg(0)
            if runs and runs[-1][0] is not None and runs[-1][0].eq(base) and runs[-1][2] + 1 == lo:
                runs[-1][2] = hi
                continue
            runs.append([base, lo, hi])
        else:
            runs.append([None, t, None])
    terms = []
    for r in runs:
        if r[0] is None:
            terms.append(r[1])
        elif r[1] == 0 and r[2] == r[0].size() - 1:
            terms.append(r[0])
        else:
            terms.append(z3.Extract(r[2], r[1], r[0]))
    if len(terms) == 1:
        return terms[0]
    return z3.Concat(*reversed(terms))
