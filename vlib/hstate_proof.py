"""Obligations tying the H state classes of symsim to the real state classes.

The real `_PySignalState.update` and `_PyMemoryState.read / write / commit` are executed by CPython
on proxies (forking on every comparison, `in range(...)`, list index and dict lookup) and compared by
z3 with the merged H versions for all values.  The H versions are the array / masked-merge semantics
written directly; a disagreement is replayed on plain ints against a three-line reference and, if the
REAL class deviates from the reference, reported as a violation of the property the memory / signal
semantics belong to (C11)."""
import z3

from amaranth.hdl import Signal, Shape
from amaranth.hdl._mem import MemoryData

from . import symsim
from .pysym import explore, fresh, bool_term, sym_not, sym_or, sym_ite, is_sym, timed_check, eval_in_model
from .run import PROVED, VIOLATION, INCONCLUSIVE, ERROR, UNREPRODUCED


def _neq(a, b):
    if is_sym(a):
        return sym_not(a == b)
    if is_sym(b):
        return sym_not(b == a)
    return a != b


# ---------------------------------------------------------------------------- concrete reference
def ref_memory_ops(depth, width, signed, rows, a0, writes):
    """Plain-int reference: read(a0); then masked writes in order (merged per row), commit."""
    def norm(v):
        v &= (1 << width) - 1
        if signed and width and v >> (width - 1):
            v -= 1 << width
        return v
    out = [rows[a0] if 0 <= a0 < depth else 0]
    new = list(rows)
    for (a, v, m) in writes:
        if 0 <= a < depth:
            cur = new[a]
            val = v if m is None else ((v & m) | (cur & ~m))
            new[a] = norm(val) if signed else val
    queued = any(0 <= a < depth for (a, v, m) in writes)
    return out + new + [(int(any(x != y for x, y in zip(new, rows))) if queued else None)]


def real_memory_ops(depth, width, signed, rows, a0, writes):
    md = MemoryData(shape=Shape(width, signed), depth=depth, init=[])
    real = symsim._RealMemoryState(md, set())
    real.data = list(rows)
    real.write_queue = {}
    out = [real.read(a0)]
    for (a, v, m) in writes:
        real.write(a, v, m)
    changed = None
    if real.write_queue:
        changed = int(bool(real.commit()))
    return out + list(real.data) + [changed]


def _decide(res, paths, inputs, replay_fn):
    for p in paths:
        if p.exc is not None:
            return dict(res, status=ERROR, detail=f"exception: {type(p.exc).__name__}: {p.exc}")
        diffs = [bool_term(_neq(a, b)) for a, b in p.value if _neq(a, b) is not False]
        if not diffs:
            continue
        s = z3.Solver()
        for c in p.pc:
            s.add(c)
        s.add(z3.Or(*diffs))
        r = timed_check(s)
        if r == z3.unknown:
            return dict(res, status=INCONCLUSIVE, detail="solver unknown")
        if r == z3.sat:
            mdl = s.model()
            vals = {k: ([eval_in_model(mdl, x) for x in v] if isinstance(v, list) else eval_in_model(mdl, v)) for k, v in inputs.items()}
            rep = replay_fn(vals)
            if rep["real"] != rep["reference"]:
                return dict(res, status=VIOLATION, detail=f"{res['program']} with {vals}: real class gives {rep['real']}, "
                            f"array semantics give {rep['reference']}", cex=vals, signature={"kind": "state-class", "class": res["program"].split()[0]},
                            replay=dict(rep["replay"], hstate=True, cfg={"shape": (1, False)}))
            return dict(res, status=ERROR, detail=f"the H state class differs from the real one on {vals} although the real one matches "
                        f"the reference: the stub is wrong")
    return dict(res, status=PROVED, paths=len(paths))


def signal_update(width, signed):
    sig = Signal(Shape(width, signed))
    res = {"id": f"hstate-signal-{'s' if signed else 'u'}{width}", "kind": "stub-equivalence", "nontrivial": True,
           "program": f"_PySignalState.update on {'signed' if signed else 'unsigned'}({width})",
           "assertion": "real update(value, mask) leaves the same `next` as the masked merge (HSignalState.update)"}
    masks = (-1, (1 << width) - 1, 0b0110 & ((1 << width) - 1), 0)
    cur = fresh("cur", width, signed)
    val = fresh("val", width, signed)

    def scen():
        real = symsim._RealSignalState(sig, set())
        h = symsim.HSignalState(sig, set())
        out = []
        for mask in masks:
            real.curr = real.next = cur
            h.curr = h.next = cur
            real.update(val, mask)
            h.update(val, mask)
            out.append((real.next, h.next))
        return out

    def replay_fn(v):
        got, want = [], []
        for mask in masks:
            real = symsim._RealSignalState(sig, set())
            real.curr = real.next = v["cur"]
            real.update(v["val"], mask)
            got.append(real.next)
            want.append((v["cur"] & ~mask) | (v["val"] & mask))
        return {"real": got, "reference": want, "replay": {"what": "signal", "width": width, "signed": signed, **v}}
    return _decide(res, explore(scen, max_paths=256), {"cur": cur, "val": val}, replay_fn)


def memory_ops(depth, width, signed):
    md = MemoryData(shape=Shape(width, signed), depth=depth, init=[])
    aw = max(depth.bit_length(), 1) + 1
    res = {"id": f"hstate-memory-d{depth}-{'s' if signed else 'u'}{width}", "kind": "stub-equivalence", "nontrivial": True,
           "program": f"_PyMemoryState read / write+write+commit, depth {depth}, row {'signed' if signed else 'unsigned'}({width})",
           "assertion": "real read()/write()/commit() give the same data as the array semantics (HMemoryState) for all rows, addresses, values, masks"}
    rows = [fresh(f"row{i}", width, signed) for i in range(depth)]
    a0, a1, a2 = fresh("a0", aw, False), fresh("a1", aw, False), fresh("a2", aw, False)
    v1, v2 = fresh("v1", width, False), fresh("v2", width, False)
    m1, m2 = fresh("m1", width, False), fresh("m2", width, False)

    def scen():
        real = symsim._RealMemoryState(md, set())
        h = symsim.HMemoryState(md, set())
        real.data = list(rows)
        h.data = list(rows)
        real.write_queue = {}
        h.write_queue = []
        pairs = [(real.read(a0), h.read(a0))]
        changed_real = None
        for st in (real, h):
            st.write(a1, v1, m1)
            st.write(a2, v2, m2)          # a second, partially masked write: may hit the row the first one wrote
            if st.write_queue:
                ch = st.commit()
                if st is real:
                    changed_real = ch
        for i in range(depth):
            pairs.append((real.data[i], h.data[i]))
        # commit() reports whether ANY row changed (the engine keeps iterating delta cycles while it does)
        if changed_real is not None:
            any_changed = False
            for i in range(depth):
                any_changed = sym_or(any_changed, _neq(h.data[i], rows[i]))
            pairs.append((1 if changed_real else 0, sym_ite(any_changed, 1, 0)))
        return pairs

    def replay_fn(v):
        writes = [(v["a1"], v["v1"], v["m1"]), (v["a2"], v["v2"], v["m2"])]
        return {"real": real_memory_ops(depth, width, signed, v["rows"], v["a0"], writes),
                "reference": ref_memory_ops(depth, width, signed, v["rows"], v["a0"], writes),
                "replay": {"what": "memory", "depth": depth, "width": width, "signed": signed, "rows": v["rows"], "a0": v["a0"], "writes": writes}}
    inputs = {"rows": rows, "a0": a0, "a1": a1, "a2": a2, "v1": v1, "v2": v2, "m1": m1, "m2": m2}
    return _decide(res, explore(scen, max_paths=40000), inputs, replay_fn)


def replay(r):
    if r["what"] == "memory":
        writes = [tuple(w) for w in r["writes"]]
        real = real_memory_ops(r["depth"], r["width"], r["signed"], r["rows"], r["a0"], writes)
        ref = ref_memory_ops(r["depth"], r["width"], r["signed"], r["rows"], r["a0"], writes)
        print(f"_PyMemoryState depth {r['depth']} rows {r['rows']} read({r['a0']}) writes {writes}: real {real}, array semantics {ref}")
        return 1 if real != ref else 0
    print(r)
    return 1


def all_obligations(tier):
    out = []
    for (w, s) in ((3, False), (3, True), (1, True)):
        out.append(("sig", w, s))
    depths = range(0, 4) if tier == "quick" else range(0, 6)
    for d in depths:
        for (w, s) in ((2, False), (2, True)):
            out.append(("mem", d, w, s))
    return out


def run_one(job):
    spec = job["spec"]
    if spec[0] == "sig":
        return [signal_update(spec[1], spec[2])]
    return [memory_ops(spec[1], spec[2], spec[3])]
