"""Proof obligations that the H state classes of symsim compute what the real state classes compute.

The real `_PySignalState.update` and `_PyMemoryState.read / write / commit` are executed by CPython
on proxies (forking on every comparison, `in range(...)`, list index and dict lookup) and compared by
z3 with the merged H versions for all values."""
import z3

from amaranth.hdl import Signal, Shape
from amaranth.hdl._mem import MemoryData

from . import symsim
from .pysym import explore, fresh, bool_term, sym_not, is_sym, timed_check, eval_in_model
from .run import PROVED, VIOLATION, INCONCLUSIVE, ERROR


def _neq(a, b):
    if is_sym(a):
        return sym_not(a == b)
    if is_sym(b):
        return sym_not(b == a)
    return a != b


def _decide(res, paths, pairs_of):
    for p in paths:
        if p.exc is not None:
            return dict(res, status=ERROR, detail=f"exception: {type(p.exc).__name__}: {p.exc}")
        diffs = [bool_term(_neq(a, b)) for a, b in pairs_of(p.value) if _neq(a, b) is not False]
        if not diffs:
            continue
        s = z3.Solver()
        for c in p.pc:
            s.add(c)
        s.add(z3.Or(*diffs))
        r = timed_check(s)
        if r == z3.sat:
            return dict(res, status=ERROR, detail=f"H state differs from the real state class: model {s.model()}")
        if r == z3.unknown:
            return dict(res, status=INCONCLUSIVE, detail="solver unknown")
    return dict(res, status=PROVED, paths=len(paths))


def signal_update(width, signed):
    sig = Signal(Shape(width, signed))
    res = {"id": f"hstate-signal-{'s' if signed else 'u'}{width}", "kind": "stub-equivalence", "nontrivial": True,
           "program": f"_PySignalState.update on {'signed' if signed else 'unsigned'}({width})",
           "assertion": "real update(value, mask) leaves the same `next` as HSignalState.update"}

    def scen():
        real = symsim._RealSignalState(sig, set())
        h = symsim.HSignalState(sig, set())
        cur = fresh("cur", width, signed)
        val = fresh("val", width, signed)
        out = []
        for mask in (-1, (1 << width) - 1, 0b0110 & ((1 << width) - 1), 0):
            real.curr = real.next = cur
            h.curr = h.next = cur
            real.update(val, mask)
            h.update(val, mask)
            out.append((real.next, h.next))
        return out
    return _decide(res, explore(scen, max_paths=256), lambda v: v)


def memory_ops(depth, width, signed):
    md = MemoryData(shape=Shape(width, signed), depth=depth, init=[])
    aw = max(depth.bit_length(), 1) + 1
    res = {"id": f"hstate-memory-d{depth}-{'s' if signed else 'u'}{width}", "kind": "stub-equivalence", "nontrivial": True,
           "program": f"_PyMemoryState read / write+write+commit, depth {depth}, row {'signed' if signed else 'unsigned'}({width})",
           "assertion": "real read()/write()/commit() give the same data as HMemoryState for all rows, addresses, values, masks"}

    def scen():
        real = symsim._RealMemoryState(md, set())
        h = symsim.HMemoryState(md, set())
        rows = [fresh(f"row{i}", width, signed) for i in range(depth)]
        real.data = list(rows)
        h.data = list(rows)
        real.write_queue = {}
        h.write_queue = []
        a0 = fresh("a0", aw, False)
        pairs = [(real.read(a0), h.read(a0))]
        a1, a2 = fresh("a1", aw, False), fresh("a2", aw, False)
        v1, v2 = fresh("v1", width, False), fresh("v2", width, False)
        m1 = fresh("m1", width, False)
        real.write(a1, v1, m1)
        real.write(a2, v2, None if signed else (1 << width) - 1)
        h.write(a1, v1, m1)
        h.write(a2, v2, None if signed else (1 << width) - 1)
        if real.write_queue:
            real.commit()
        if h.write_queue:
            h.commit()
        for i in range(depth):
            pairs.append((real.data[i], h.data[i]))
        return pairs
    return _decide(res, explore(scen, max_paths=20000), lambda v: v)


def all_obligations(tier):
    out = []
    for (w, s) in ((3, False), (3, True), (1, True)):
        out.append(("sig", w, s))
    depths = range(0, 4) if tier == "quick" else range(0, 7)
    for d in depths:
        for (w, s) in ((2, False), (2, True)):
            out.append(("mem", d, w, s))
    return out


def run_one(job):
    spec = job["spec"]
    if spec[0] == "sig":
        return [signal_update(spec[1], spec[2])]
    return [memory_ops(spec[1], spec[2], spec[3])]
