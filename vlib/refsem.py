"""Reference semantics, written independently of Amaranth's evaluators.

Expressions: "the Python operator on the operands' integer values", with the three documented
deviations, and result shapes transcribed from the `Returns` blocks of `Value.*` in hdl/_ast.py and
docs/guide.rst.  Works on Python ints and on pysym proxies alike.
"""
from .pysym import sym_ite, sym_or, sym_and, sym_not, is_sym, as_symint, SymBool


# ---------------------------------------------------------------------------- helpers on ints
def mask(w):
    return (1 << w) - 1


def to_unsigned(v, w):
    return v & mask(w)


def to_signed(v, w):
    """Reinterpret the low w bits of v as a two's complement number (w >= 1)."""
    u = v & mask(w)
    return sym_ite((u >> (w - 1)) != 0, u - (1 << w), u)


def in_shape(v, w, signed):
    """Truncate/reinterpret v to Shape(w, signed)."""
    if w == 0:
        return 0
    return to_signed(v, w) if signed else to_unsigned(v, w)


def b2i(c):
    return sym_ite(c, 1, 0)


def bit(v, i):
    return (v >> i) & 1


def parity(u, w):
    p = 0
    for i in range(w):
        p = p ^ bit(u, i)
    return p


def unify(shapes):
    """Minimal shape containing all shapes (doc: guide.rst 'Operators', _ast.Shape docs)."""
    if not shapes:
        return (0, False)
    if not any(s for _, s in shapes):
        return (max(w for w, _ in shapes), False)
    return (max((w if s else w + 1) for w, s in shapes), True)


def pattern_matches(u, w, pat):
    """pat: str over 01- (MSB first, whitespace removed, len == w) or int."""
    c = True
    for i, ch in enumerate(reversed(pat)):
        if ch == "-":
            continue
        c = sym_and(c, bit(u, i) == int(ch))
    return c


# ---------------------------------------------------------------------------- expressions
class RefError(Exception):
    """The reference semantics says this program is not well-formed (builder must raise too)."""


def ref_eval(node, env):
    """node -> (value, (width, signed)); env: leaf name -> value."""
    k = node[0]
    if k == "sig":
        _, name, w, s = node
        return env[name], (w, s)
    if k == "pyint":
        node = ["const", node[1], None, False]      # an int operand is cast like Const(v)
        k = "const"
    if k == "const":
        _, v, w, s = node
        if w is None:
            # C(v): minimal shape
            # narrowest shape representing v; "0 being one unsigned bit"
            s = v < 0
            w = ((~v).bit_length() + 1) if v < 0 else max(v.bit_length(), 1)
            return v, (w, s)
        return in_shape(v, w, s), (w, s)
    if k in ("neg", "inv", "abs", "bool", "any", "all", "xorr", "as_signed", "as_unsigned"):
        a, (w, s) = ref_eval(node[1], env)
        u = to_unsigned(a, w)
        if k == "neg":
            return -a, (w + 1, True)
        if k == "inv":
            return (~a if s else to_unsigned(~a, w)), (w, s)
        if k == "abs":
            return abs(a), (w, False)
        if k in ("bool", "any"):
            return b2i(a != 0), (1, False)
        if k == "all":
            return b2i(u == mask(w)), (1, False)
        if k == "xorr":
            return parity(u, w), (1, False)
        if k == "as_signed":
            if w == 0:
                raise RefError("as_signed of zero-width value")
            return to_signed(a, w), (w, True)
        if k == "as_unsigned":
            return u, (w, False)
    if k in ("add", "sub", "mul", "floordiv", "mod", "and", "or", "xor", "shl", "shr",
             "eq", "ne", "lt", "le", "gt", "ge"):
        a, (wa, sa) = ref_eval(node[1], env)
        b, (wb, sb) = ref_eval(node[2], env)
        uw, us = unify([(wa, sa), (wb, sb)])
        if k == "add":
            return a + b, (uw + 1, us)
        if k == "sub":
            return a - b, (uw + 1, True)
        if k == "mul":
            return a * b, (wa + wb, sa or sb)
        if k == "floordiv":
            r = _zdiv(a, b)
            return r, (wa + (1 if sb else 0), sa or sb)
        if k == "mod":
            return _zmod(a, b), (wb, sb)
        if k == "and":
            return a & b, (uw, us)
        if k == "or":
            return a | b, (uw, us)
        if k == "xor":
            return a ^ b, (uw, us)
        if k == "shl":
            if sb:
                raise RefError("signed shift amount")
            return a << b, (wa + 2 ** wb - 1, sa)
        if k == "shr":
            if sb:
                raise RefError("signed shift amount")
            return a >> b, (wa, sa)
        c = {"eq": lambda: a == b, "ne": lambda: a != b, "lt": lambda: a < b, "le": lambda: a <= b,
             "gt": lambda: a > b, "ge": lambda: a >= b}[k]()
        return b2i(c), (1, False)
    if k in ("shift_left", "shift_right"):
        a, (w, s) = ref_eval(node[1], env)
        n = node[2]
        if k == "shift_right":
            n = -n
        if n >= 0:
            return a << n, ((max(w + n, 1), True) if s else (max(w + n, 0), False))
        return a >> (-n), ((max(w + n, 1), True) if s else (max(w + n, 0), False))
    if k in ("rotate_left", "rotate_right"):
        a, (w, s) = ref_eval(node[1], env)
        n = node[2]
        if k == "rotate_right":
            n = -n
        if w == 0:
            return 0, (0, False)
        n %= w
        u = to_unsigned(a, w)
        return ((u << n) | (u >> (w - n))) & mask(w), (w, False)
    if k == "replicate":
        a, (w, s) = ref_eval(node[1], env)
        n = node[2]
        u = to_unsigned(a, w)
        r = 0
        for i in range(n):
            r = r | (u << (i * w))
        return r, (w * n, False)
    if k == "slice":
        a, (w, s) = ref_eval(node[1], env)
        _, _, start, stop, step = node
        idx = list(range(w))[slice(start, stop, step)]
        u = to_unsigned(a, w)
        r = 0
        for j, i in enumerate(idx):
            r = r | (bit(u, i) << j)
        return r, (len(idx), False)
    if k == "index":
        a, (w, s) = ref_eval(node[1], env)
        i = node[2]
        if i not in range(-w, w):
            raise RefError("index out of range")
        return bit(to_unsigned(a, w), i % w), (1, False)
    if k == "cat":
        r, off = 0, 0
        for p in node[1]:
            a, (w, s) = ref_eval(p, env)
            r = r | (to_unsigned(a, w) << off)
            off += w
        return r, (off, False)
    if k in ("bit_select", "word_select"):
        a, (w, s) = ref_eval(node[1], env)
        o, (wo, so) = ref_eval(node[2], env)
        width = node[3]
        if so:
            raise RefError("signed offset")
        stride = width if k == "word_select" else 1
        return (a >> (o * stride)) & mask(width), (width, False)
    if k == "matches":
        a, (w, s) = ref_eval(node[1], env)
        u = to_unsigned(a, w)
        c = False
        for p in node[2]:
            if isinstance(p, str):
                p2 = "".join(p.split())
                if len(p2) != w:
                    raise RefError("pattern width")
                c = sym_or(c, pattern_matches(u, w, p2))
            else:
                c = sym_or(c, a == p)
        return b2i(c), (1, False)
    if k == "mux":
        sel, _ = ref_eval(node[1], env)
        a, sha = ref_eval(node[2], env)
        b, shb = ref_eval(node[3], env)
        return sym_ite(sel != 0, a, b), unify([sha, shb])
    if k in ("array", "arrayp"):
        elems = [ref_eval(e, env) for e in node[1]]
        i, (wi, si) = ref_eval(node[2], env)
        r = elems[-1][0]
        for j in reversed(range(len(elems) - 1)):
            r = sym_ite(i == j, elems[j][0], r)
        return r, unify([sh for _, sh in elems])
    if k == "ongoing":
        idx, names = env["fsm:" + node[1]]
        return b2i(idx == names.index(node[2])), (1, False)
    raise RefError(f"unknown node {k}")


def _zdiv(a, b):
    nz = (b != 0)
    if nz is False:
        return 0
    if nz is True:
        return a // b
    bb = sym_ite(nz, b, 1)
    return sym_ite(nz, a // bb, 0)


def _zmod(a, b):
    nz = (b != 0)
    if nz is False:
        return 0
    if nz is True:
        return a % b
    bb = sym_ite(nz, b, 1)
    return sym_ite(nz, a % bb, 0)


def array_in_range_assumptions(node, env):
    """Constraints 'index < len(array)' for every array node (in-range indexing only)."""
    out = []
    if isinstance(node, (list, tuple)):
        if node and node[0] in ("array", "arrayp"):
            i, _ = ref_eval(node[2], env)
            c = i < len(node[1])
            out.append(c)
        for sub in node:
            out.extend(array_in_range_assumptions(sub, env))
    return out
