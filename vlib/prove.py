"""`for all inputs: property(real_function(inputs))` by symbolic execution + z3, with replay.

An obligation is given as
  inputs   : {name: SymInt/SymBool/int}      (the symbolic variables, for model extraction)
  assume   : [z3 Bool]                         (preconditions)
  run      : callable(**inputs) -> result      (calls the REAL code; may raise)
  post     : callable(inputs, result, exc) -> SymBool/bool   (the property; exc is the raised exception or None)
  concrete : callable(**ints) -> (result, exc) (the real code on plain ints, no shims)  [optional: default = run]
"""
import z3

from .pysym import (explore, bool_term, eval_in_model, is_sym, timed_check, sym_not, Inconclusive, Unsupported,
                    GLOBAL_STATS)
from .run import PROVED, VIOLATION, INCONCLUSIVE, ERROR, UNREPRODUCED


def _call(run, inputs):
    try:
        return run(**inputs), None
    except Exception as e:  # the real code's own exceptions are results, not harness errors
        return None, e


def prove(oid, kind, program, inputs, assume, run, post, concrete=None, max_paths=4096, shims=None,
          expected_exceptions=(Exception,), timeout_ms=120000):
    """Returns a result dict. `shims` is a context-manager factory active during symbolic runs only."""
    res = {"id": oid, "kind": kind, "program": program, "nontrivial": any(is_sym(v) for v in inputs.values()),
           "symbolic": {k: repr(v)[:60] for k, v in inputs.items() if is_sym(v)}}

    def scenario():
        # the property is evaluated inside the exploration too (it may fork, e.g. on a shift amount)
        import contextlib
        with (shims() if shims is not None else contextlib.nullcontext()):
            result, exc = _call(run, inputs)
            try:
                ok = post(inputs, result, exc)
            except Exception:
                ok = False      # the specification itself is undefined here: counts as not holding
        return result, exc, ok

    try:
        paths = explore(scenario, assumptions=assume, max_paths=max_paths)
    except (Inconclusive, Unsupported) as e:
        # The code left the supported subset (floats, huge case splits...).  The obligation stays
        # inconclusive, unless a concrete probe at the boundary values of the inputs already shows a
        # reproducing violation (a true counterexample is reportable however it was found).
        probe = _boundary_probe(inputs, assume, concrete or run, post)
        if probe is not None:
            vals, cres, cexc = probe
            detail = (f"{program} with {vals}: real code gives "
                      f"{('raises ' + type(cexc).__name__ + ': ' + str(cexc)) if cexc else _show(cres)} "
                      f"(found by the boundary probe after the symbolic run left the supported subset: {type(e).__name__}: {e})")
            return dict(res, status=VIOLATION, detail=detail, cex={"inputs": vals, "result": _show(cres)},
                        signature={"kind": kind, "program": program}, replay={"oid": oid, "inputs": vals})
        return dict(res, status=INCONCLUSIVE, detail=f"{type(e).__name__}: {e}")
    reach = 0
    for p in paths:
        if p.exc is not None:
            return dict(res, status=ERROR, detail=f"harness exception: {type(p.exc).__name__}: {p.exc}")
        result, exc, ok = p.value
        s = z3.Solver()
        s.set("timeout", timeout_ms)
        for a in assume:
            s.add(a)
        for c in p.pc:
            s.add(c)
        reach += 1
        if ok is True:
            continue
        s.add(z3.Not(bool_term(ok)) if ok is not False else z3.BoolVal(True))
        r = timed_check(s)
        if r == z3.unknown:
            return dict(res, status=INCONCLUSIVE, detail="solver unknown")
        if r == z3.sat:
            mdl = s.model()
            vals = {k: eval_in_model(mdl, v) for k, v in inputs.items()}
            cres, cexc = _call(concrete or run, vals)
            try:
                cok = post(vals, cres, cexc)
            except Exception as e:
                cok = False
            detail = (f"{program} with {vals}: real code gives "
                      f"{('raises ' + type(cexc).__name__ + ': ' + str(cexc)) if cexc else _show(cres)}")
            if cok is True or (not is_sym(cok) and bool(cok)):
                return dict(res, status=UNREPRODUCED, detail="did not reproduce: " + detail, cex={"inputs": vals})
            return dict(res, status=VIOLATION, detail=detail, cex={"inputs": vals, "result": _show(cres)},
                        signature={"kind": kind, "program": program}, replay={"oid": oid, "inputs": vals})
    if reach == 0:
        return dict(res, status=ERROR, detail="vacuous: no feasible path")
    res["paths"] = len(paths)
    return dict(res, status=PROVED)


def _boundary_probe(inputs, assume, fn, post, limit=3000):
    """Concrete runs of the real code at interval ends, 0, +-1 and +-2**k (+-1) of every symbolic input."""
    import itertools
    import random
    cands = {}
    for k, v in inputs.items():
        if not is_sym(v):
            cands[k] = [v]
            continue
        lo, hi = (v.lo, v.hi) if hasattr(v, "lo") else (0, 1)
        c = {lo, hi, 0, 1, -1, lo + 1, hi - 1}
        for b in range(0, max(abs(lo), abs(hi)).bit_length() + 1):
            for d in (-1, 0, 1):
                c.add((1 << b) + d)
                c.add(-(1 << b) + d)
        cands[k] = sorted(x for x in c if lo <= x <= hi)
    names = list(cands)
    total = 1
    for k in names:
        total *= len(cands[k])
    rnd = random.Random(0)
    combos = itertools.product(*[cands[k] for k in names]) if total <= limit else \
        (tuple(rnd.choice(cands[k]) for k in names) for _ in range(limit))
    s = z3.Solver()
    for a in assume:
        s.add(a)
    for combo in combos:
        vals = dict(zip(names, combo))
        # respect the preconditions
        subst = [(inputs[k].term, z3.BitVecVal(vals[k], inputs[k].term.size())) for k in names if is_sym(inputs[k]) and hasattr(inputs[k], "lo")]
        if assume and not all(z3.is_true(z3.simplify(z3.substitute(a, *subst))) for a in assume):
            continue
        cres, cexc = _call(fn, vals)
        try:
            ok = post(vals, cres, cexc)
        except Exception:
            ok = False
        if not (ok is True or (not is_sym(ok) and bool(ok))):
            return vals, cres, cexc
    return None


def _show(x):
    try:
        return repr(x)[:200]
    except Exception:
        return "<unprintable>"
