"""CLI: ./check <Cxx> [--tier quick|thorough] [--replay file]"""
import argparse
import importlib
import os
import sys
import traceback

VERIF = os.path.dirname(os.path.dirname(os.path.abspath(__file__)))
REPO = os.environ.get("VERIF_REPO", "/repo")
sys.path.insert(0, VERIF)
sys.path.insert(0, REPO)     # amaranth is imported from the working tree
sys.setrecursionlimit(20000)


def main():
    ap = argparse.ArgumentParser()
    ap.add_argument("prop")
    ap.add_argument("--tier", default=os.environ.get("VERIF_TIER", "quick"), choices=["quick", "thorough"])
    ap.add_argument("--replay")
    ap.add_argument("--seed", type=int, default=int(os.environ.get("VERIF_SEED", "0") or 0))
    args = ap.parse_args()
    import warnings
    warnings.simplefilter("ignore")
    try:
        import amaranth
        if not os.path.abspath(amaranth.__file__).startswith(os.path.abspath(REPO)):
            print(f"HARNESS-ERROR: amaranth imported from {amaranth.__file__}, not {REPO}", file=sys.stderr)
            return 3
        mod = importlib.import_module(f"checks.{args.prop.lower()}")
        if args.replay:
            return mod.replay(args.replay)
        return mod.main(args.tier, args.seed)
    except BaseException as e:  # noqa
        if isinstance(e, SystemExit):
            raise
        traceback.print_exc()
        print(f"HARNESS-ERROR: {type(e).__name__}: {e}", file=sys.stderr)
        return 3


if __name__ == "__main__":
    sys.exit(main())
