"""Name shims bound in a module's namespace for the duration of a symbolic run (environment stubs).

Python resolves `int`, `range`, `len`, `operator` through module globals before builtins, so binding
these names in `amaranth.hdl._ast`, `amaranth.utils`, `amaranth.lib.data`, ... redirects exactly the
calls the code under analysis makes, and nothing else.  Contracts:
  operator.index : identity on proxies, the genuine function otherwise
  int            : identity on proxies; isinstance(x, int) still true for ints and proxies
  range          : for symbolic arguments a model with arithmetic `__contains__`, `len`, `[0]`, `[-1]`
                   (CPython's definition); the genuine range otherwise
  len            : passes through model lengths"""
import contextlib
import operator as _operator
import warnings

from .pysym import SymBool, is_sym, as_symint, sym_ite, sym_and, sym_or


def _index(x):
    if is_sym(x):
        return as_symint(x) if type(x) is SymBool else x
    return _operator.index(x)


class _OperatorShim:
    def __getattr__(self, name):
        return getattr(_operator, name)


opshim = _OperatorShim()
opshim.index = _index


class _IntMeta(type):
    def __instancecheck__(cls, obj):
        return isinstance(obj, int)

    def __call__(cls, x=0, *a, **k):
        if is_sym(x):
            return as_symint(x) if type(x) is SymBool else x
        return int(x, *a, **k)


class IntShim(metaclass=_IntMeta):
    from_bytes = int.from_bytes


class SymRange:
    def __init__(self, start, stop, step=1):
        self.start, self.stop, self.step = start, stop, step

    def length(self):
        a, b, s = self.start, self.stop, self.step
        up = sym_ite(b > a, (b - a + s - 1) // sym_ite(s > 0, s, 1), 0)
        dn = sym_ite(a > b, (a - b - s - 1) // sym_ite(s < 0, -s, 1), 0)
        return sym_ite(s > 0, up, dn)

    def __getitem__(self, i):
        n = self.length()
        if i == 0:
            return self.start
        if i == -1:
            return self.start + (n - 1) * self.step
        raise IndexError(i)

    def __contains__(self, x):
        a, b, s = self.start, self.stop, self.step
        if not is_sym(s) and s == 1:
            return sym_and(x >= a, x < b)
        up = sym_and(sym_and(x >= a, x < b), ((x - a) % sym_ite(s > 0, s, 1)) == 0)
        dn = sym_and(sym_and(x <= a, x > b), ((a - x) % sym_ite(s < 0, -s, 1)) == 0)
        return sym_ite(s > 0, up, dn)


class _RangeMeta(type):
    def __instancecheck__(cls, obj):
        return isinstance(obj, (range, SymRange, _RangeView))

    def __call__(cls, *args):
        if any(is_sym(a) for a in args):
            if len(args) == 1:
                return SymRange(0, args[0], 1)
            return SymRange(*args)
        return _RangeView(range(*args))


class _RangeView:
    """A genuine range that answers membership arithmetically for proxies."""
    def __init__(self, r):
        self.r = r
        self.start, self.stop, self.step = r.start, r.stop, r.step

    def __contains__(self, x):
        if is_sym(x):
            return SymRange(self.r.start, self.r.stop, self.r.step).__contains__(x)
        return x in self.r

    def __iter__(self):
        return iter(self.r)

    def __len__(self):
        return len(self.r)

    def __getitem__(self, i):
        return self.r[i]

    def __repr__(self):
        return repr(self.r)

    def __eq__(self, o):
        return self.r == (o.r if isinstance(o, _RangeView) else o)

    def __hash__(self):
        return hash(self.r)


class RangeShim(metaclass=_RangeMeta):
    pass


def sym_len(x):
    if isinstance(x, SymRange):
        return x.length()
    return len(x)


_MISSING = object()


@contextlib.contextmanager
def bound(bindings):
    """bindings: [(module, name, value)]"""
    saved = []
    for mod, name, val in bindings:
        saved.append((mod, name, mod.__dict__.get(name, _MISSING)))
        setattr(mod, name, val)
    try:
        with warnings.catch_warnings():
            warnings.simplefilter("ignore")
            yield
    finally:
        for mod, name, val in reversed(saved):
            if val is _MISSING:
                delattr(mod, name)
            else:
                setattr(mod, name, val)


def validate_range_model():
    n = 0
    for a in range(-5, 6):
        for b in range(-5, 6):
            for s in (-3, -2, -1, 1, 2, 3):
                r = range(a, b, s)
                m = SymRange(a, b, s)
                assert m.length() == len(r)
                for x in range(-7, 8):
                    assert bool(m.__contains__(x)) == (x in r), (a, b, s, x)
                    n += 1
    return n
