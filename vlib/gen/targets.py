"""Bounded family of assignable targets (C02, C05) built through the real Amaranth API."""
import random

from amaranth.hdl import Signal, Cat, Array, Shape, Value


def show(t):
    k = t[0]
    if k == "sig":
        return f"{t[1]}:{'s' if t[3] else 'u'}{t[2]}"
    if k == "slice":
        return f"{show(t[1])}[{t[2]}:{t[3]}]"
    if k == "cat":
        return "Cat(" + ",".join(show(p) for p in t[1]) + ")"
    if k in ("bit_select", "word_select"):
        return f"{show(t[1])}.{k}({show(t[2])},{t[3]})"
    if k == "array":
        return "Array([" + ",".join(show(p) for p in t[1]) + f"])[{show(t[2])}]"
    if k in ("as_signed", "as_unsigned"):
        return f"{show(t[1])}.{k}()"
    return str(t)


def collect(t, out=None):
    out = {} if out is None else out
    if isinstance(t, (list, tuple)):
        if t and t[0] == "sig":
            out[t[1]] = [t[2], t[3]]
        else:
            for sub in t:
                collect(sub, out)
    return out


def build(t, sigs):
    k = t[0]
    B = lambda n: build(n, sigs)
    if k == "sig":
        return sigs[t[1]]
    if k == "slice":
        return B(t[1])[t[2]:t[3]]
    if k == "cat":
        return Cat(*[B(p) for p in t[1]])
    if k == "bit_select":
        return B(t[1]).bit_select(B(t[2]), t[3])
    if k == "word_select":
        return B(t[1]).word_select(B(t[2]), t[3])
    if k == "array":
        return Array([B(p) for p in t[1]])[B(t[2])]
    if k == "as_signed":
        return B(t[1]).as_signed()
    if k == "as_unsigned":
        return B(t[1]).as_unsigned()
    raise ValueError(k)


def width_of(t):
    k = t[0]
    if k == "sig":
        return t[2]
    if k == "slice":
        w = width_of(t[1])
        return len(range(w)[t[2]:t[3]])
    if k == "cat":
        return sum(width_of(p) for p in t[1])
    if k in ("bit_select", "word_select"):
        return t[3]
    if k == "array":
        return max(width_of(p) for p in t[1])   # upper bound (unified shape may add a sign bit)
    return width_of(t[1])


class Targets:
    def __init__(self, seed, W=4):
        self.r = random.Random(seed)
        self.W = W
        self.n = 0

    def fresh(self, prefix, w, s):
        self.n += 1
        return ["sig", f"{prefix}{self.n}", w, s]

    def leaf(self):
        w = self.r.randint(0, self.W)
        s = w > 0 and self.r.random() < 0.4
        return self.fresh("t", w, s)

    def offset(self):
        return self.fresh("k", self.r.randint(0, 3), False)

    def gen(self, depth):
        r = self.r
        if depth == 0 or r.random() < 0.15:
            return self.leaf()
        c = r.random()
        sub = self.gen(depth - 1)
        w = width_of(sub)
        if c < 0.25:
            a = r.randint(0, w)
            b = r.randint(a, w)
            return ["slice", sub, a, b]
        if c < 0.45:
            parts = [sub] + [self.gen(depth - 1) for _ in range(r.randint(0, 2))]
            r.shuffle(parts)
            return ["cat", parts]
        if c < 0.63:
            return ["bit_select", sub, self.offset(), r.randint(0, 3)]
        if c < 0.80:
            return ["word_select", sub, self.offset(), r.randint(1, 3)]
        if c < 0.90:
            n = r.choice([2, 2, 3])
            idx = self.fresh("k", 1 if n == 2 else 2, False)
            elems = [sub] + [self.gen(depth - 1) for _ in range(n - 1)]
            r.shuffle(elems)
            return ["array", elems, idx]
        if w == 0:
            return sub
        return [r.choice(["as_signed", "as_unsigned"]), sub]


def corner_targets():
    """Hand-chosen nested targets, including clipping at every level."""
    S = lambda n, w, s=False: ["sig", n, w, s]
    K = lambda n, w: ["sig", n, w, False]
    out = [
        S("t1", 4),
        S("t1", 3, True),
        S("t1", 0),
        ["slice", S("t1", 8), 2, 6],
        ["slice", ["slice", S("t1", 8), 1, 7], 2, 4],
        ["bit_select", S("t1", 4), K("k1", 3), 2],
        ["word_select", S("t1", 5), K("k1", 2), 2],
        ["bit_select", ["slice", S("t1", 8), 2, 6], K("k1", 3), 2],
        ["word_select", ["slice", S("t1", 8), 1, 6], K("k1", 2), 2],
        ["bit_select", ["bit_select", S("t1", 6), K("k1", 2), 3], K("k2", 2), 2],
        ["slice", ["bit_select", S("t1", 6), K("k1", 3), 4], 1, 3],
        ["bit_select", ["cat", [S("t1", 2), S("t2", 3, True)]], K("k1", 3), 3],
        ["cat", [S("t1", 2), S("t2", 0), S("t3", 2, True)]],
        ["cat", [["slice", S("t1", 4), 1, 3], ["bit_select", S("t2", 3), K("k1", 2), 2]]],
        ["array", [S("t1", 2), S("t2", 3, True)], K("k1", 1)],
        ["array", [S("t1", 2), ["slice", S("t2", 4), 1, 4], S("t3", 1)], K("k1", 2)],
        ["bit_select", ["array", [S("t1", 3), S("t2", 4)], K("k1", 1)], K("k2", 2), 2],
        ["as_signed", S("t1", 3)],
        ["as_unsigned", S("t1", 3, True)],
        ["slice", ["as_signed", S("t1", 4)], 1, 3],
        ["bit_select", ["as_unsigned", S("t1", 3, True)], K("k1", 2), 2],
        ["bit_select", S("t1", 4), K("k1", 0), 2],
        ["bit_select", S("t1", 4), K("k1", 3), 0],
        ["word_select", ["word_select", S("t1", 8), K("k1", 2), 4], K("k2", 2), 2],
        ["word_select", ["slice", S("t1", 7, True), 1, 6], K("k1", 3), 3],
        ["cat", [["bit_select", S("t1", 3), K("k1", 2), 2], ["bit_select", S("t1", 3), K("k2", 2), 1]]],
    ]
    return out
