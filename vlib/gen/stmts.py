"""Bounded family of Module-DSL statement programs (C02, C04, C20) and their construction through
the real `Module` DSL."""
import random
import warnings

from amaranth.hdl import Module, Signal, Shape, ClockDomain, Print, Assert, Assume, Format

from . import expr as G
from . import targets as T


def show_stmts(stmts, ind=0):
    out = []
    pad = "  " * ind
    for st in stmts:
        k = st[0]
        if k == "assign":
            out.append(f"{pad}m.d.{st[1]} += {T.show(st[2])}.eq({G.show(st[3])})")
        elif k == "next":
            out.append(f"{pad}m.next = {st[2]!r}  # fsm {st[1]}")
        elif k == "print" and len(st) > 4:
            out.append(f"{pad}m.d.{st[1]} += Print({', '.join(G.show(a) for a in st[3])}, sep={st[4]['sep']!r}, end={st[4]['end']!r})")
        elif k == "print":
            out.append(f"{pad}m.d.{st[1]} += Print(Format({st[2]!r}, {', '.join(G.show(a) for a in st[3])}))")
        elif k in ("assert", "assume"):
            msg = "" if st[3] is None else f", {st[3]!r}" if st[4] is None else f", Format({st[3]!r}, {', '.join(G.show(a) for a in st[4])})"
            out.append(f"{pad}m.d.{st[1]} += {k.capitalize()}({G.show(st[2])}{msg})")
        elif k == "if":
            for i, (c, body) in enumerate(st[1]):
                out.append(f"{pad}with m.{'If' if i == 0 else 'Elif'}({G.show(c)}):")
                out.extend(show_stmts(body, ind + 1) or [pad + "  pass"])
            if st[2] is not None:
                out.append(f"{pad}with m.Else():")
                out.extend(show_stmts(st[2], ind + 1) or [pad + "  pass"])
        elif k == "switch":
            out.append(f"{pad}with m.Switch({G.show(st[1])}):")
            for pats, body in st[2]:
                out.append(f"{pad}  with m.{'Default()' if pats is None else 'Case(' + ', '.join(map(repr, pats)) + ')'}:")
                out.extend(show_stmts(body, ind + 2) or [pad + "    pass"])
        elif k == "fsm":
            out.append(f"{pad}with m.FSM(domain={st[1]!r}, name={st[2]!r}, init={st[3]!r}):")
            for sname, body in st[4]:
                out.append(f"{pad}  with m.State({sname!r}):")
                out.extend(show_stmts(body, ind + 2) or [pad + "    pass"])
    return out


def show(prog):
    sigs = ", ".join(f"{n}:{'s' if s else 'u'}{w}={init}/{kind}" for n, (w, s, init, kind) in prog["signals"].items())
    return sigs + "\n" + "\n".join(show_stmts(prog["stmts"]))


def build(prog, reset_less_domain=False, extra_domains=(), define_domain=True, sigs=None, reset_less_signals=()):
    """Returns (module, sigs dict name->Signal (+ 'fsm:<name>' -> FSM objects), domains dict)."""
    m = Module()
    sigs = {} if sigs is None else sigs
    for n, (w, s, init, kind) in prog["signals"].items():
        if n not in sigs:
            sigs[n] = Signal(Shape(w, s), name=n, init=init, reset_less=n in reset_less_signals)
    domains = {}
    if define_domain:
        cd = ClockDomain("sync", reset_less=reset_less_domain)
        m.domains.sync = cd
        domains = {"sync": cd}
    for d in extra_domains:
        domains[d] = ClockDomain(d)
        m.domains += domains[d]
    with warnings.catch_warnings():
        warnings.simplefilter("ignore")
        _build_stmts(m, prog["stmts"], sigs)
    return m, sigs, domains


def _fmt(fmt, args, sigs):
    return Format(fmt, *[G.build(a, sigs) for a in args])


def _build_stmts(m, stmts, sigs):
    for st in stmts:
        k = st[0]
        if k == "assign":
            m.d[st[1]] += T.build(st[2], sigs).eq(G.build(st[3], sigs))
        elif k == "next":
            m.next = st[2]
        elif k == "print" and len(st) > 4:
            m.d[st[1]] += Print(*[G.build(a, sigs) for a in st[3]], sep=st[4]["sep"], end=st[4]["end"])
        elif k == "print":
            m.d[st[1]] += Print(_fmt(st[2], st[3], sigs))
        elif k in ("assert", "assume"):
            cls = Assert if k == "assert" else Assume
            if st[3] is None:
                m.d[st[1]] += cls(G.build(st[2], sigs))
            elif st[4] is None:
                m.d[st[1]] += cls(G.build(st[2], sigs), st[3])            # a plain string: reproduced verbatim, braces included
            else:
                m.d[st[1]] += cls(G.build(st[2], sigs), _fmt(st[3], st[4], sigs))
        elif k == "if":
            for i, (c, body) in enumerate(st[1]):
                ctx = m.If(G.build(c, sigs)) if i == 0 else m.Elif(G.build(c, sigs))
                with ctx:
                    _build_stmts(m, body, sigs)
            if st[2] is not None:
                with m.Else():
                    _build_stmts(m, st[2], sigs)
        elif k == "switch":
            with m.Switch(G.build(st[1], sigs)):
                for pats, body in st[2]:
                    with (m.Default() if pats is None else m.Case(*pats)):
                        _build_stmts(m, body, sigs)
        elif k == "fsm":
            with m.FSM(domain=st[1], name=st[2], init=st[3]) as fsm:
                sigs["fsm:" + st[2]] = fsm
                for sname, body in st[4]:
                    with m.State(sname):
                        _build_stmts(m, body, sigs)
        else:
            raise ValueError(k)


def _target_signals(t, acc):
    k = t[0]
    if k == "sig":
        acc.add(t[1])
    elif k in ("cat", "array"):
        for p in t[1]:
            _target_signals(p, acc)
    else:
        _target_signals(t[1], acc)


def _targets(stmts, acc):
    for st in stmts:
        k = st[0]
        if k == "assign":
            _target_signals(st[2], acc)
        elif k == "if":
            for _, body in st[1]:
                _targets(body, acc)
            if st[2] is not None:
                _targets(st[2], acc)
        elif k == "switch":
            for _, body in st[2]:
                _targets(body, acc)
        elif k == "fsm":
            for _, body in st[4]:
                _targets(body, acc)


class Programs:
    """Seeded random statement programs.

    Signals: inputs i*, early comb e* (assigned from inputs/registers only), late comb c*, sync r*.
    Conditions / right-hand sides / offsets of statements that drive e* read inputs and registers;
    all others may also read e* (acyclic by construction)."""

    def __init__(self, seed, W=4, nest=3, with_fsm=True):
        self.r = random.Random(seed)
        self.W, self.nest, self.with_fsm = W, nest, with_fsm

    def _signals(self):
        r = self.r
        sigs = {}

        def mk(prefix, n, kind, minw=0):
            for i in range(n):
                w = r.randint(minw, self.W)
                s = w > 0 and r.random() < 0.35
                lo, hi = (-(1 << (w - 1)), (1 << (w - 1)) - 1) if s else (0, (1 << w) - 1)
                init = r.choice([0, 0, r.randint(lo, hi)])
                sigs[f"{prefix}{i}"] = [w, s, init, kind]
        mk("i", r.randint(2, 3), "in")
        mk("e", r.randint(0, 2), "comb")
        mk("c", r.randint(1, 2), "comb")
        mk("r", r.randint(1, 3), "sync")
        return sigs

    def gen(self):
        r = self.r
        self.sigs = self._signals()
        self.fsms = {}
        names = list(self.sigs)
        S = lambda n: ["sig", n, self.sigs[n][0], self.sigs[n][1]]
        self.pool0 = [S(n) for n in names if self.sigs[n][3] in ("in", "sync")]
        self.pool1 = self.pool0 + [S(n) for n in names if n.startswith("e")]
        self.ex0 = G.RandomExprs(r.randint(0, 1 << 30), self.W, 2, pool=self.pool0)
        self.ex1 = G.RandomExprs(r.randint(0, 1 << 30), self.W, 2, pool=self.pool1)
        stmts = []
        early = [n for n in names if n.startswith("e")]
        if early:
            stmts += self._block(self.nest, early, self.ex0, self.pool0, top=True)
        late = [n for n in names if n[0] in "cr"]
        stmts += self._block(self.nest, late, self.ex1, self.pool1, top=True, allow_fsm=self.with_fsm)
        if early and r.random() < 0.5:
            # interleave: program order between independent drivers must not matter... but keep e* first reads valid
            pass
        prog = {"signals": self.sigs, "stmts": stmts, "fsms": self.fsms}
        # a signal no statement drives is an input, whatever it was meant to be
        # (a signal that only appears under an empty slice still counts as driven for the language)
        mentioned = set()
        _targets(stmts, mentioned)
        for n, v in self.sigs.items():
            if v[3] != "in" and n not in mentioned:
                v[3] = "in"
        return prog

    # -- pieces
    def _target(self, names, pool):
        r = self.r
        n = r.choice(names)
        base = ["sig", n, self.sigs[n][0], self.sigs[n][1]]
        dom = "comb" if self.sigs[n][3] == "comb" else "sync"
        w = base[2]
        c = r.random()
        offs = [p for p in pool if not p[3] and p[2] <= 3]
        if c < 0.40 or w == 0:
            t = base
        elif c < 0.60:
            a = r.randint(0, w)
            t = ["slice", base, a, r.randint(a, w)]
        elif c < 0.72 and offs:
            t = ["bit_select", base, r.choice(offs), r.randint(0, 3)]
        elif c < 0.82 and offs:
            t = ["word_select", base, r.choice(offs), r.randint(1, 3)]
        elif c < 0.90:
            same = [x for x in names if (("comb" if self.sigs[x][3] == "comb" else "sync") == dom) and x != n]
            if same:
                o = r.choice(same)
                parts = [base, ["sig", o, self.sigs[o][0], self.sigs[o][1]]]
                r.shuffle(parts)
                t = ["cat", parts]
            else:
                t = base
        elif c < 0.95:
            same = [x for x in names if (("comb" if self.sigs[x][3] == "comb" else "sync") == dom) and x != n]
            idxs = [p for p in pool if not p[3] and p[2] == 1]
            if same and idxs:
                o = r.choice(same)
                t = ["array", [base, ["sig", o, self.sigs[o][0], self.sigs[o][1]]], r.choice(idxs)]
            else:
                t = base
        else:
            t = [r.choice(["as_signed", "as_unsigned"]), base] if w > 0 else base
        return dom, t

    def _assign(self, names, ex, pool):
        dom, t = self._target(names, pool)
        return ["assign", dom, t, ex.gen(self.r.choice([0, 1, 1, 2]))]

    def _cond(self, ex):
        return ex.gen(self.r.choice([0, 1, 1]))

    def _block(self, depth, names, ex, pool, top=False, allow_fsm=False, in_fsm=None):
        r = self.r
        out = []
        for _ in range(r.randint(1, 3) if not top else r.randint(2, 4)):
            c = r.random()
            if depth == 0 or c < 0.40:
                out.append(self._assign(names, ex, pool))
            elif c < 0.65:
                # (an FSM may also be written inside a control block: its register then only advances while the block is active,
                # but ongoing() keeps reflecting the current state)
                arms = [[self._cond(ex), self._block(depth - 1, names, ex, pool, in_fsm=in_fsm, allow_fsm=allow_fsm and in_fsm is None)]
                        for _ in range(r.randint(1, 3))]
                els = self._block(depth - 1, names, ex, pool, in_fsm=in_fsm) if r.random() < 0.5 else None
                out.append(["if", arms, els])
            elif c < 0.88:
                out.append(self._switch(depth, names, ex, pool, in_fsm))
            elif allow_fsm and not self.fsms and in_fsm is None and depth >= 1:
                out.append(self._fsm(depth, names, ex, pool))
            elif in_fsm is not None and r.random() < 0.7:
                out.append(["next", in_fsm, r.choice(self.fsms[in_fsm]["states"])])
            else:
                out.append(self._assign(names, ex, pool))
        if in_fsm is not None and r.random() < 0.35:
            out.append(["next", in_fsm, r.choice(self.fsms[in_fsm]["states"])])
        return out

    def _switch(self, depth, names, ex, pool, in_fsm):
        r = self.r
        from .. import refsem
        test = ex.gen(r.choice([0, 0, 1]))
        _, (tw, ts) = refsem.ref_eval(test, G._ZeroEnv())
        if tw > 4:
            test = ["slice", test, 0, 3, None]
            tw, ts = 3, False
        cases = []
        got_default = False
        for _ in range(r.randint(1, 4)):
            c = r.random()
            if c < 0.12 and not got_default:
                pats = None
                got_default = True
            elif c < 0.2:
                pats = []
            elif c < 0.55:
                lo, hi = (-(1 << max(tw - 1, 0)), (1 << max(tw - 1, 0))) if ts else (0, (1 << tw))
                pats = [r.randint(lo, hi) for _ in range(r.randint(1, 2))]
            else:
                pats = ["".join(r.choice("01-") for _ in range(tw)) for _ in range(r.randint(1, 2))]
            cases.append([pats, self._block(depth - 1, names, ex, pool, in_fsm=in_fsm)])
        if r.random() < 0.6:
            cases.sort(key=lambda c: c[0] is None)       # Default last (the usual style); otherwise cases after Default stay: legal, never selected
        return ["switch", test, cases]

    def _fsm(self, depth, names, ex, pool):
        r = self.r
        name = "fsm"
        states = [f"S{i}" for i in range(r.randint(2, 4))]
        c = r.random()
        if c < 0.2:
            states = list(range(len(states)))      # any hashable names a state; 0 and "" are falsy
            r.shuffle(states)
        elif c < 0.35:
            states[r.randrange(len(states))] = ""
        init = r.choice([None, None, r.choice(states), states[-1]])
        self.fsms[name] = {"domain": "sync", "states": states, "init": init}
        body = []
        for s in states:
            body.append([s, self._block(depth - 1, names, ex, pool, in_fsm=name)])
        return ["fsm", "sync", name, init, body]
