"""Bounded family of expression programs (C01, C04, C05) and their construction through the real
Amaranth API.  A program is a JSON-able dict {"leaves": {name: [width, signed]}, "expr": node}."""
import itertools
import random
import warnings

from amaranth.hdl import Signal, Const, Cat, Mux, Array, Shape, Value, signed, unsigned

UNARY = ["neg", "inv", "abs", "bool", "any", "all", "xorr", "as_signed", "as_unsigned"]
BINARY = ["add", "sub", "mul", "floordiv", "mod", "and", "or", "xor", "shl", "shr", "eq", "ne", "lt", "le", "gt", "ge"]


def leaf_shapes(W):
    return [(w, False) for w in range(0, W + 1)] + [(w, True) for w in range(1, W + 1)]


def show(node):
    k = node[0]
    if k == "sig":
        return f"{node[1]}:{'s' if node[3] else 'u'}{node[2]}"
    if k == "const":
        if node[2] is None:
            return f"C({node[1]})"
        return f"C({node[1]},{'s' if node[3] else 'u'}{node[2]})"
    if k == "pyint":
        return f"int({node[1]})"
    if k in UNARY:
        return f"{k}({show(node[1])})"
    if k in BINARY:
        return f"{k}({show(node[1])},{show(node[2])})"
    if k in ("shift_left", "shift_right", "rotate_left", "rotate_right", "replicate", "index"):
        return f"{show(node[1])}.{k}({node[2]})"
    if k == "slice":
        f = lambda x: "" if x is None else str(x)
        return f"{show(node[1])}[{f(node[2])}:{f(node[3])}:{f(node[4])}]"
    if k == "cat":
        return "Cat(" + ",".join(show(p) for p in node[1]) + ")"
    if k in ("bit_select", "word_select"):
        return f"{show(node[1])}.{k}({show(node[2])},{node[3]})"
    if k == "matches":
        return f"{show(node[1])}.matches({','.join(repr(p) for p in node[2])})"
    if k == "mux":
        return f"Mux({show(node[1])},{show(node[2])},{show(node[3])})"
    if k == "array":
        return "Array([" + ",".join(show(p) for p in node[1]) + f"])[{show(node[2])}]"
    if k == "arrayp":
        return "proxy(Array([" + ",".join(show(p) for p in node[1]) + f"])[{show(node[2])}])"
    if k == "ongoing":
        return f"{node[1]}.ongoing({node[2]!r})"
    return str(node)


def collect_leaves(node, out=None):
    out = {} if out is None else out
    if isinstance(node, (list, tuple)):
        if node and node[0] == "sig":
            out[node[1]] = [node[2], node[3]]
        else:
            for sub in node:
                collect_leaves(sub, out)
    return out


def make_signals(leaves):
    return {n: Signal(Shape(w, s), name=n) for n, (w, s) in leaves.items()}


def build(node, sigs):
    """Build the Amaranth value through the public API."""
    k = node[0]
    B = lambda n: build(n, sigs)
    if k == "sig":
        return sigs[node[1]]
    if k == "const":
        _, v, w, s = node
        return Const(v) if w is None else Const(v, Shape(w, s))
    if k == "neg":
        return -B(node[1])
    if k == "inv":
        return ~B(node[1])
    if k == "abs":
        return abs(B(node[1]))
    if k == "bool":
        return B(node[1]).bool()
    if k == "any":
        return B(node[1]).any()
    if k == "all":
        return B(node[1]).all()
    if k == "xorr":
        return B(node[1]).xor()
    if k == "as_signed":
        return B(node[1]).as_signed()
    if k == "as_unsigned":
        return B(node[1]).as_unsigned()
    if k == "pyint":
        return node[1]            # a plain Python integer: the other operand's (reflected) operator method does the cast
    if k in BINARY:
        a, b = B(node[1]), B(node[2])
        return {"add": lambda: a + b, "sub": lambda: a - b, "mul": lambda: a * b, "floordiv": lambda: a // b,
                "mod": lambda: a % b, "and": lambda: a & b, "or": lambda: a | b, "xor": lambda: a ^ b,
                "shl": lambda: a << b, "shr": lambda: a >> b, "eq": lambda: a == b, "ne": lambda: a != b,
                "lt": lambda: a < b, "le": lambda: a <= b, "gt": lambda: a > b, "ge": lambda: a >= b}[k]()
    if k == "shift_left":
        return B(node[1]).shift_left(node[2])
    if k == "shift_right":
        return B(node[1]).shift_right(node[2])
    if k == "rotate_left":
        return B(node[1]).rotate_left(node[2])
    if k == "rotate_right":
        return B(node[1]).rotate_right(node[2])
    if k == "replicate":
        return B(node[1]).replicate(node[2])
    if k == "slice":
        return B(node[1])[node[2]:node[3]:node[4]]
    if k == "index":
        return B(node[1])[node[2]]
    if k == "cat":
        return Cat(*[B(p) for p in node[1]])
    if k == "bit_select":
        return B(node[1]).bit_select(B(node[2]), node[3])
    if k == "word_select":
        return B(node[1]).word_select(B(node[2]), node[3])
    if k == "matches":
        with warnings.catch_warnings():
            warnings.simplefilter("ignore", SyntaxWarning)
            return B(node[1]).matches(*node[2])
    if k == "mux":
        return Mux(B(node[1]), B(node[2]), B(node[3]))
    if k == "ongoing":
        return sigs["fsm:" + node[1]].ongoing(node[2])
    if k == "arrayp":
        return Array([B(p) for p in node[1]])[B(node[2])]
    if k == "array":
        # the proxy is converted to a value: operators applied to an un-cast ArrayProxy are forwarded to
        # the elements (documented forwarding), which is not "operator applied to the indexing result"
        return Value.cast(Array([B(p) for p in node[1]])[B(node[2])])
    raise ValueError(k)


# ---------------------------------------------------------------------------- families
def sig(name, shape):
    return ["sig", name, shape[0], shape[1]]


def consts_for(W):
    return [["const", 0, 0, False], ["const", 0, None, False], ["const", 1, None, False], ["const", -1, None, True],
            ["const", 5, 3, False], ["const", -3, 3, True], ["const", -(1 << (W - 1)), W, True]]


def const_operand_programs(W):
    """Operators with one CONSTANT operand (back ends shorten/fold constant operands): shifts by constants,
    comparisons/arithmetic with constants whose top bits repeat, on signed and unsigned signals."""
    out = []
    amounts = [["const", 1, None, False], ["const", 2, None, False], ["const", 3, None, False], ["const", 7, 3, False],
               ["const", 6, 3, False], ["const", 3, 4, False], ["const", 0, 2, False]]
    for sa in ((W, True), (W, False), (2, True)):
        for c in amounts:
            out.append(["shr", sig("a", sa), c])
            out.append(["shl", sig("a", sa), c])
    vals = [["const", 3, 4, False], ["const", -1, 4, True], ["const", -4, 4, True], ["const", 7, 4, True], ["const", 12, 4, False],
            ["const", -8, 4, True], ["const", 0, 3, False]]
    for sa in ((W, True), (W, False)):
        for c in vals:
            for k in ("add", "sub", "mul", "floordiv", "mod", "and", "or", "xor", "lt", "ge", "eq", "ne"):
                out.append([k, sig("a", sa), c])
                out.append([k, c, sig("a", sa)])
            out.append(["mux", sig("c", (1, False)), c, sig("a", sa)])
            out.append(["bit_select", c, sig("b", (2, False)), 2])
            out.append(["cat", [c, sig("a", sa)]])
    return out


def extension_programs():
    """A value-preserving inner form (whole-value slice, as_unsigned/as_signed, ~, -, abs, constant shift) of a narrow operand
    used where it has to be EXTENDED: the inner form's own signedness decides between zero and sign extension."""
    out = []
    for sa in ((2, True), (3, True), (3, False)):
        a = sig("a", sa)
        inners = [["slice", a, None, None, None], ["slice", a, 0, sa[0], None], ["as_unsigned", a], ["as_signed", a], ["inv", a], ["neg", a],
                  ["abs", a], ["shift_left", a, 0], ["shift_right", a, 0], ["rotate_left", a, 0], ["cat", [a]], ["replicate", a, 1],
                  ["mux", ["const", 1, 1, False], a, a], ["bit_select", a, ["const", 0, None, False], sa[0]]]
        for inner in inners:
            for sb in ((5, False), (5, True)):
                b = sig("b", sb)
                for k in ("add", "sub", "mul", "and", "or", "xor", "lt", "ge", "eq"):
                    out.append([k, inner, b])
                out.append(["mux", sig("c", (1, False)), inner, b])
                out.append(["cat", [inner, b]])
                out.append(["array", [inner, b], sig("c", (1, False))])
    return out


def reflected_programs():
    """Binary operators with a plain Python int on either side (the reflected __r*__ methods), and reductions / unary operators
    of values whose top or bottom bits are constant zeros (back ends trim such operands)."""
    out = []
    for sa in ((3, False), (3, True), (4, True)):
        a = sig("a", sa)
        for v in (0, 1, 3, -2, 10, -8):
            n = ["pyint", v]
            for k in ("add", "sub", "mul", "floordiv", "mod", "and", "or", "xor", "eq", "ne", "lt", "le", "gt", "ge"):
                out.append([k, n, a])
                out.append([k, a, n])
            if v >= 0:
                out.append(["shl", a, n])
                out.append(["shr", a, n])
            if not sa[1]:
                out.append(["shl", n, a])
                out.append(["shr", n, a])
        z1, z2 = ["const", 0, 1, False], ["const", 0, 2, False]
        padded = [["cat", [a, z1]], ["cat", [a, z2]], ["cat", [z1, a]], ["cat", [z1, a, z1]], ["as_unsigned", a], ["add", a, ["const", 0, 1, False]],
                  ["cat", [a, ["const", 1, 1, False]]], ["mux", ["const", 0, 1, False], a, ["cat", [a, z1]]]]
        for p_ in padded:
            for k in ("all", "any", "xorr", "bool", "neg", "inv", "abs"):
                out.append([k, p_])
    return out


def proxy_programs():
    """Operators and methods applied to an un-cast ArrayProxy (`Array([...])[index]` used directly as an operand): the proxy
    forwards each of them to the value it stands for, so the result is that of the same operator on the indexed value."""
    out = []
    b2, s3 = sig("b", (2, False)), sig("b", (3, True))
    for elems in ([sig("p", (2, False)), sig("q", (2, True))], [sig("p", (3, True)), ["const", -2, None, True], sig("q", (1, False)), ["const", 3, None, False]]):
        P = ["arrayp", elems, sig("r", (1 if len(elems) == 2 else 2, False))]
        for k in UNARY:
            out.append([k, P])
        for k in BINARY:
            for other in (b2, s3, ["pyint", 1], ["pyint", -2], ["pyint", 3]):
                if k in ("shl", "shr") and (other is s3 or (other[0] == "pyint" and other[1] < 0)):
                    continue
                out.append([k, P, other])
                if k not in ("shl", "shr"):
                    out.append([k, other, P])
        out.append(["shl", b2, ["arrayp", [sig("p", (2, False)), sig("q", (1, False))], sig("r", (1, False))]])
        out.append(["shr", s3, ["arrayp", [sig("p", (2, False)), sig("q", (1, False))], sig("r", (1, False))]])
        for n in (-1, 0, 2):
            for k in ("shift_left", "shift_right", "rotate_left", "rotate_right"):
                out.append([k, P, n])
        out.append(["replicate", P, 2])
        out.append(["bit_select", P, sig("off", (2, False)), 2])
        out.append(["word_select", P, sig("off", (1, False)), 2])
        out.append(["matches", P, [1, -2]])
        out.append(["matches", P, ["-1-" if len(elems) == 2 else "1--"]])
    return out


def depth1(W, amount_W):
    """Every operator over every combination of leaf shapes (signals), plus parametrised forms."""
    shapes = leaf_shapes(W)
    ushapes = [(w, False) for w in range(0, amount_W + 1)]
    out = list(const_operand_programs(W))
    for k in UNARY:
        for sa in shapes:
            if k == "as_signed" and sa[0] == 0:
                continue
            out.append([k, sig("a", sa)])
    for k in BINARY:
        for sa in shapes:
            for sb in (ushapes if k in ("shl", "shr") else shapes):
                out.append([k, sig("a", sa), sig("b", sb)])
    for sa in shapes:
        w = sa[0]
        for n in range(-(w + 2), w + 3):
            out.append(["shift_left", sig("a", sa), n])
            out.append(["shift_right", sig("a", sa), n])
            out.append(["rotate_left", sig("a", sa), n])
            out.append(["rotate_right", sig("a", sa), n])
        for n in range(0, 4):
            out.append(["replicate", sig("a", sa), n])
        for i in range(-w, w):
            out.append(["index", sig("a", sa), i])
        sl = set()
        for start in [None] + list(range(-w - 1, w + 2)):
            for stop in [None] + list(range(-w - 1, w + 2)):
                for step in (None, 2, -1):
                    sl.add((start, stop, step))
        for (start, stop, step) in sorted(sl, key=repr):
            idx = list(range(w))[slice(start, stop, step)]
            if step is None and start is not None and stop is not None and len(idx) == 0 and (start, stop) != (0, 0):
                continue   # prune the many empty slices
            out.append(["slice", sig("a", sa), start, stop, step])
        for so in ushapes:
            for width in range(0, 4):
                out.append(["bit_select", sig("a", sa), sig("b", so), width])
                if width > 0:   # word_select(signal, 0) is rejected at construction (tested behaviour)
                    out.append(["word_select", sig("a", sa), sig("b", so), width])
        for off in range(0, w + 2):
            for width in (0, 1, 2):
                out.append(["bit_select", sig("a", sa), ["const", off, None, False], width])
                out.append(["word_select", sig("a", sa), ["const", off, None, False], width])
        # matches
        pats = [[0], [1, 2], [-1], [(1 << w) - 1], [1 << w], ["-" * w], []]
        if w >= 1:
            pats += [["1" + "-" * (w - 1)], ["-" * (w - 1) + "0", "0" * w]]
        if w >= 2:
            pats += [["1" + "-" * (w - 2) + "0"], ["0 " + "1" * (w - 1)]]
        for p in pats:
            out.append(["matches", sig("a", sa), p])
    for sa in shapes:
        for sb in shapes:
            for ssel in [(0, False), (1, False), (2, False), (2, True)]:
                out.append(["mux", sig("c", ssel), sig("a", sa), sig("b", sb)])
            out.append(["cat", [sig("a", sa), sig("b", sb)]])
            out.append(["array", [sig("a", sa), sig("b", sb)], sig("c", (1, False))])
    for sa in shapes:
        out.append(["cat", []])
        out.append(["cat", [sig("a", sa)]])
        out.append(["cat", [sig("a", sa), ["const", 2, 2, False], sig("b", (2, True))]])
        out.append(["array", [sig("a", sa), sig("b", (2, True)), ["const", 1, None, False]], sig("c", (2, False))])
        # a one-entry table indexed by a zero-width value (Signal(range(1))): element 0, whatever the index "holds"
        out.append(["array", [sig("a", sa)], sig("c", (0, False))])
        out.append(["add", ["arrayp", [sig("a", sa)], sig("c", (0, False))], ["const", 1, None, False]])
        out.append(["array", [sig("a", sa), sig("b", (3, False)), sig("d", (1, True)), ["const", -2, None, True]], sig("c", (2, False))])
    for c in consts_for(W):
        for k in UNARY:
            if k == "as_signed" and c[2] == 0:
                continue
            out.append([k, c])
        for k in ("add", "sub", "mul", "floordiv", "mod", "and", "xor", "lt", "eq"):
            out.append([k, sig("a", (W, True)), c])
            out.append([k, c, sig("a", (W, False))])
    return out


def depth2(shapes=((2, False), (2, True)), full=False):
    """Every outer operator template applied to every inner operator (systematic depth 2)."""
    inner = []
    for k in UNARY:
        for sa in shapes:
            inner.append([k, sig("p", sa)])
    pairs = list(itertools.product(shapes, shapes)) if full else [(shapes[0], shapes[-1]), (shapes[-1], shapes[0])]
    for k in BINARY:
        for (sa, sb) in (pairs if full else pairs[:1]):
            if k in ("shl", "shr") and sb[1]:
                sb = (2, False)
            inner.append([k, sig("p", sa), sig("q", sb)])
    for sa in shapes:
        inner.append(["bit_select", sig("p", sa), sig("q", (2, False)), 2])
        inner.append(["slice", sig("p", sa), 1, None, None])
        inner.append(["slice", sig("p", sa), None, None, None])
        inner.append(["cat", [sig("p", sa), sig("q", (1, True))]])
        inner.append(["mux", sig("q", (1, False)), sig("p", sa), ["const", -1, None, True]])
        if full:
            inner.append(["word_select", sig("p", sa), sig("q", (1, False)), 2])
            inner.append(["shift_left", sig("p", sa), 1])
            inner.append(["shift_right", sig("p", sa), 1])
            inner.append(["rotate_left", sig("p", sa), 1])
            inner.append(["replicate", sig("p", sa), 2])
            inner.append(["matches", sig("p", sa), [1, "0-"]])
        # an indexed Array forwards every operator to the element it selects
        inner.append(["array", [sig("p", sa), sig("q", (2, True))], sig("r", (1, False))])
    out = []
    bs = shapes
    for X in inner:
        for k in UNARY:
            out.append([k, X])
        for k in BINARY:
            for sb in bs:
                out.append([k, X, sig("b", sb)])
                out.append([k, sig("b", sb), X])
        for n in (-1, 1, 3):
            for k in ("shift_left", "shift_right", "rotate_left", "rotate_right"):
                out.append([k, X, n])
        out.append(["replicate", X, 2])
        out.append(["index", X, -1])
        out.append(["index", X, 0])
        for sl in ((1, None, None), (None, -1, None), (None, None, -1), (None, None, 2), (0, 1, None)):
            out.append(["slice", X, *sl])
        for sb in bs:
            out.append(["cat", [X, sig("b", sb)]])
            out.append(["cat", [sig("b", sb), X]])
            out.append(["bit_select", sig("b", sb), X, 1])
            out.append(["word_select", sig("b", sb), X, 2])
            out.append(["mux", sig("c", (1, False)), X, sig("b", sb)])
            out.append(["mux", sig("c", (1, False)), sig("b", sb), X])
            out.append(["array", [X, sig("b", sb)], sig("c", (1, False))])
        for wo in (1, 2, 3):
            out.append(["bit_select", X, sig("off", (wo, False)), 2])
            out.append(["word_select", X, sig("off", (wo, False)), 2])
        out.append(["bit_select", X, sig("off", (2, False)), 1])
        out.append(["word_select", X, sig("off", (2, False)), 1])
        out.append(["matches", X, [1]])
        out.append(["matches", X, [-1, 2]])
        out.append(["mux", X, sig("a", (2, False)), sig("b", (2, True))])
    return out


class RandomExprs:
    """Seeded random expression trees up to a depth bound."""
    def __init__(self, seed, W, amount_W, max_width=24, pool=None):
        self.pool = pool
        self.r = random.Random(seed)
        self.W, self.aW, self.max_width = W, amount_W, max_width
        self.n = 0

    def leaf(self, unsigned_only=False, maxw=None):
        r = self.r
        maxw = self.W if maxw is None else min(maxw, self.W)
        if r.random() < 0.15:
            c = r.choice(consts_for(self.W))
            if not unsigned_only or not (c[3] or (c[2] is None and c[1] < 0)):
                if maxw >= self.W:
                    return c
        if self.pool is not None:
            cands = [p for p in self.pool if p[2] <= maxw and not (unsigned_only and p[3])]
            if cands:
                return r.choice(cands)
            return ["const", r.randint(0, 1), 1, False]
        w = r.randint(0, maxw)
        s = (not unsigned_only) and w > 0 and r.random() < 0.45
        self.n += 1
        return sig(f"x{self.n}", (w, s))

    def gen(self, depth, unsigned_only=False, maxw=None):
        from .. import refsem
        for _ in range(50):
            node = self._gen(depth, unsigned_only, maxw)
            try:
                _, (w, s) = refsem.ref_eval(node, _ZeroEnv())
            except refsem.RefError:
                continue
            if w > self.max_width or (unsigned_only and s) or (maxw is not None and w > maxw):
                continue
            return node
        return self.leaf(unsigned_only, maxw)

    def _gen(self, depth, unsigned_only, maxw):
        r = self.r
        if depth == 0 or r.random() < 0.1:
            return self.leaf(unsigned_only, maxw)
        G = lambda **kw: self.gen(depth - 1, **kw)
        choice = r.random()
        if choice < 0.22:
            return [r.choice(UNARY), G()]
        if choice < 0.55:
            k = r.choice(BINARY)
            if k in ("shl", "shr"):
                return [k, G(), G(unsigned_only=True, maxw=self.aW)]
            return [k, G(), G()]
        if choice < 0.62:
            return [r.choice(["shift_left", "shift_right", "rotate_left", "rotate_right"]), G(), r.randint(-4, 5)]
        if choice < 0.66:
            return ["replicate", G(maxw=4), r.randint(0, 3)]
        if choice < 0.74:
            f = lambda: r.choice([None, r.randint(-5, 6)])
            return ["slice", G(), f(), f(), r.choice([None, None, 2, -1, 3])]
        if choice < 0.80:
            return ["cat", [G() for _ in range(r.randint(0, 3))]]
        if choice < 0.90:
            k = r.choice(["bit_select", "word_select"])
            return [k, G(), G(unsigned_only=True, maxw=self.aW), r.randint(1 if k == "word_select" else 0, 3)]
        if choice < 0.94:
            x = G()
            pats = []
            for _ in range(r.randint(0, 3)):
                pats.append(r.randint(-5, 9))
            return ["matches", x, pats]
        if choice < 0.98:
            return ["mux", G(maxw=2), G(), G()]
        # with a leaf pool (statement programs) arrays are always fully indexed: in-range by construction
        n = r.choice([2, 3, 4] if self.pool is None else [2, 4])
        iw = 1 if n == 2 else 2
        self.n += 1
        idx = sig(f"x{self.n}", (iw, False))
        if self.pool is not None:
            cands = [p for p in self.pool if p[2] == iw and not p[3]]
            if not cands:
                return self.leaf(unsigned_only, maxw)
            idx = r.choice(cands)
        return ["array", [G() for _ in range(n)], idx]


class _ZeroEnv(dict):
    def __missing__(self, k):
        return 0
