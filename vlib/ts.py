"""Transition-system extraction from a SymSim, and bounded unrolling by substitution.

For a design, the compiled simulator code is executed ONCE per event kind from a fully symbolic state
(`SymSim.sym_state`), giving for every state element its next-state term and for every observed signal
its combinational term, as z3 bit-vector terms over the state/input variables.  `unroll` then builds
the k-step relation in z3 by substitution, with a symbolic per-step choice of the event (the schedule)
and fresh inputs per step."""
import z3

from .pysym import explore, term_of, is_sym, Inconclusive


def as_bv(v, w):
    if w == 0:
        return None
    if is_sym(v):
        from .pysym.values import _w
        return z3.Extract(w - 1, 0, term_of(v, max(w + 1, _w(v))))
    return z3.BitVecVal(int(v) & ((1 << w) - 1), w)


class TransitionSystem:
    def __init__(self, sim, events, observe=(), inputs=None, concrete=(), full_cycle=True, reset_values=None):
        """events: {name: [clock signals that tick (posedge domains: 0->1->0; negedge: 1->0->1)]}.
        observe: signals whose combinational value is wanted (as a function of state and inputs)."""
        self.sim = sim
        self.events = events
        self.names = {}
        self.widths = {}
        self.state_keys = []
        self.input_keys = []
        self.init = {}
        self.trans = {}
        self.obs = {}
        self.vars = {}
        self._extract(observe, inputs, concrete, full_cycle, reset_values or {})

    def _key_name(self, key):
        """Unique, deterministic variable name per state element (several signals may share a name)."""
        k = (id(key[0]), key[1]) if isinstance(key, tuple) else id(key)
        if k in self.names:
            return self.names[k]
        if isinstance(key, tuple):
            mems = sorted({kk[0] for kk in self.names if isinstance(kk, tuple)} | {id(key[0])})
            base = f"m{len([1 for kk in self.names if isinstance(kk, tuple) and kk[1] == 0 and kk[0] != id(key[0])])}_row{key[1]}"
        else:
            base = f"x_{key.name}"
        name, n = base, 1
        used = set(self.names.values())
        while name in used:
            n += 1
            name = f"{base}__{n}"
        self.names[k] = name
        return name

    def _extract(self, observe, inputs, concrete, full_cycle, reset_values):
        sim = self.sim
        names = {}

        def namer(key):
            n = self._key_name(key)
            k = (id(key[0]), key[1]) if isinstance(key, tuple) else id(key)
            names[k] = n
            return n
        clk_of = {}
        for ev, clks in self.events.items():
            for c in clks:
                clk_of[id(c)] = c
        idle = {}   # level of each clock between events
        for c in clk_of.values():
            idle[id(c)] = 0

        def run(event):
            sim.reset()
            vars_ = sim.sym_state("x", namer=namer, concrete=list(concrete), clocks=[(c, idle[id(c)]) for c in clk_of.values()])
            for sg, val in reset_values.items() if hasattr(reset_values, "items") else reset_values:
                sim.poke(sg, val)
            sim.settle()
            pre = sim.snapshot()
            obs = {s.name: sim.value(s) for s in observe}
            post = None
            if event is not None:
                clks = self.events[event]
                sim.edge(*[(c, 1 - idle[id(c)]) for c in clks])
                if full_cycle:
                    sim.edge(*[(c, idle[id(c)]) for c in clks])
                post = sim.snapshot()
            return vars_, pre, obs, post
        p, = explore(lambda: run(None), max_paths=2)
        if p.exc is not None:
            raise p.exc
        vars_, pre, obs, _ = p.value
        # which elements are symbolic state / inputs
        driven = set()
        for s in sim.state.slots:
            if hasattr(s, "signal"):
                if sim.sync_mask.get(s, 0):
                    driven.add(id(s.signal))
        for key, v in vars_.items():
            name = self._key_name(key)
            w = (len(key) if not isinstance(key, tuple) else sim.mem_slot(key[0]).shape.width)
            if w == 0:
                continue
            self.widths[name] = w
            self.vars[name] = z3.BitVec(name, w)
            is_state = isinstance(key, tuple) or id(key) in driven
            if inputs is not None:
                is_state = not any(key is i for i in inputs) if not isinstance(key, tuple) else True
            (self.state_keys if is_state else self.input_keys).append((name, key))
            if is_state:
                if isinstance(key, tuple):
                    self.init[name] = key[0]._init._raw[key[1]] & ((1 << w) - 1)
                else:
                    self.init[name] = key.init & ((1 << w) - 1)
        self.obs = {n: as_bv(v, len([s for s in observe if s.name == n][0])) for n, v in obs.items()}
        for ev in self.events:
            paths = explore(lambda ev=ev: run(ev), max_paths=8)
            if len(paths) != 1:
                raise Inconclusive(f"event {ev}: {len(paths)} paths (data-dependent clocking?)")
            if paths[0].exc is not None:
                raise paths[0].exc
            _, pre, _, post = paths[0].value
            t = {}
            for name, key in self.state_keys:
                t[name] = as_bv(post[key], self.widths[name])
            self.trans[ev] = t

    # -- unrolling
    def substitute(self, term, state, inputs):
        subs = []
        for name, _ in self.state_keys:
            subs.append((self.vars[name], state[name]))
        for name, _ in self.input_keys:
            if name in inputs:
                subs.append((self.vars[name], inputs[name]))
        return z3.substitute(term, *subs) if subs else term

    def initial_state(self):
        return {name: z3.BitVecVal(self.init[name], self.widths[name]) for name, _ in self.state_keys}

    def symbolic_state(self, prefix="s0"):
        return {name: z3.BitVec(f"{prefix}_{name}", self.widths[name]) for name, _ in self.state_keys}

    def fresh_inputs(self, t):
        return {name: z3.BitVec(f"in{t}_{name}", self.widths[name]) for name, _ in self.input_keys}

    def observe(self, name, state, inputs):
        return self.substitute(self.obs[name], state, inputs)

    def step(self, state, inputs, choice, order):
        """choice: z3 term (or int) selecting events in `order` (last is the default)."""
        nxt = {}
        for name, _ in self.state_keys:
            alts = [self.substitute(self.trans[ev][name], state, inputs) for ev in order]
            if isinstance(choice, int):
                nxt[name] = alts[choice]
            else:
                r = alts[-1]
                for i in reversed(range(len(alts) - 1)):
                    r = z3.If(choice == i, alts[i], r)
                nxt[name] = r
        return nxt
